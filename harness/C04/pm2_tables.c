/* C04 / H04.pm2.tables: read_code_tree and read_offset_tree (lib/pm2_decoder.c) against the reference parser of
 * pma_ref.h, over a symbolic bit string with the cursor at an arbitrary alignment.
 *   bit reader  = the BITS_SPEC stub (bits of bs_data[], most significant first; refinement shown in C01 bits.*)
 *   build_tree  = capture stub: records (tree, tree_len, code_lengths[], num_code_lengths); what build_tree makes
 *                 of a length array is C01's canonical-code claim (tree.* harnesses).
 * Checked: number of bits consumed, the need-offset-tree flag, the code-length array handed to build_tree
 * (arbitrary entry), the single-code forms (tree decodes to that one symbol without consuming bits), that the
 * offset table is skipped entirely when the code table does not need one, array sizes 65 / 17. */
#define BITS_SPEC
#define BS_N 36
#include <string.h>
#include "lib/pm2_decoder.c"
#include "bits_stub.h"
static unsigned PMA_BITS(unsigned p, unsigned n) { return bs_ref(p, n); }
#include "pma_ref.h"

static LHAPM2Decoder dec;

static unsigned bt_calls, bt_num;
static TreeElement *bt_tree;
static size_t bt_tree_len;
static u8 bt_len[32];
static void build_tree(TreeElement *tree, size_t tree_len, uint8_t *code_lengths, unsigned int num_code_lengths)
{
	unsigned i;
	++bt_calls;
	bt_tree = tree; bt_tree_len = tree_len; bt_num = num_code_lengths;
	for (i = 0; i < num_code_lengths && i < 32; ++i) bt_len[i] = code_lengths[i];
}

static void load_bits(const u8 *data, unsigned skip)
{
	unsigned i;
	for (i = 0; i < BS_N; ++i) bs_data[i] = data[i];
	bs_bits = 8 * BS_N;
	bs_pos = skip;
}

void harness_code(void)
{
	INPUT_ARRAY(u8, data, BS_N);
	INPUT(u32, skip);
	INPUT(u32, probe);
	INPUT_ARRAY(u8, tree0, CODE_TREE_ELEMENTS);
	Pm2RefCodeTable ref;
	unsigned cur, i;
	int ret;
	/* the cursor starts at bit 0 here: read_code_tree sees the stream only through read_bits(n), so alignment
	 * cannot matter to it (the offset-table harness and the command harnesses run at arbitrary alignment) */
	ASSUME(skip == 0 && probe < 31);
	load_bits(data, 0);
#ifdef TW
	/* one instance per width w of the length fields (all eight are in the plan): with w fixed the positions of
	 * the n fields are fixed, which is what makes the query cheap */
	ASSUME(bs_ref(8, 3) == TW || bs_ref(5, 3) == 0);
#endif
	for (i = 0; i < CODE_TREE_ELEMENTS; ++i) dec.code_tree[i] = tree0[i];
	dec.need_offset_tree = 2;

	ret = read_code_tree(&dec);

	cur = 0;
	pm2_ref_code_table(&cur, &ref);
	CHECK(ret == 1, "C04: a complete code table is accepted");
	CHECK(bs_pos == cur, "C04: code table occupies 5+3 bits, or 5+3+3+n*w bits");
	CHECK(dec.need_offset_tree == ref.need_offsets, "C04: an offset table follows iff n >= 10, except for the single-symbol table n=29");
	if (ref.single) {
		CHECK(bt_calls == 0, "C04: single-symbol code table is not built from lengths");
		if (ref.n >= 1) {               /* n = 0 with m = 0 denotes no symbol at all: not a valid table */
			unsigned before = bs_pos;
			CHECK(read_from_tree(&dec.bit_stream_reader, dec.code_tree) == (int) ref.n - 1 && bs_pos == before,
			      "C04: min length 0: every code decodes to symbol n-1 using no bits");
		}
	} else {
		CHECK(bt_calls == 1 && bt_tree == dec.code_tree && bt_tree_len == CODE_TREE_ELEMENTS && bt_num == ref.n,
		      "C04: code tree built once from n lengths into the 65-entry code tree");
		if (probe < ref.n) CHECK(bt_len[probe] == ref.len[probe], "C04: code length i is 0 (unused) or m + v - 1");
	}
	if (ref.n == 31 && ref.m == 7 && !ref.single) WITNESS("31 codes");
	if (ref.n == 29 && ref.m == 0) WITNESS("single symbol 28 (no offset table)");
	if (ref.n == 12 && !ref.single && ref.len[probe] == ref.m + 1 && probe == 11) WITNESS("12 codes, last one of length m+1");
	WITNESS("end");
}

void harness_offset(void)
{
	INPUT_ARRAY(u8, data, BS_N);
	INPUT(u32, skip);
	INPUT(u32, probe);
	INPUT(u32, k);
	INPUT(u32, need);
	INPUT_ARRAY(u8, tree0, OFFSET_TREE_ELEMENTS);
	Pm2RefOffsetTable ref;
	unsigned cur, i;
	int ret;
	ASSUME(skip < 8 && probe < 8 && k >= 5 && k <= 8 && need <= 1);
	load_bits(data, skip);
	for (i = 0; i < OFFSET_TREE_ELEMENTS; ++i) dec.offset_tree[i] = tree0[i];
	dec.need_offset_tree = (int) need;

	ret = read_offset_tree(&dec, k);

	CHECK(ret == 1, "C04: a complete offset table is accepted");
	if (!need) {
		CHECK(bs_pos == skip && bt_calls == 0, "C04: no offset table in the stream when the code table does not need one");
		CHECK(dec.offset_tree[probe] == tree0[probe] && dec.offset_tree[probe + 8] == tree0[probe + 8] && dec.offset_tree[16] == tree0[16], "C04: offset tree untouched then");
	} else {
		cur = skip;
		pm2_ref_offset_table(&cur, k, &ref);
		CHECK(bs_pos == cur && cur == skip + 3 * k, "C04: offset table is k 3-bit lengths");
		if (ref.used == 1) {
			unsigned before = bs_pos;
			CHECK(bt_calls == 0, "C04: single-class offset table is not built from lengths");
			CHECK(read_from_tree(&dec.bit_stream_reader, dec.offset_tree) == (int) ref.single_class && bs_pos == before,
			      "C04: exactly one non-zero length: that class is decoded using no bits");
		} else {
			CHECK(bt_calls == 1 && bt_tree == dec.offset_tree && bt_tree_len == OFFSET_TREE_ELEMENTS && bt_num == k,
			      "C04: offset tree built once from k lengths into the 17-entry offset tree");
			if (probe < k) CHECK(bt_len[probe] == ref.len[probe], "C04: offset code length i is the i-th 3-bit field");
		}
		if (ref.used == 1 && ref.single_class == 7) WITNESS("single class 7");
		if (ref.used == 0) WITNESS("no class used");
		if (k == 8 && ref.used == 8) WITNESS("all eight classes");
	}
	if (!need) WITNESS("offset table absent");
	WITNESS("end");
}
