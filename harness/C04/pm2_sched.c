/* C04 / H04.pm2.sched: the -pm2- table (re)transmission schedule (output_byte / rebuild_tree, lib/pm2_decoder.c).
 *
 * Schedule (pma_ref.h, from the property text and the stage comments of the source), T = bytes output so far:
 *   T = 0           1 bit (ignored), code table, offset table with 5 classes
 *   T = 1024        offset table with 6 classes
 *   T = 2048        offset table with 7 classes
 *   T = 4096        1 flag bit; if set a new code table; then always an offset table with 8 classes
 *   T = 8192+4096k  1 flag bit; if set a new code table and an offset table with 8 classes; nothing otherwise
 * Ghost variable T.  Invariant INV(T): tree_rebuild_remaining == next_point(T) - T and tree_state names the
 * stage of next_point(T) (BUILD1 for 1024, BUILD2 for 2048, BUILD3 for 4096, CONTINUING for >= 8192).
 *   harness_step   from ARBITRARY T (< 2^30) and state with INV(T), arbitrary ring position / history list / output
 *                  fill: one real output_byte.  Tables are read iff T+1 is a schedule point, exactly the scheduled
 *                  ones, in the scheduled order, after exactly the scheduled flag bit; INV(T+1) holds; the byte is
 *                  appended to ring, output buffer and history.  By induction from harness_start: the n-th
 *                  rebuild happens after exactly the scheduled number of bytes, for streams of any length.
 *   harness_start  init + first lha_pm2_decoder_read: discards 1 bit, reads code table then offset table (5),
 *                  then decodes the first command with those tables; INV(T) holds for the T bytes it produced.
 * (A concrete 12 KiB run of output_byte as a cross-check was tried and dropped: symex slows to ~4 iterations/s
 * because every iteration extends the update chain of the 8 KiB ring; the induction above needs no such run.)
 * Stubs: read_code_tree / read_offset_tree log (kind, argument, cursor position) and consume nothing (their own
 * parsing is pm2.tables.*); bit reader = BITS_SPEC. */
#define BITS_SPEC
#define BS_N 2
#include <string.h>
#include "lib/pm2_decoder.c"
#include "bits_stub.h"
static unsigned PMA_BITS(unsigned p, unsigned n) { return bs_ref(p, n); }
#include "pma_ref.h"

static LHAPM2Decoder dec;

enum { EV_CODE = 1, EV_OFFSET = 2 };
#define EV_MAX 4
static unsigned ev_n, ev_kind[EV_MAX], ev_arg[EV_MAX], ev_pos[EV_MAX];
static void ev_log(unsigned kind, unsigned arg)
{
	if (ev_n < EV_MAX) { ev_kind[ev_n] = kind; ev_arg[ev_n] = arg; ev_pos[ev_n] = bs_pos; }
	++ev_n;
}
static int read_code_tree(LHAPM2Decoder *decoder)
{
	(void) decoder;
	ev_log(EV_CODE, 0);
	return 1;
}
static int read_offset_tree(LHAPM2Decoder *decoder, unsigned int num_offsets)
{
	(void) decoder;
	ev_log(EV_OFFSET, num_offsets);
	return 1;
}

/* stage names of the source: "After 1KiB", "After 2KiB", "After 4KiB", "8KiB onwards" */
static int stage_of(unsigned long point)
{
	return point == 1024 ? PM2_REBUILD_BUILD1 : point == 2048 ? PM2_REBUILD_BUILD2 : point == 4096 ? PM2_REBUILD_BUILD3 : PM2_REBUILD_CONTINUING;
}
static int inv(unsigned long total)
{
	unsigned long np = pm2_ref_next_point(total);
	return dec.tree_rebuild_remaining == np - total && (int) dec.tree_state == stage_of(np);
}
/* events expected at schedule point p when the cursor was at bit c0 */
static void check_events(int p, unsigned c0)
{
	unsigned flag = bs_ref(c0, 1);
	switch (p) {
	case PM2_REF_NONE:
		CHECK(ev_n == 0 && bs_pos == c0, "C04: no table is read and no bit consumed between schedule points");
		break;
	case PM2_REF_START:
		CHECK(ev_n == 2 && ev_kind[0] == EV_CODE && ev_pos[0] == c0 + 1 && ev_kind[1] == EV_OFFSET && ev_arg[1] == 5 && ev_pos[1] == c0 + 1,
		      "C04: stream start: one bit skipped, code table, offset table with 5 classes");
		break;
	case PM2_REF_1K:
		CHECK(ev_n == 1 && ev_kind[0] == EV_OFFSET && ev_arg[0] == 6 && bs_pos == c0, "C04: after 1 KiB: offset table with 6 classes, no flag bit");
		break;
	case PM2_REF_2K:
		CHECK(ev_n == 1 && ev_kind[0] == EV_OFFSET && ev_arg[0] == 7 && bs_pos == c0, "C04: after 2 KiB: offset table with 7 classes, no flag bit");
		break;
	case PM2_REF_4K:
		CHECK(bs_pos == c0 + 1, "C04: after 4 KiB: one flag bit");
		if (flag) CHECK(ev_n == 2 && ev_kind[0] == EV_CODE && ev_pos[0] == c0 + 1 && ev_kind[1] == EV_OFFSET && ev_arg[1] == 8, "C04: after 4 KiB, flag set: code table then offset table with 8 classes");
		else CHECK(ev_n == 1 && ev_kind[0] == EV_OFFSET && ev_arg[0] == 8 && ev_pos[0] == c0 + 1, "C04: after 4 KiB, flag clear: only the offset table with 8 classes");
		break;
	case PM2_REF_EVERY4K:
		CHECK(bs_pos == c0 + 1, "C04: after 8 KiB and every 4 KiB: one flag bit");
		if (flag) CHECK(ev_n == 2 && ev_kind[0] == EV_CODE && ev_pos[0] == c0 + 1 && ev_kind[1] == EV_OFFSET && ev_arg[1] == 8, "C04: every 4 KiB, flag set: code table then offset table with 8 classes");
		else CHECK(ev_n == 0, "C04: every 4 KiB, flag clear: tables stay");
		break;
	}
}

#ifdef STEP_HARNESS
void harness_step(void)
{
	INPUT_ARRAY(u8, data, BS_N);
	INPUT(u32, total); INPUT(u32, tstate); INPUT(u32, remaining); INPUT(u32, pos); INPUT(u32, fill); INPUT(u32, skip);
	INPUT(u8, b); INPUT(u8, head);
	u8 out[OUTPUT_BUFFER_SIZE];
	LHAPM2Decoder d0;                              /* arbitrary ring / history list */
	size_t n;
	int p;
	dec = d0;
	bs_data[0] = data[0]; bs_data[1] = data[1]; bs_bits = 16; bs_pos = skip;
	ASSUME(skip < 8 && total < (1u << 30) && pos < RING_BUFFER_SIZE && fill < OUTPUT_BUFFER_SIZE);
	dec.tree_state = (PM2RebuildState) tstate; dec.tree_rebuild_remaining = remaining; dec.ringbuf_pos = pos;
	dec.history_list.history_head = head;
	ASSUME(inv(total));
	n = fill;

	output_byte(&dec, out, &n, b);

	p = pm2_ref_schedule((unsigned long) total + 1);
	check_events(p, skip);
	CHECK(inv((unsigned long) total + 1), "C04: schedule invariant re-established: next tables are due exactly at the next schedule point");
	CHECK(n == fill + 1 && out[fill] == b, "C04: byte appended to the output buffer");
	CHECK(dec.ringbuf[pos] == b && dec.ringbuf_pos == (pos + 1) % RING_BUFFER_SIZE, "C04: byte appended to the 8 KiB window");
	CHECK(dec.history_list.history_head == b, "C04: byte moved to the front of the history");
	if (p == PM2_REF_4K && bs_ref(skip, 1)) WITNESS("4 KiB point with the flag set");
	if (p == PM2_REF_EVERY4K && total + 1 == 8192) WITNESS("8 KiB point");
	if (p == PM2_REF_EVERY4K && total + 1 == 4096u * 1000) WITNESS("a late 4 KiB point");
	if (p == PM2_REF_1K) WITNESS("1 KiB point");
	if (p == PM2_REF_NONE && total == 4097) WITNESS("between points");
	WITNESS("end");
}
#endif

#ifdef START_HARNESS
static size_t no_input(void *buf, size_t buf_len, void *user) { (void) buf; (void) buf_len; (void) user; return 0; }
void harness_start(void)
{
	INPUT_ARRAY(u8, data, BS_N);
	u8 out[OUTPUT_BUFFER_SIZE];
	size_t n;
	bs_data[0] = data[0]; bs_data[1] = data[1]; bs_bits = 16; bs_pos = 0;
	CHECK(lha_pm2_decoder_init(&dec, no_input, 0) == 1, "C04: init succeeds");
	CHECK(dec.tree_state == PM2_REBUILD_UNBUILT && dec.ringbuf_pos == 0 && dec.ringbuf[0] == ' ' && dec.ringbuf[RING_BUFFER_SIZE - 1] == ' ',
	      "C04: initial state: no tables yet, window of spaces");
	n = lha_pm2_decoder_read(&dec, out);
	/* the stub tables leave the initial code tree (a single leaf 0), so the first command is a byte of rank class 0 */
	CHECK(ev_n == 2 && ev_kind[0] == EV_CODE && ev_pos[0] == 1 && ev_kind[1] == EV_OFFSET && ev_arg[1] == 5 && ev_pos[1] == 1,
	      "C04: stream start: one bit skipped, code table, offset table with 5 classes - before the first command");
	CHECK(n == 1 && bs_pos == 1 + 3, "C04: first command decoded after the tables");
	CHECK(out[0] == pma_ref_initial_order(bs_ref(1, 3)), "C04: first byte is taken from the initial history order");
	CHECK(inv(n), "C04: schedule invariant established by the first read");
	WITNESS("end");
}
#endif
