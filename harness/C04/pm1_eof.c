/* C04 / H04.pm1.eof: a -pm1- stream that ends early is continued as zero bits (lib/pm1_decoder.c,
 * read_callback_wrapper, and the real bit reader on top of it).
 *   harness_wrapper  read_callback_wrapper over an arbitrary input callback: a 0-byte read (end of data) becomes
 *                    buf_len zero bytes; anything else is passed through unchanged (count and bytes).
 *   harness_bits     the REAL bit_stream_reader as lha_pm1_init wires it (callback = read_callback_wrapper) over a
 *                    stream of 0..3 symbolic bytes delivered with arbitrary short reads, then end of data: three
 *                    consecutive reads of 1..13 bits each (13 = widest -pm1- field) never fail and return exactly
 *                    the bits of the stream followed by zero bits. */
#define CB_N 10
#define CB_CALLS 6
#include "stream_cb.h"
#include <string.h>
#include "lib/pm1_decoder.c"

static LHAPM1Decoder dec;

#ifdef WRAPPER_HARNESS
static u8 src[8];
static unsigned src_ret, src_calls;
static size_t src_len_seen;
static void *src_user_seen;
static size_t any_input(void *buf, size_t buf_len, void *user)
{
	unsigned i;
	++src_calls; src_len_seen = buf_len; src_user_seen = user;
	for (i = 0; i < 8; ++i) if (i < src_ret) ((u8 *) buf)[i] = src[i];
	return src_ret;
}
void harness_wrapper(void)
{
	INPUT_ARRAY(u8, bytes, 8);
	INPUT_ARRAY(u8, old, 8);
	INPUT(u32, want); INPUT(u32, ret); INPUT(u32, probe);
	u8 buf[8];
	unsigned i;
	size_t got;
	static int cookie;
	ASSUME(want <= 8 && ret <= want && probe < 8);           /* callback contract: returns at most buf_len */
	for (i = 0; i < 8; ++i) { src[i] = bytes[i]; buf[i] = old[i]; }
	src_ret = ret;
	dec.callback = any_input; dec.callback_data = &cookie;
	got = read_callback_wrapper(buf, want, &dec);
	CHECK(src_calls == 1 && src_len_seen == want && src_user_seen == &cookie, "C04: the wrapper forwards the request to the stream's real callback");
	if (ret == 0) {
		CHECK(got == want, "C04: at end of data the wrapper reports the full requested length");
		CHECK(buf[probe] == (probe < want ? 0 : old[probe]), "C04: ... filled with zero bytes (and nothing beyond the request)");
	} else {
		CHECK(got == ret, "C04: before end of data the wrapper passes the count through");
		CHECK(buf[probe] == (probe < ret ? bytes[probe] : old[probe]), "C04: ... and the bytes");
	}
	if (ret == 0 && want == 4) WITNESS("end of data on a 4-byte request");
	if (ret == 2 && want == 4) WITNESS("short read passed through");
	WITNESS("end");
}
#endif

#ifdef BITS_HARNESS
void harness_bits(void)
{
	INPUT_ARRAY(u8, data, 3);
	INPUT_ARRAY(u8, shorts, CB_CALLS);
	INPUT(u32, len); INPUT(u32, n1); INPUT(u32, n2); INPUT(u32, n3);
	unsigned i, pos = 0;
	int v;
	ASSUME(len <= 3 && n1 >= 1 && n1 <= 13 && n2 >= 1 && n2 <= 13 && n3 >= 1 && n3 <= 13);
	for (i = 0; i < CB_N; ++i) cb_data[i] = (i < len && i < 3) ? data[i] : 0;    /* the stream, continued by zero bytes */
	for (i = 0; i < CB_CALLS; ++i) cb_short[i] = shorts[i];
	cb_len = len;
	CHECK(lha_pm1_init(&dec, cb_read, 0) == 1, "C04: init succeeds");
	CHECK(dec.bit_stream_reader.callback == read_callback_wrapper && dec.bit_stream_reader.callback_data == &dec && dec.callback == cb_read,
	      "C04: the -pm1- bit reader reads through the zero-filling wrapper");
	v = read_bits(&dec.bit_stream_reader, n1);
	CHECK(v == (int) ref_bits(pos, n1), "C04: bits past the end of a -pm1- stream read as zero (1st read)");
	pos += n1;
	v = read_bits(&dec.bit_stream_reader, n2);
	CHECK(v == (int) ref_bits(pos, n2), "C04: bits past the end of a -pm1- stream read as zero (2nd read)");
	pos += n2;
	v = read_bits(&dec.bit_stream_reader, n3);
	CHECK(v == (int) ref_bits(pos, n3), "C04: bits past the end of a -pm1- stream read as zero (3rd read)");
	if (len == 0) WITNESS("empty stream: all zero bits");
	if (len == 1 && n1 == 13) WITNESS("first field straddles the end of data");
	if (len == 3 && n1 + n2 == 24 && n3 == 13) WITNESS("third field entirely past the end");
	WITNESS("end");
}
#endif
