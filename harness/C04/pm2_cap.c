/* C04 / pm2.tree.cap: the -pm2- decoder's OWN tree arrays (their real sizes, whatever lib/pm2_decoder.c says) with the
 * real build_tree / read_from_tree, for the largest code tables the format can express.  pm2.tables.* hand the
 * length array to a capture stub and C01's tree.* build trees in arrays of 2*n entries; neither sees whether the
 * arrays that -pm2- itself declares are big enough for a full table.  Here: a complete prefix code over n symbols
 * (n = 31, the most a 5-bit count can announce, and n = 29, the defined codes; 8 offset classes) in the cheap family
 * "balanced tree at a symbolic rotation of the symbol order"; the canonical codeword of an arbitrary symbol s
 * (computed arithmetically, as in C01/tree.c) must walk to s in the decoder's array.  Lengths stay within what the
 * table encoding allows (min 1..7, offsets 0..6). */
#define BITS_SPEC
#define BS_N 4
#include <string.h>
#include "lib/pm2_decoder.c"
#include "bits_stub.h"

static LHAPM2Decoder dec;

/* balanced complete code over n symbols: with 2^d >= n > 2^(d-1): 2n - 2^d symbols of length d, 2^d - n of length d-1 */
static void balanced(unsigned n, unsigned rot, u8 *lens, unsigned *dmax)
{
	unsigned d = 0, i, shorter;
	while ((1u << d) < n) ++d;
	shorter = (1u << d) - n;
	for (i = 0; i < n; ++i) lens[i] = (u8) (((i + rot) % n) < shorter ? d - 1 : d);
	*dmax = d;
}

static void run(TreeElement *tree, size_t tree_len, unsigned n, const char *unused)
{
	INPUT(u32, rot); INPUT(u32, s);
	INPUT_ARRAY(u8, stream, BS_N);
	u8 lens[32];
	unsigned i, d, before = 0, code, ls;
	int v;
	(void) unused;
	ASSUME(rot < n && s < n);
	balanced(n, rot, lens, &d);
	ls = lens[s];
	for (i = 0; i < 32; ++i) if (i < n && (lens[i] < ls || (lens[i] == ls && i < s))) before += 1u << (d - lens[i]);
	code = before >> (d - ls);
	for (i = 0; i < BS_N; ++i) bs_data[i] = stream[i];
	bs_bits = 8 * BS_N; bs_pos = 0;
	ASSUME(bs_ref(0, ls) == code);
	build_tree(tree, tree_len, lens, n);
	v = read_from_tree(&dec.bit_stream_reader, tree);
	CHECK(v == (int) s, "C04: the decoder's own tree array holds a complete code table: the codeword of s decodes to s");
	CHECK(bs_pos == ls, "C04: and the walk consumes exactly its length");
	if (s == n - 1) WITNESS("last symbol");
	WITNESS("end");
}

#ifndef CAPN
#define CAPN 31
#endif
void harness_code(void) { run(dec.code_tree, sizeof(dec.code_tree), CAPN, ""); }
void harness_offset(void) { run(dec.offset_tree, sizeof(dec.offset_tree), 8, ""); }
