/* C04 / H04.pm2.cmd: one lha_pm2_decoder_read (lib/pm2_decoder.c) = one command, from an ARBITRARY window
 * content, write position, bit alignment and countdown, against the command format of pma_ref.h.
 *
 * Real code encoded: lha_pm2_decoder_read, read_single_byte, copy_from_history, history_get_count,
 * history_get_offset, decode_variable_length, output_byte (ring, output buffer, countdown).
 * Stubs (each justified by another harness):
 *   read_from_tree        yields the harness-chosen code symbol / offset class without consuming bits and records
 *                         when the offset tree is consulted (tree walking: C01/C09 tree.*; table contents: pm2.tables.*)
 *   find_in_history_list  returns ghost_ord[rank], an arbitrary "value at rank" function (list = that order: mtf.*)
 *   update_history_list   records the bytes in order (effect on the list: mtf.update)
 *   rebuild_tree          counts calls, sets the countdown (what is read when: pm2.sched.*); the tables consulted by
 *                         a command are read before its first output byte, so a rebuild inside a copy cannot affect it
 *   bit reader            BITS_SPEC
 *   harness_byte   code symbols 0..7: output = value at history rank base+extra bits; window/position/history/countdown updated
 *   harness_copy   code symbols 8..22 (lengths 2..16), symbolic window position and distance class/bits: output = LZ77
 *                  expansion over the 8 KiB window incl. self-overlap and wrap-around; offset tree consulted iff the
 *                  format says so, after the length bits
 *   harness_long   code symbols 23..28 (lengths 17..256, symbolic extra bits) at concrete window positions/distances
 *                  (a symbolic position would need up to 256 symbolic-index window reads) */
#define BITS_SPEC
#define BS_N 4
#include <string.h>
#include "lib/pm2_decoder.c"
#include "bits_stub.h"
static unsigned PMA_BITS(unsigned p, unsigned n) { return bs_ref(p, n); }
#include "pma_ref.h"

static LHAPM2Decoder dec;

static int sym_code, sym_off;
static unsigned rft_code_calls, rft_off_calls, rft_off_pos, rft_other;
static int read_from_tree(BitStreamReader *reader, TreeElement *tree)
{
	(void) reader;
	if (tree == dec.code_tree) { ++rft_code_calls; return sym_code; }
	if (tree == dec.offset_tree) { ++rft_off_calls; rft_off_pos = bs_pos; return sym_off; }
	++rft_other;
	return -1;
}
static unsigned rebuilds;
static void rebuild_tree(LHAPM2Decoder *decoder)
{
	++rebuilds;
	decoder->tree_rebuild_remaining = 4096;
}
static const u8 *ghost_ord;
static unsigned find_calls, find_rank;
static uint8_t find_in_history_list(HistoryLinkedList *list, uint8_t count)
{
	(void) list;
	++find_calls;
	find_rank = count;
	return ghost_ord[count];
}
static u8 upd_log[OUTPUT_BUFFER_SIZE];
static unsigned upd_n;
static void update_history_list(HistoryLinkedList *list, uint8_t b)
{
	(void) list;
	if (upd_n < OUTPUT_BUFFER_SIZE) upd_log[upd_n] = b;
	++upd_n;
}

static void set_state(u32 pos, u32 tstate, u32 remaining)
{
	dec.ringbuf_pos = pos;
	dec.tree_state = (PM2RebuildState) tstate;
	dec.tree_rebuild_remaining = remaining;
}
/* countdown after n output bytes, per the contract of the rebuild stub */
static void check_countdown(u32 remaining, unsigned n)
{
	if (remaining > n) CHECK(rebuilds == 0 && dec.tree_rebuild_remaining == remaining - n, "C04: countdown to the next table transmission decreases by the bytes output");
	else CHECK(rebuilds == 1 && dec.tree_rebuild_remaining == 4096 - (n - remaining), "C04: tables are re-read exactly when the countdown reaches zero, also in the middle of a copy");
}

#ifdef BYTE_HARNESS
void harness_byte(void)
{
	INPUT_ARRAY(u8, data, BS_N);
	INPUT_ARRAY(u8, ord, 256);
	INPUT(u32, skip); INPUT(u32, sym); INPUT(u32, pos0); INPUT(u32, probe); INPUT(u32, tstate); INPUT(u32, remaining);
	LHAPM2Decoder d0;
	u8 out[OUTPUT_BUFFER_SIZE];
	unsigned i, cur, rank;
	size_t n;
	ASSUME(skip < 8 && sym < 8 && pos0 < RING_BUFFER_SIZE && probe < RING_BUFFER_SIZE && tstate >= 1 && tstate <= 4 && remaining >= 1 && remaining <= 4096);
	for (i = 0; i < BS_N; ++i) bs_data[i] = data[i];
	bs_bits = 8 * BS_N; bs_pos = skip;
	dec = d0;
	set_state(pos0, tstate, remaining);
	ghost_ord = ord;
	sym_code = (int) sym;

	n = lha_pm2_decoder_read(&dec, out);

	cur = skip;
	rank = pm2_ref_rank(sym, &cur);
	CHECK(n == 1, "C04: a byte command yields one byte");
	CHECK(bs_pos == cur, "C04: byte command = code symbol + the extra bits of its rank class");
	CHECK(find_calls == 1 && find_rank == rank, "C04: the byte is looked up at history rank base + extra bits");
	CHECK(out[0] == ord[rank], "C04: output is the value at that rank");
	CHECK(upd_n == 1 && upd_log[0] == out[0], "C04: the byte is then moved to the front of the history");
	CHECK(dec.ringbuf_pos == (pos0 + 1) % RING_BUFFER_SIZE, "C04: window position advances by one modulo 8 KiB");
	CHECK(dec.ringbuf[probe] == (probe == pos0 ? out[0] : d0.ringbuf[probe]), "C04: window after a byte = old window with the byte appended");
	CHECK(rft_code_calls == 1 && rft_off_calls == 0 && rft_other == 0, "C04: one code symbol per command");
	check_countdown(remaining, 1);
	if (sym == 7 && rank == 255) WITNESS("rank 255");
	if (sym == 2 && rank == 16) WITNESS("rank 16");
	if (remaining == 1) WITNESS("tables due after this byte");
	WITNESS("end");
}
#endif

#ifdef COPY_HARNESS
#ifndef COPY_LEN_MAX
#define COPY_LEN_MAX 16
#endif
void harness_copy(void)
{
	INPUT_ARRAY(u8, data, BS_N);
	INPUT(u32, skip); INPUT(u32, sym); INPUT(u32, t); INPUT(u32, pos0); INPUT(u32, probe); INPUT(u32, idx); INPUT(u32, tstate); INPUT(u32, remaining);
	LHAPM2Decoder d0;
	u8 out[OUTPUT_BUFFER_SIZE];
	unsigned i, cur, c, len, off, d;
	size_t n;
	ASSUME(sym <= 8 + COPY_LEN_MAX - 2);           /* copy length c + 2 <= COPY_LEN_MAX (16 = all codes without length bits) */
	ASSUME(skip < 8 && sym >= 8 && sym <= 22 && t < 8 && pos0 < RING_BUFFER_SIZE && probe < RING_BUFFER_SIZE && idx < 16 && tstate >= 1 && tstate <= 4 && remaining >= 1 && remaining <= 4096);
	for (i = 0; i < BS_N; ++i) bs_data[i] = data[i];
	bs_bits = 8 * BS_N; bs_pos = skip;
	dec = d0;
	set_state(pos0, tstate, remaining);
	sym_code = (int) sym; sym_off = (int) t;

	n = lha_pm2_decoder_read(&dec, out);

	c = sym - 8;
	cur = skip;
	len = pm2_ref_length(c, &cur);
	CHECK(rft_off_calls == (pm2_ref_uses_offset_tree(c) ? 1u : 0u) && (rft_off_calls == 0 || rft_off_pos == cur), "C04: the offset tree is consulted for copy codes 1..19, after the length bits");
	off = pm2_ref_offset(c, t, &cur);
	d = off + 1;
	CHECK(n == len, "C04: copy codes 0..14 copy 2..16 bytes");
	CHECK(bs_pos == cur, "C04: copy command = code symbol [+ offset class] + distance bits");
	if (idx < len) {
		/* LZ77 over the window: byte idx comes from d bytes before its own position; once idx >= d that is
		 * output of this very copy */
		u8 expect = idx >= d ? out[idx - d] : d0.ringbuf[(pos0 + RING_BUFFER_SIZE - d + idx) % RING_BUFFER_SIZE];
		CHECK(out[idx] == expect, "C04: copy output is the LZ77 expansion at distance offset+1 over the 8 KiB window (self-overlap, wrap-around)");
		CHECK(upd_log[idx] == out[idx], "C04: every copied byte is moved to the front of the history, in order");
	}
	CHECK(upd_n == len && find_calls == 0, "C04: a copy consults the history list only to update it");
	CHECK(dec.ringbuf_pos == (pos0 + len) % RING_BUFFER_SIZE, "C04: window position advances by the copy length modulo 8 KiB");
	{
		unsigned e = (probe + RING_BUFFER_SIZE - pos0) % RING_BUFFER_SIZE;
		CHECK(dec.ringbuf[probe] == (e < len ? out[e] : d0.ringbuf[probe]), "C04: window after a copy = old window with the output appended");
	}
	check_countdown(remaining, len);
	if (len == COPY_LEN_MAX && d == 1) WITNESS("longest run (distance 1)");
	if (len == COPY_LEN_MAX && d == 8192 && pos0 == 8190) WITNESS("maximal distance across the window seam");
	if (c == 0 && off == 63) WITNESS("length-2 copy with its own 6-bit distance");
	if (len == 7 && t == 0) WITNESS("offset class 0");
	if (remaining == 5 && len == 8) WITNESS("tables due in the middle of the copy");
	WITNESS("end");
}
#endif

#ifdef FIELDS_HARNESS
/* the length and distance fields of every copy code, all extra-bit values (no window involved) */
void harness_fields(void)
{
	INPUT_ARRAY(u8, data, BS_N);
	INPUT(u32, skip); INPUT(u32, c); INPUT(u32, t);
	LHAPM2Decoder d0;
	unsigned i, cur, len, off;
	int got_len, got_off;
	ASSUME(skip < 8 && c <= 22 && t < 8);
	for (i = 0; i < BS_N; ++i) bs_data[i] = data[i];
	bs_bits = 8 * BS_N; bs_pos = skip;
	dec = d0;
	sym_off = (int) t;

	got_len = history_get_count(&dec, c);
	cur = skip;
	len = pm2_ref_length(c, &cur);
	CHECK(bs_pos == cur, "C04: length field: none for copy codes 0..14 and 20, 3/3/5/6/7 bits for 15..19");
	if (len != 0) CHECK(got_len == (int) len, "C04: copy length: 2..16 direct, 17..24, 25..32, 33..64, 65..128, 129..256 by class, 256 for code 20");
	else CHECK(got_len < 0, "C04: code symbols above 28 are not commands");
	got_off = history_get_offset(&dec, c);
	if (len != 0) {
		off = pm2_ref_offset(c, t, &cur);
		CHECK(rft_off_calls == (pm2_ref_uses_offset_tree(c) ? 1u : 0u), "C04: the offset tree is consulted for copy codes 1..19 only");
		CHECK(got_off == (int) off && off < PM2_REF_WINDOW, "C04: distance code: 6 bits for code 0 / class 0, 2^(t+5) + (t+5) bits for class t, 0 for code 20; always inside the 8 KiB window");
		CHECK(bs_pos == cur, "C04: distance field width");
		if (c == 19 && len == 256) WITNESS("code 19 reaches 256");
		if (c == 20) WITNESS("code 20");
		if (c == 7 && t == 7 && off == 8191) WITNESS("maximal distance");
	}
	WITNESS("end");
}
#endif

#ifdef LONG_HARNESS
/* instance parameters (all concrete, so that control flow and every window index are concrete and only the window
 * CONTENT and the countdown are symbolic): LC copy code 15..20, LX value of its length bits, LPOS window position,
 * LT offset class, LV value of the distance bits */
static void put_bits(unsigned pos, unsigned val, unsigned n)
{
	unsigned i;
	for (i = 0; i < n; ++i) if ((val >> (n - 1 - i)) & 1u) bs_data[(pos + i) >> 3] |= (u8) (0x80u >> ((pos + i) & 7));
}
void harness_long(void)
{
	INPUT(u32, remaining);
	const unsigned tstate = PM2_REBUILD_BUILD3;   /* concrete, or the start-of-stream branch makes the bit cursor symbolic */
	LHAPM2Decoder d0;
	u8 out[OUTPUT_BUFFER_SIZE];
	const unsigned c = LC, pos0 = LPOS, skip = 3;
	const unsigned lbits = c <= 19 ? pm2_ref_len_class[c <= 19 ? c - 15 : 0].bits : 0;
	unsigned i, cur, len, off, d;
	size_t n;
	ASSUME(remaining >= 1 && remaining <= 4096);
	bs_bits = 8 * BS_N; bs_pos = skip;
	put_bits(skip, LX, lbits);
	if (c != 20) put_bits(skip + lbits, LV, LT == 0 ? 6 : LT + 5);
	dec = d0;
	set_state(pos0, tstate, remaining);
	sym_code = (int) c + 8; sym_off = LT;

	n = lha_pm2_decoder_read(&dec, out);

	cur = skip;
	len = pm2_ref_length(c, &cur);
	CHECK(rft_off_calls == (pm2_ref_uses_offset_tree(c) ? 1u : 0u) && (rft_off_calls == 0 || rft_off_pos == cur), "C04: the offset tree is consulted for copy codes 1..19, after the length bits");
	off = pm2_ref_offset(c, LT, &cur);
	d = off + 1;
	CHECK(len >= 17 && len <= 256 && n == len, "C04: copy codes 15..20 copy 17..256 bytes (class base + extra bits)");
	CHECK(bs_pos == cur, "C04: copy command = code symbol + length bits [+ offset class + distance bits]");
	CHECK(c != 20 || (off == 0 && bs_pos == skip), "C04: copy code 20 is 256 bytes at distance 1 without further bits");
	for (i = 0; i < OUTPUT_BUFFER_SIZE + 8; ++i) {
		unsigned at = (pos0 + i) % RING_BUFFER_SIZE;
		if (i < len) {
			u8 expect = i >= d ? out[i - d] : d0.ringbuf[(pos0 + RING_BUFFER_SIZE - d + i) % RING_BUFFER_SIZE];
			CHECK(out[i] == expect, "C04: copy output is the LZ77 expansion at distance offset+1 over the 8 KiB window (self-overlap, wrap-around)");
			CHECK(upd_log[i] == out[i], "C04: every copied byte is moved to the front of the history, in order");
			CHECK(dec.ringbuf[at] == out[i], "C04: window after a copy holds the output");
		} else {
			CHECK(dec.ringbuf[at] == d0.ringbuf[at], "C04: window beyond the copied range unchanged");
		}
	}
	CHECK(dec.ringbuf[(pos0 + RING_BUFFER_SIZE - 1) % RING_BUFFER_SIZE] == d0.ringbuf[(pos0 + RING_BUFFER_SIZE - 1) % RING_BUFFER_SIZE]
	   && dec.ringbuf[(pos0 + 4000) % RING_BUFFER_SIZE] == d0.ringbuf[(pos0 + 4000) % RING_BUFFER_SIZE], "C04: window before the write position unchanged");
	CHECK(upd_n == len && find_calls == 0, "C04: a copy consults the history list only to update it");
	CHECK(dec.ringbuf_pos == (pos0 + len) % RING_BUFFER_SIZE, "C04: window position advances by the copy length modulo 8 KiB");
	check_countdown(remaining, len);
	if (remaining == 20) WITNESS("tables due inside the copy");
	WITNESS("end");
}
#endif
