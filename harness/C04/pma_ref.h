/* Reference statement of the PMarc -pm1- / -pm2- stream formats (property C04), shared by the C04 harnesses and by
 * the native validator validate/pma_validate.c.
 *
 * No independent PMarc specification is in the repository.  The tables below were written out from the format
 * description in the comments of lib/pm1_decoder.c / lib/pm2_decoder.c / lib/pma_common.c (which follow Alwin
 * Henseler's UNPMA10), from DESIGN.md 4.4 and from the property text - as explicit prefix-code tables and
 * arithmetic, NOT by referring to the decoder's own tables (history_decode, copy_decode, copy_ranges, byte_ranges,
 * byte_decode_trees, the nested ifs of read_copy_byte_count...).  validate/pma_validate.c checks their internal
 * structure (classes tile their ranges, prefix codes are complete and unambiguous) and decodes every -pm1-/-pm2-
 * member of the repository's test corpus with a decoder built only from this file, comparing against the real
 * library's output and the CRCs recorded in the archive headers.
 *
 * The includer provides    static unsigned PMA_BITS(unsigned pos, unsigned n)
 * = the n (0..18) bits at absolute bit position pos of the compressed stream, most significant bit first; the
 * prefix-code matchers look ahead a fixed 3, 5 or 18 bits and then advance by the length of the codeword found. */
#ifndef PMA_REF_H
#define PMA_REF_H

/* ---------------------------------------------------------------- move-to-front history ----------------------- */
/* Byte values are coded as their rank in a list of all 256 values ordered by recency.  Start order: printable
 * ASCII, control characters, 0xa0..0xdf, 0x80..0x9f, 0xe0..0xff. */
static unsigned pma_ref_initial_order(unsigned rank)
{
	if (rank < 0x60) return 0x20 + rank;                 /* ranks   0.. 95 : 0x20..0x7f */
	if (rank < 0x80) return rank - 0x60;                 /* ranks  96..127 : 0x00..0x1f */
	if (rank < 0xc0) return 0xa0 + (rank - 0x80);        /* ranks 128..191 : 0xa0..0xdf */
	if (rank < 0xe0) return 0x80 + (rank - 0xc0);        /* ranks 192..223 : 0x80..0x9f */
	return 0xe0 + (rank - 0xe0);                         /* ranks 224..255 : 0xe0..0xff */
}
/* move-to-front of the value at rank k: new[0] = old[k], new[r] = old[r-1] for 1 <= r <= k, new[r] = old[r] above */
static unsigned pma_ref_mtf_source_rank(unsigned r, unsigned k)
{
	return r == 0 ? k : (r <= k ? r - 1 : r);
}

/* ---------------------------------------------------------------- -pm2- --------------------------------------- */
#define PM2_REF_WINDOW 8192u
/* code-tree symbols 0..7: a byte, given as history rank = base + <bits>-bit value; the 8 classes tile 0..255 */
typedef struct { unsigned short base; unsigned char bits; } PmaRefClass;
static const PmaRefClass pm2_ref_rank_class[8] = {
	{ 0, 3 }, { 8, 3 }, { 16, 4 }, { 32, 5 }, { 64, 5 }, { 96, 5 }, { 128, 6 }, { 192, 6 },
};
/* code-tree symbols 8..28: copy code c = symbol - 8.
 *   c = 0..14  length c + 2 (2..16), no extra bits
 *   c = 15..19 length = base + extra bits: 17..24, 25..32, 33..64, 65..128, 129..256
 *   c = 20     length 256, no extra bits, distance code 0
 * symbols >= 29 are not commands. */
static const PmaRefClass pm2_ref_len_class[5] = { { 17, 3 }, { 25, 3 }, { 33, 5 }, { 65, 6 }, { 129, 7 } };

static unsigned pm2_ref_rank(unsigned sym, unsigned *cur)          /* sym 0..7 */
{
	unsigned v = PMA_BITS(*cur, pm2_ref_rank_class[sym].bits);
	*cur += pm2_ref_rank_class[sym].bits;
	return pm2_ref_rank_class[sym].base + v;
}
/* returns the copy length, 0 if c is not a copy code */
static unsigned pm2_ref_length(unsigned c, unsigned *cur)
{
	unsigned v;
	if (c <= 14) return c + 2;
	if (c <= 19) {
		v = PMA_BITS(*cur, pm2_ref_len_class[c - 15].bits);
		*cur += pm2_ref_len_class[c - 15].bits;
		return pm2_ref_len_class[c - 15].base + v;
	}
	if (c == 20) return 256;
	return 0;
}
/* copy codes 1..19 take their distance class from the offset tree */
static int pm2_ref_uses_offset_tree(unsigned c) { return c >= 1 && c <= 19; }
/* distance code ("offset"): the copy starts offset+1 bytes back.  c = 0: 6-bit value.  c = 1..19: offset-tree
 * symbol t: t = 0: 6-bit value (0..63); t = 1..7: 2^(t+5) + (t+5)-bit value (64..127, ..., 4096..8191).
 * c = 20: 0. */
static unsigned pm2_ref_offset(unsigned c, unsigned t, unsigned *cur)
{
	unsigned v, nb;
	if (c == 20) return 0;
	if (c == 0 || t == 0) {
		v = PMA_BITS(*cur, 6);
		*cur += 6;
		return v;
	}
	nb = t + 5;
	v = PMA_BITS(*cur, nb);
	*cur += nb;
	return (1u << nb) + v;
}
/* Table (re)transmission schedule, as a function of the number of bytes output so far (T):
 *   T = 0           1 bit (ignored), code table, offset table with 5 classes
 *   T = 1024        offset table with 6 classes
 *   T = 2048        offset table with 7 classes
 *   T = 4096        1 flag bit; if set a new code table; then (always) offset table with 8 classes
 *   T = 8192+4096k  1 flag bit; if set a new code table and an offset table with 8 classes
 * An offset table is only present in the stream if the current code table "needs" one (see pm2_ref_need_offsets). */
enum { PM2_REF_NONE, PM2_REF_START, PM2_REF_1K, PM2_REF_2K, PM2_REF_4K, PM2_REF_EVERY4K };
static int pm2_ref_schedule(unsigned long total)
{
	if (total == 0) return PM2_REF_START;
	if (total == 1024) return PM2_REF_1K;
	if (total == 2048) return PM2_REF_2K;
	if (total == 4096) return PM2_REF_4K;
	if (total >= 8192 && total % 4096 == 0) return PM2_REF_EVERY4K;
	return PM2_REF_NONE;
}
/* smallest schedule point strictly after T */
static unsigned long pm2_ref_next_point(unsigned long total)
{
	if (total < 1024) return 1024;
	if (total < 2048) return 2048;
	if (total < 4096) return 4096;
	return (total / 4096 + 1) * 4096;
}
static unsigned pm2_ref_offset_classes(int point)
{
	return point == PM2_REF_START ? 5 : point == PM2_REF_1K ? 6 : point == PM2_REF_2K ? 7 : 8;
}
/* Code table: 5-bit n (number of codes), 3-bit m (minimum length).  m = 0: the table is the single symbol n-1
 * (zero-length code) and nothing else follows.  Otherwise 3-bit w, then n w-bit values v: 0 = symbol unused,
 * else length m + v - 1.
 * Offset tables follow code tables only if symbols 9.. can occur: n >= 10, except for the single-symbol table
 * of symbol 28 (n = 29, m = 0: copy code 20 has a fixed distance). */
typedef struct { unsigned n, m, w, single; unsigned char len[31]; int need_offsets; } Pm2RefCodeTable;
static void pm2_ref_code_table(unsigned *cur, Pm2RefCodeTable *t)
{
	unsigned i, v;
	t->n = PMA_BITS(*cur, 5); *cur += 5;
	t->m = PMA_BITS(*cur, 3); *cur += 3;
	t->need_offsets = t->n >= 10 && !(t->n == 29 && t->m == 0);
	t->single = t->m == 0;
	t->w = 0;
	if (t->single) return;
	t->w = PMA_BITS(*cur, 3); *cur += 3;
	for (i = 0; i < t->n; ++i) {
		v = PMA_BITS(*cur, t->w); *cur += t->w;
		t->len[i] = (unsigned char) (v == 0 ? 0 : t->m + v - 1);
	}
}
/* Offset table with k classes: k 3-bit code lengths (0 = unused).  Exactly one non-zero length: that class is
 * the only one (zero-length code). */
typedef struct { unsigned k, used, single_class; unsigned char len[8]; } Pm2RefOffsetTable;
static void pm2_ref_offset_table(unsigned *cur, unsigned k, Pm2RefOffsetTable *t)
{
	unsigned i;
	t->k = k; t->used = 0; t->single_class = 0;
	for (i = 0; i < k; ++i) {
		t->len[i] = (unsigned char) PMA_BITS(*cur, 3); *cur += 3;
		if (t->len[i] != 0) { ++t->used; t->single_class = i; }
	}
}

/* ---------------------------------------------------------------- -pm1- --------------------------------------- */
#define PM1_REF_WINDOW 16384u
/* A row of a prefix code with an extra-bits field: the next plen bits equal prefix, then xbits bits v with
 * v < count: value base + v.  Rows of a table are tried in order; exactly one matches any bit string. */
typedef struct { unsigned short prefix; unsigned char plen, xbits; unsigned short base, count; } PmaRefRow;

/* length of a byte block: 1..216 */
static const PmaRefRow pm1_ref_block_len[5] = {
	{ 0x000, 0, 2,   1,   3 },     /* xx (00,01,10)          1..3    */
	{ 0x003, 2, 3,   4,   7 },     /* 11 xxx (000..110)      4..10   */
	{ 0x01f, 5, 4,  11,  14 },     /* 11 111 xxxx (0..13)   11..24   */
	{ 0x1fe, 9, 6,  25,  64 },     /* 11 111 1110 xxxxxx    25..88   */
	{ 0x1ff, 9, 7,  89, 128 },     /* 11 111 1111 xxxxxxx   89..216  */
};
/* length of a copy of class >= 2: 3..244 (length 2 is expressed by copy classes 0 and 1) */
static const PmaRefRow pm1_ref_copy_len[7] = {
	{ 0x000,  0, 2,   3,   3 },    /* xx (00,01,10)               3..5     */
	{ 0x003,  2, 3,   6,   5 },    /* 11 xxx (000..100)           6..10    */
	{ 0x01d,  5, 2,  11,   4 },    /* 11 101 xx                  11..14    */
	{ 0x01e,  5, 3,  15,   8 },    /* 11 110 xxx                 15..22    */
	{ 0x01f,  5, 6,  23,  62 },    /* 11 111 xxxxxx (0..61)      23..84    */
	{ 0x7fe, 11, 5,  85,  32 },    /* 11 111 111110 xxxxx        85..116   */
	{ 0x7ff, 11, 7, 117, 128 },    /* 11 111 111111 xxxxxxx     117..244   */
};
static unsigned pma_ref_rows(const PmaRefRow *rows, unsigned nrows, unsigned *cur)
{
	/* the longest codeword (prefix + extra bits) has 18 bits: look at the next 18 bits once */
	unsigned i, v, win = PMA_BITS(*cur, 18);
	for (i = 0; i < nrows; ++i) {
		if ((win >> (18 - rows[i].plen)) != rows[i].prefix) continue;
		v = (win >> (18 - rows[i].plen - rows[i].xbits)) & ((1u << rows[i].xbits) - 1u);
		if (v >= rows[i].count) continue;
		*cur += rows[i].plen + rows[i].xbits;
		return rows[i].base + v;
	}
	return 0;   /* unreachable for a complete table (checked by the validator) */
}
/* copy class (0..5), a prefix code that grows with the number of bytes output so far (pos):
 *   pos <   64 : 0 -> class 0, 1 -> class 2
 *   pos <  576 : 00 -> 0, 01 -> 1, 10 -> 3, 11 -> 2
 *   pos < 2624 : 000 -> 0, 001 -> 1, 01 -> 4, 10 -> 3, 11 -> 2
 *   otherwise  : 000 -> 0, 001 -> 1, 01 -> 4, 10 -> 3, 110 -> 5, 111 -> 2 */
typedef struct { unsigned short from_pos; unsigned char prefix, plen, cls; } Pm1RefTypeRow;
static const Pm1RefTypeRow pm1_ref_copy_class[17] = {
	{    0, 0x0, 1, 0 }, {    0, 0x1, 1, 2 },
	{   64, 0x0, 2, 0 }, {   64, 0x1, 2, 1 }, {   64, 0x2, 2, 3 }, {   64, 0x3, 2, 2 },
	{  576, 0x0, 3, 0 }, {  576, 0x1, 3, 1 }, {  576, 0x1, 2, 4 }, {  576, 0x2, 2, 3 }, {  576, 0x3, 2, 2 },
	{ 2624, 0x0, 3, 0 }, { 2624, 0x1, 3, 1 }, { 2624, 0x1, 2, 4 }, { 2624, 0x2, 2, 3 }, { 2624, 0x6, 3, 5 }, { 2624, 0x7, 3, 2 },
};
static unsigned pm1_ref_epoch_start(unsigned pos) { return pos < 64 ? 0 : pos < 576 ? 64 : pos < 2624 ? 576 : 2624; }
static unsigned pm1_ref_copy_type(unsigned pos, unsigned *cur)
{
	unsigned i, e = pm1_ref_epoch_start(pos), win = PMA_BITS(*cur, 3);
	for (i = 0; i < 17; ++i) {
		if (pm1_ref_copy_class[i].from_pos != e) continue;
		if ((win >> (3 - pm1_ref_copy_class[i].plen)) != pm1_ref_copy_class[i].prefix) continue;
		*cur += pm1_ref_copy_class[i].plen;
		return pm1_ref_copy_class[i].cls;
	}
	return 0;   /* unreachable: every epoch's code is complete (validator) */
}
/* distance code of a copy of class k: base + <bits>-bit value; the copy starts distance+1 bytes back.
 * classes 3, 4, 5 use fewer bits while the output is still short (a distance never reaches back before the
 * start of the output): the width is the first listed whose limit exceeds pos. */
typedef struct { unsigned short base; unsigned char bits; } Pm1RefDist;
static const Pm1RefDist pm1_ref_dist_class[6] = { { 0, 6 }, { 64, 8 }, { 0, 6 }, { 64, 9 }, { 576, 11 }, { 2624, 13 } };
typedef struct { unsigned char cls; unsigned short below_pos; unsigned char bits; } Pm1RefNarrow;
static const Pm1RefNarrow pm1_ref_narrow[9] = {
	{ 3,  320,  8 },
	{ 4,  832,  8 }, { 4, 1088,  9 }, { 4, 1600, 10 },
	{ 5, 2880,  8 }, { 5, 3136,  9 }, { 5, 3648, 10 }, { 5, 4672, 11 }, { 5, 6720, 12 },
};
static unsigned pm1_ref_dist_bits(unsigned cls, unsigned pos)
{
	unsigned i;
	for (i = 0; i < 9; ++i) {
		if (pm1_ref_narrow[i].cls == cls && pos < pm1_ref_narrow[i].below_pos) return pm1_ref_narrow[i].bits;
	}
	return pm1_ref_dist_class[cls].bits;
}
static unsigned pm1_ref_distance(unsigned cls, unsigned pos, unsigned *cur)
{
	unsigned nb = pm1_ref_dist_bits(cls, pos), v = PMA_BITS(*cur, nb);
	*cur += nb;
	return pm1_ref_dist_class[cls].base + v;
}
/* byte values: a prefix code chosen by the 5-bit stream header selects one of six rank classes a..f, then
 * rank = base + <bits>-bit value; the classes tile 0..255 */
static const PmaRefClass pm1_ref_rank_class[6] = { { 0, 4 }, { 16, 4 }, { 32, 5 }, { 64, 6 }, { 128, 6 }, { 192, 6 } };
/* generated by validate/gen_trees.py from the S-expression comments in lib/pm1_decoder.c */
/* header k: leaf i (i < nleaves[k]) is the codeword code[6k+i] of len[6k+i] bits for rank class cls[6k+i];
 * header 31 has no code: class a, no bits.  Flat scalar arrays: CBMC's array theory cannot take arrays in structs. */
static const char *const pm1_ref_tree_shape[32] = {
	/*  0 */ "((((a b) c) d) (e f))",
	/*  1 */ "(((a b) (c f)) (d e))",
	/*  2 */ "(((a b) c) (d (e f)))",
	/*  3 */ "((a (b c)) (d (e f)))",
	/*  4 */ "((a (b d)) (c (e f)))",
	/*  5 */ "((a (b (e f))) (c d))",
	/*  6 */ "((a b) ((c d) (e f)))",
	/*  7 */ "((a b) ((c (e f)) d))",
	/*  8 */ "((a b) (c (d (e f))))",
	/*  9 */ "(a (((b f) c) (d e)))",
	/* 10 */ "(a (((b (e f)) c) d))",
	/* 11 */ "(a (((b c) d) (e f)))",
	/* 12 */ "(a ((b (c f)) (d e)))",
	/* 13 */ "(a ((b c) (d (e f))))",
	/* 14 */ "(a ((b (d (e f))) c))",
	/* 15 */ "(a (b ((c d) (e f))))",
	/* 16 */ "(a (b (c (d (e f)))))",
	/* 17 */ "(((d e) c) (d e))",
	/* 18 */ "((a (b e)) (c d))",
	/* 19 */ "((a b) (c (d e)))",
	/* 20 */ "(a (((b e) c) d))",
	/* 21 */ "(a ((b c) (d e)))",
	/* 22 */ "(a ((b (d e)) c))",
	/* 23 */ "(a (b (c (d e))))",
	/* 24 */ "(((a b) c) d)",
	/* 25 */ "((a (b d)) c)",
	/* 26 */ "((a b) (c d))",
	/* 27 */ "(a ((b d) c))",
	/* 28 */ "(a (b (c d)))",
	/* 29 */ "(a (b c))",
	/* 30 */ "(a b)",
	/* 31 */ "a",
};
static const unsigned char pm1_ref_tree_nleaves[32] = { 6, 6, 6, 6, 6, 6, 6, 6, 6, 6, 6, 6, 6, 6, 6, 6, 6, 5, 5, 5, 5, 5, 5, 5, 4, 4, 4, 4, 4, 3, 2, 1 };
static const unsigned char pm1_ref_leaf_code[32 * 6] = {
	/*  0 ((((a b) c) d) (e f))        */ 0x00, 0x01, 0x01, 0x01, 0x02, 0x03,
	/*  1 (((a b) (c f)) (d e))        */ 0x00, 0x01, 0x02, 0x03, 0x02, 0x03,
	/*  2 (((a b) c) (d (e f)))        */ 0x00, 0x01, 0x01, 0x02, 0x06, 0x07,
	/*  3 ((a (b c)) (d (e f)))        */ 0x00, 0x02, 0x03, 0x02, 0x06, 0x07,
	/*  4 ((a (b d)) (c (e f)))        */ 0x00, 0x02, 0x03, 0x02, 0x06, 0x07,
	/*  5 ((a (b (e f))) (c d))        */ 0x00, 0x02, 0x06, 0x07, 0x02, 0x03,
	/*  6 ((a b) ((c d) (e f)))        */ 0x00, 0x01, 0x04, 0x05, 0x06, 0x07,
	/*  7 ((a b) ((c (e f)) d))        */ 0x00, 0x01, 0x04, 0x0a, 0x0b, 0x03,
	/*  8 ((a b) (c (d (e f))))        */ 0x00, 0x01, 0x02, 0x06, 0x0e, 0x0f,
	/*  9 (a (((b f) c) (d e)))        */ 0x00, 0x08, 0x09, 0x05, 0x06, 0x07,
	/* 10 (a (((b (e f)) c) d))        */ 0x00, 0x08, 0x12, 0x13, 0x05, 0x03,
	/* 11 (a (((b c) d) (e f)))        */ 0x00, 0x08, 0x09, 0x05, 0x06, 0x07,
	/* 12 (a ((b (c f)) (d e)))        */ 0x00, 0x04, 0x0a, 0x0b, 0x06, 0x07,
	/* 13 (a ((b c) (d (e f))))        */ 0x00, 0x04, 0x05, 0x06, 0x0e, 0x0f,
	/* 14 (a ((b (d (e f))) c))        */ 0x00, 0x04, 0x0a, 0x16, 0x17, 0x03,
	/* 15 (a (b ((c d) (e f))))        */ 0x00, 0x02, 0x0c, 0x0d, 0x0e, 0x0f,
	/* 16 (a (b (c (d (e f)))))        */ 0x00, 0x02, 0x06, 0x0e, 0x1e, 0x1f,
	/* 17 (((d e) c) (d e))            */ 0x00, 0x01, 0x01, 0x02, 0x03, 0x00,
	/* 18 ((a (b e)) (c d))            */ 0x00, 0x02, 0x03, 0x02, 0x03, 0x00,
	/* 19 ((a b) (c (d e)))            */ 0x00, 0x01, 0x02, 0x06, 0x07, 0x00,
	/* 20 (a (((b e) c) d))            */ 0x00, 0x08, 0x09, 0x05, 0x03, 0x00,
	/* 21 (a ((b c) (d e)))            */ 0x00, 0x04, 0x05, 0x06, 0x07, 0x00,
	/* 22 (a ((b (d e)) c))            */ 0x00, 0x04, 0x0a, 0x0b, 0x03, 0x00,
	/* 23 (a (b (c (d e))))            */ 0x00, 0x02, 0x06, 0x0e, 0x0f, 0x00,
	/* 24 (((a b) c) d)                */ 0x00, 0x01, 0x01, 0x01, 0x00, 0x00,
	/* 25 ((a (b d)) c)                */ 0x00, 0x02, 0x03, 0x01, 0x00, 0x00,
	/* 26 ((a b) (c d))                */ 0x00, 0x01, 0x02, 0x03, 0x00, 0x00,
	/* 27 (a ((b d) c))                */ 0x00, 0x04, 0x05, 0x03, 0x00, 0x00,
	/* 28 (a (b (c d)))                */ 0x00, 0x02, 0x06, 0x07, 0x00, 0x00,
	/* 29 (a (b c))                    */ 0x00, 0x02, 0x03, 0x00, 0x00, 0x00,
	/* 30 (a b)                        */ 0x00, 0x01, 0x00, 0x00, 0x00, 0x00,
	/* 31 a                            */ 0x00, 0x00, 0x00, 0x00, 0x00, 0x00,
};
static const unsigned char pm1_ref_leaf_len[32 * 6] = {
	/*  0 ((((a b) c) d) (e f))        */ 4, 4, 3, 2, 2, 2,
	/*  1 (((a b) (c f)) (d e))        */ 3, 3, 3, 3, 2, 2,
	/*  2 (((a b) c) (d (e f)))        */ 3, 3, 2, 2, 3, 3,
	/*  3 ((a (b c)) (d (e f)))        */ 2, 3, 3, 2, 3, 3,
	/*  4 ((a (b d)) (c (e f)))        */ 2, 3, 3, 2, 3, 3,
	/*  5 ((a (b (e f))) (c d))        */ 2, 3, 4, 4, 2, 2,
	/*  6 ((a b) ((c d) (e f)))        */ 2, 2, 3, 3, 3, 3,
	/*  7 ((a b) ((c (e f)) d))        */ 2, 2, 3, 4, 4, 2,
	/*  8 ((a b) (c (d (e f))))        */ 2, 2, 2, 3, 4, 4,
	/*  9 (a (((b f) c) (d e)))        */ 1, 4, 4, 3, 3, 3,
	/* 10 (a (((b (e f)) c) d))        */ 1, 4, 5, 5, 3, 2,
	/* 11 (a (((b c) d) (e f)))        */ 1, 4, 4, 3, 3, 3,
	/* 12 (a ((b (c f)) (d e)))        */ 1, 3, 4, 4, 3, 3,
	/* 13 (a ((b c) (d (e f))))        */ 1, 3, 3, 3, 4, 4,
	/* 14 (a ((b (d (e f))) c))        */ 1, 3, 4, 5, 5, 2,
	/* 15 (a (b ((c d) (e f))))        */ 1, 2, 4, 4, 4, 4,
	/* 16 (a (b (c (d (e f)))))        */ 1, 2, 3, 4, 5, 5,
	/* 17 (((d e) c) (d e))            */ 3, 3, 2, 2, 2, 0,
	/* 18 ((a (b e)) (c d))            */ 2, 3, 3, 2, 2, 0,
	/* 19 ((a b) (c (d e)))            */ 2, 2, 2, 3, 3, 0,
	/* 20 (a (((b e) c) d))            */ 1, 4, 4, 3, 2, 0,
	/* 21 (a ((b c) (d e)))            */ 1, 3, 3, 3, 3, 0,
	/* 22 (a ((b (d e)) c))            */ 1, 3, 4, 4, 2, 0,
	/* 23 (a (b (c (d e))))            */ 1, 2, 3, 4, 4, 0,
	/* 24 (((a b) c) d)                */ 3, 3, 2, 1, 0, 0,
	/* 25 ((a (b d)) c)                */ 2, 3, 3, 1, 0, 0,
	/* 26 ((a b) (c d))                */ 2, 2, 2, 2, 0, 0,
	/* 27 (a ((b d) c))                */ 1, 3, 3, 2, 0, 0,
	/* 28 (a (b (c d)))                */ 1, 2, 3, 3, 0, 0,
	/* 29 (a (b c))                    */ 1, 2, 2, 0, 0, 0,
	/* 30 (a b)                        */ 1, 1, 0, 0, 0, 0,
	/* 31 a                            */ 0, 0, 0, 0, 0, 0,
};
static const unsigned char pm1_ref_leaf_cls[32 * 6] = {
	/*  0 ((((a b) c) d) (e f))        */ 0, 1, 2, 3, 4, 5,
	/*  1 (((a b) (c f)) (d e))        */ 0, 1, 2, 5, 3, 4,
	/*  2 (((a b) c) (d (e f)))        */ 0, 1, 2, 3, 4, 5,
	/*  3 ((a (b c)) (d (e f)))        */ 0, 1, 2, 3, 4, 5,
	/*  4 ((a (b d)) (c (e f)))        */ 0, 1, 3, 2, 4, 5,
	/*  5 ((a (b (e f))) (c d))        */ 0, 1, 4, 5, 2, 3,
	/*  6 ((a b) ((c d) (e f)))        */ 0, 1, 2, 3, 4, 5,
	/*  7 ((a b) ((c (e f)) d))        */ 0, 1, 2, 4, 5, 3,
	/*  8 ((a b) (c (d (e f))))        */ 0, 1, 2, 3, 4, 5,
	/*  9 (a (((b f) c) (d e)))        */ 0, 1, 5, 2, 3, 4,
	/* 10 (a (((b (e f)) c) d))        */ 0, 1, 4, 5, 2, 3,
	/* 11 (a (((b c) d) (e f)))        */ 0, 1, 2, 3, 4, 5,
	/* 12 (a ((b (c f)) (d e)))        */ 0, 1, 2, 5, 3, 4,
	/* 13 (a ((b c) (d (e f))))        */ 0, 1, 2, 3, 4, 5,
	/* 14 (a ((b (d (e f))) c))        */ 0, 1, 3, 4, 5, 2,
	/* 15 (a (b ((c d) (e f))))        */ 0, 1, 2, 3, 4, 5,
	/* 16 (a (b (c (d (e f)))))        */ 0, 1, 2, 3, 4, 5,
	/* 17 (((d e) c) (d e))            */ 3, 4, 2, 3, 4, 0,
	/* 18 ((a (b e)) (c d))            */ 0, 1, 4, 2, 3, 0,
	/* 19 ((a b) (c (d e)))            */ 0, 1, 2, 3, 4, 0,
	/* 20 (a (((b e) c) d))            */ 0, 1, 4, 2, 3, 0,
	/* 21 (a ((b c) (d e)))            */ 0, 1, 2, 3, 4, 0,
	/* 22 (a ((b (d e)) c))            */ 0, 1, 3, 4, 2, 0,
	/* 23 (a (b (c (d e))))            */ 0, 1, 2, 3, 4, 0,
	/* 24 (((a b) c) d)                */ 0, 1, 2, 3, 0, 0,
	/* 25 ((a (b d)) c)                */ 0, 1, 3, 2, 0, 0,
	/* 26 ((a b) (c d))                */ 0, 1, 2, 3, 0, 0,
	/* 27 (a ((b d) c))                */ 0, 1, 3, 2, 0, 0,
	/* 28 (a (b (c d)))                */ 0, 1, 2, 3, 0, 0,
	/* 29 (a (b c))                    */ 0, 1, 2, 0, 0, 0,
	/* 30 (a b)                        */ 0, 1, 0, 0, 0, 0,
	/* 31 a                            */ 0, 0, 0, 0, 0, 0,
};
/* end generated */
/* rank class (0..5 = a..f) selected by the next bits under start header `header` */
static unsigned pm1_ref_class(unsigned header, unsigned *cur)
{
	unsigned i, win = PMA_BITS(*cur, 5);               /* the longest codeword has 5 bits */
	for (i = 0; i < 6; ++i) {
		if (i >= pm1_ref_tree_nleaves[header]) break;
		if ((win >> (5 - pm1_ref_leaf_len[6 * header + i])) != pm1_ref_leaf_code[6 * header + i]) continue;
		*cur += pm1_ref_leaf_len[6 * header + i];
		return pm1_ref_leaf_cls[6 * header + i];
	}
	return 0;   /* unreachable: every tree is a complete prefix code (validator) */
}
static unsigned pm1_ref_rank(unsigned header, unsigned *cur)
{
	unsigned cls = pm1_ref_class(header, cur), v;
	v = PMA_BITS(*cur, pm1_ref_rank_class[cls].bits);
	*cur += pm1_ref_rank_class[cls].bits;
	return pm1_ref_rank_class[cls].base + v;
}
#endif
