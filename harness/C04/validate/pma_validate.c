/* Native validation of the C04 reference tables (../pma_ref.h).  NOT evidence for the property - validation of the
 * oracle the CBMC harnesses compare the real code against.
 *
 *  1. structure: rank classes tile 0..255; -pm2- copy-length classes tile 17..256; every prefix-code table is
 *     complete and unambiguous and covers exactly its value range (block 1..216, copy 3..244, copy class per epoch);
 *     the explicit -pm1- narrowing thresholds equal the rule "fewest bits >= 8 that reach back to the start of the
 *     output"; the explicit 32 start-header codes equal the S-expressions in the source comments, re-parsed here;
 *     the initial history order is a permutation made of the five stated runs.
 *  2. corpus: a complete -pm1- and -pm2- decoder built ONLY from pma_ref.h (+ a canonical-code Huffman reader, a
 *     plain 256-entry move-to-front array and a flat output history) decodes every -pm1-/-pm2- member found in the
 *     repository's test archives and test/compressed/pm2.bin; its output must equal, byte for byte, what the real
 *     library (lha_decoder_new/lha_decoder_read on the same payload) produces, and the CRC-16 recorded in the
 *     archive header.  Prints which table rows the corpus actually exercised (= which reference entries this
 *     validates; the rest are covered only by the structure checks and by agreement with the source comments).
 *
 * build+run: see validate/run.sh */
#include <stdio.h>
#include <stdlib.h>
#include <string.h>
#include <stdint.h>
#include "lha_decoder.h"

/* ------------------------------------------------------------------ bit source */
static const uint8_t *g_bits;
static size_t g_nbytes;
static int g_overrun;            /* set when bits past the end of the payload are requested */
static unsigned PMA_BITS(unsigned pos, unsigned n)
{
	unsigned v = 0, i;
	for (i = 0; i < n; ++i) {
		unsigned q = pos + i, bit = 0;
		if ((q >> 3) < g_nbytes) bit = (g_bits[q >> 3] >> (7 - (q & 7))) & 1u;
		/* past the end: zero bits (-pm1- semantics; the matchers also look ahead) */
		v = (v << 1) | bit;
	}
	return v;
}
#include "../pma_ref.h"

static int failures;
#define EXPECT(c, ...) do { if (!(c)) { ++failures; printf("FAIL: " __VA_ARGS__); printf("\n"); } } while (0)

/* ------------------------------------------------------------------ 1. structure */
static void set_bits_from_word(uint8_t *buf, unsigned word, unsigned nbits)
{
	unsigned i;
	memset(buf, 0, 8);
	for (i = 0; i < nbits; ++i) if ((word >> (nbits - 1 - i)) & 1u) buf[i >> 3] |= (uint8_t) (0x80 >> (i & 7));
}
static void check_rows(const char *name, const PmaRefRow *rows, unsigned nrows, unsigned lo, unsigned hi)
{
	/* every 18-bit string: exactly one row matches; every value lo..hi has exactly one codeword */
	static unsigned seen[512];
	static unsigned seen_len[512];
	uint8_t buf[8];
	unsigned w, i;
	memset(seen, 0, sizeof(seen));
	g_bits = buf; g_nbytes = 8;
	for (w = 0; w < (1u << 18); ++w) {
		unsigned matches = 0, cur = 0, val;
		set_bits_from_word(buf, w, 18);
		for (i = 0; i < nrows; ++i) {
			if (PMA_BITS(0, rows[i].plen) == rows[i].prefix && PMA_BITS(rows[i].plen, rows[i].xbits) < rows[i].count) ++matches;
		}
		EXPECT(matches == 1, "%s: bit string %05x matched by %u rows", name, w, matches);
		val = pma_ref_rows(rows, nrows, &cur);
		EXPECT(val >= lo && val <= hi && cur <= 18, "%s: value %u out of range", name, val);
		if (val < 512) {
			/* one codeword per value: all 18-bit strings giving val share the first cur bits */
			unsigned cw = w >> (18 - cur);
			if (seen[val] == 0) { seen[val] = cw + 1; seen_len[val] = cur; }
			else EXPECT(seen[val] == cw + 1 && seen_len[val] == cur, "%s: value %u has two codewords", name, val);
		}
	}
	for (i = lo; i <= hi; ++i) EXPECT(seen[i] != 0, "%s: value %u has no codeword", name, i);
	printf("structure: %s complete, unambiguous, covers %u..%u\n", name, lo, hi);
}
static void check_classes(const char *name, const PmaRefClass *c, unsigned n, unsigned lo, unsigned hi_excl)
{
	unsigned i, next = lo;
	for (i = 0; i < n; ++i) {
		EXPECT(c[i].base == next, "%s class %u starts at %u, expected %u", name, i, c[i].base, next);
		next = c[i].base + (1u << c[i].bits);
	}
	EXPECT(next == hi_excl, "%s classes end at %u, expected %u", name, next, hi_excl);
	printf("structure: %s classes tile %u..%u\n", name, lo, hi_excl - 1);
}
/* re-parse an S-expression and walk it with the bits of (code,len) */
static int sexpr_walk(const char *s, unsigned code, unsigned len, unsigned *used)
{
	/* returns leaf letter index, or -1 */
	const char *p = s;
	unsigned depth_bits = 0;
	for (;;) {
		while (*p == ' ') ++p;
		if (*p != '(') { *used = depth_bits; return *p - 'a'; }
		if (depth_bits == len) return -1;
		++p;  /* into the pair */
		if ((code >> (len - 1 - depth_bits)) & 1u) {
			/* skip the first element */
			int d = 0;
			while (*p == ' ') ++p;
			do { if (*p == '(') ++d; else if (*p == ')') --d; ++p; } while (d > 0);
		}
		++depth_bits;
	}
}
static void check_structure(void)
{
	unsigned i, k, pos;
	static unsigned char seenb[256];
	check_classes("-pm2- history rank", pm2_ref_rank_class, 8, 0, 256);
	check_classes("-pm1- history rank", pm1_ref_rank_class, 6, 0, 256);
	check_classes("-pm2- copy length", pm2_ref_len_class, 5, 17, 257);   /* 129 + 7 bits reaches 256 */
	check_rows("-pm1- block length", pm1_ref_block_len, 5, 1, 216);
	check_rows("-pm1- copy length", pm1_ref_copy_len, 7, 3, 244);
	/* copy class code per epoch: complete + unambiguous, value sets as stated */
	{
		static const unsigned epochs[4] = { 0, 64, 576, 2624 };
		static const unsigned want[4] = { 0x05, 0x0f, 0x1f, 0x3f };     /* classes {0,2}, {0..3}, {0..4}, {0..5} */
		uint8_t buf[8];
		unsigned e, w;
		for (e = 0; e < 4; ++e) {
			unsigned got = 0;
			for (w = 0; w < 8; ++w) {
				unsigned m = 0, cur = 0, cls;
				set_bits_from_word(buf, w, 3);
				g_bits = buf; g_nbytes = 8;
				for (i = 0; i < 17; ++i)
					if (pm1_ref_copy_class[i].from_pos == epochs[e] && PMA_BITS(0, pm1_ref_copy_class[i].plen) == pm1_ref_copy_class[i].prefix) ++m;
				EXPECT(m == 1, "copy class epoch %u: %u rows match %x", epochs[e], m, w);
				cls = pm1_ref_copy_type(epochs[e], &cur);
				got |= 1u << cls;
			}
			EXPECT(got == want[e], "copy class epoch %u: classes %x expected %x", epochs[e], got, want[e]);
		}
		printf("structure: -pm1- copy class codes complete per epoch (0, 64, 576, 2624)\n");
	}
	/* narrowing thresholds = fewest bits (>= 8, <= full width) such that base + 2^bits >= pos */
	for (k = 0; k < 6; ++k) for (pos = 0; pos < 40000; ++pos) {
		unsigned full = pm1_ref_dist_class[k].bits, b = full, w;
		if (k >= 3) for (w = 8; w < full; ++w) if (pos < pm1_ref_dist_class[k].base + (1u << w)) { b = w; break; }
		EXPECT(pm1_ref_dist_bits(k, pos) == b, "distance bits class %u pos %u: table %u rule %u", k, pos, pm1_ref_dist_bits(k, pos), b);
	}
	/* distance classes 1,3 / 4 / 5 start where the previous one ends: 64, 64+512=576, 576+2048=2624 */
	EXPECT(pm1_ref_dist_class[1].base == 64 && pm1_ref_dist_class[3].base == 64 && pm1_ref_dist_class[4].base == 64 + 512
	    && pm1_ref_dist_class[5].base == 576 + 2048, "distance class bases");
	printf("structure: -pm1- distance widths follow the reach rule; thresholds 320 / 832 1088 1600 / 2880 3136 3648 4672 6720\n");
	/* start-header trees: explicit leaf table == S-expression, each shape code complete */
	for (k = 0; k < 32; ++k) {
		uint8_t buf[8];
		unsigned w, nl = pm1_ref_tree_nleaves[k];
		const unsigned char *lc = &pm1_ref_leaf_code[6 * k], *ll = &pm1_ref_leaf_len[6 * k], *lk = &pm1_ref_leaf_cls[6 * k];
		for (i = 0; i < nl; ++i) {
			unsigned used = 99;
			int leaf = sexpr_walk(pm1_ref_tree_shape[k], lc[i], ll[i], &used);
			EXPECT(leaf == lk[i] && used == ll[i], "tree %u leaf %u: table says class %u len %u, shape gives %d len %u", k, i, lk[i], ll[i], leaf, used);
		}
		for (w = 0; w < 32; ++w) {       /* exactly one leaf row matches any 5-bit string */
			unsigned m = 0;
			set_bits_from_word(buf, w, 5);
			g_bits = buf; g_nbytes = 8;
			for (i = 0; i < nl; ++i) if (PMA_BITS(0, ll[i]) == lc[i]) ++m;
			EXPECT(m == 1, "tree %u: %u leaves match %x", k, m, w);
		}
	}
	printf("structure: 32 start-header codes equal the S-expressions of the source comments; each is a complete prefix code\n");
	memset(seenb, 0, sizeof(seenb));
	for (i = 0; i < 256; ++i) { unsigned b = pma_ref_initial_order(i); EXPECT(b < 256 && !seenb[b], "initial order not a permutation at %u", i); seenb[b & 255] = 1; }
	EXPECT(pma_ref_initial_order(0) == 0x20 && pma_ref_initial_order(95) == 0x7f && pma_ref_initial_order(96) == 0 && pma_ref_initial_order(127) == 0x1f
	    && pma_ref_initial_order(128) == 0xa0 && pma_ref_initial_order(191) == 0xdf && pma_ref_initial_order(192) == 0x80 && pma_ref_initial_order(223) == 0x9f
	    && pma_ref_initial_order(224) == 0xe0 && pma_ref_initial_order(255) == 0xff, "initial order run boundaries");
	printf("structure: initial history order is a permutation of the five runs\n");
}

/* ------------------------------------------------------------------ 2. reference decoders */
static uint8_t mtf[256];
static void mtf_init(void) { unsigned i; for (i = 0; i < 256; ++i) mtf[i] = (uint8_t) pma_ref_initial_order(i); }
static void mtf_touch(uint8_t b)
{
	unsigned k = 0, r;
	uint8_t n[256];
	while (mtf[k] != b) ++k;
	for (r = 0; r < 256; ++r) n[r] = mtf[pma_ref_mtf_source_rank(r, k)];
	memcpy(mtf, n, 256);
}
static uint8_t *g_out;
static size_t g_outlen, g_outcap;
static void emit(uint8_t b) { if (g_outlen < g_outcap) g_out[g_outlen] = b; ++g_outlen; mtf_touch(b); }
/* byte "back" positions before the end of the output; before the start of the output the window holds init_fill */
static uint8_t hist(size_t back, uint8_t init_fill) { return back <= g_outlen ? g_out[g_outlen - back] : init_fill; }

/* canonical prefix code: codes assigned in order of (length, symbol), shorter codes first, counting upwards */
typedef struct { unsigned n; unsigned char len[32]; int single; unsigned single_sym; } Canon;
static int canon_read(const Canon *c, unsigned *cur)
{
	unsigned code = 0, first = 0, l, s, count;
	if (c->single) return (int) c->single_sym;
	for (l = 1; l <= 16; ++l) {
		code = (code << 1) | PMA_BITS(*cur, 1); ++*cur;
		count = 0;
		for (s = 0; s < c->n; ++s) if (c->len[s] == l) ++count;
		if (code - first < count) {
			unsigned idx = code - first;
			for (s = 0; s < c->n; ++s) if (c->len[s] == l && idx-- == 0) return (int) s;
		}
		first = (first + count) << 1;
	}
	return -1;
}

static unsigned long cov_pm2_rank[8], cov_pm2_copy[21], cov_pm2_offcls[8], cov_pm2_point[6], cov_pm2_flag[2][2], cov_pm2_single_code, cov_pm2_single_off, cov_pm2_nooff;
static unsigned long cov_pm1_tree[32], cov_pm1_leaf[32][6], cov_pm1_block[5], cov_pm1_copylen[7], cov_pm1_class[4][6], cov_pm1_narrow[10], cov_pm1_zero_fill;

static void pm2_read_tables(int point, unsigned *cur, Canon *code, Canon *off, int *need)
{
	Pm2RefCodeTable ct;
	Pm2RefOffsetTable ot;
	int read_code = 0, read_off = 0;
	unsigned i;
	++cov_pm2_point[point];
	switch (point) {
	case PM2_REF_START: *cur += 1; read_code = 1; read_off = 1; break;
	case PM2_REF_1K: case PM2_REF_2K: read_off = 1; break;
	case PM2_REF_4K: read_code = (int) PMA_BITS(*cur, 1); *cur += 1; read_off = 1; ++cov_pm2_flag[0][read_code]; break;
	case PM2_REF_EVERY4K: read_code = (int) PMA_BITS(*cur, 1); *cur += 1; read_off = read_code; ++cov_pm2_flag[1][read_code]; break;
	}
	if (read_code) {
		pm2_ref_code_table(cur, &ct);
		*need = ct.need_offsets;
		code->single = (int) ct.single; code->single_sym = ct.n - 1; code->n = ct.n;
		if (ct.single) ++cov_pm2_single_code;
		for (i = 0; i < ct.n; ++i) code->len[i] = ct.len[i];
	}
	if (read_off && *need) {
		pm2_ref_offset_table(cur, pm2_ref_offset_classes(point), &ot);
		off->single = ot.used == 1; off->single_sym = ot.single_class; off->n = ot.k;
		if (off->single) ++cov_pm2_single_off;
		for (i = 0; i < ot.k; ++i) off->len[i] = ot.len[i];
	} else if (read_off) ++cov_pm2_nooff;
}
static void out_pm2(uint8_t b, unsigned *cur, Canon *code, Canon *off, int *need)
{
	int p;
	emit(b);
	p = pm2_ref_schedule(g_outlen);
	if (p != PM2_REF_NONE) pm2_read_tables(p, cur, code, off, need);
}
/* decode until `want` bytes are out or the payload is exhausted; returns 0 on a malformed stream */
static int ref_pm2(size_t want)
{
	Canon code, off;
	int need = 0;
	unsigned cur = 0;
	memset(&code, 0, sizeof(code)); memset(&off, 0, sizeof(off));
	mtf_init();
	g_outlen = 0;
	pm2_read_tables(PM2_REF_START, &cur, &code, &off, &need);
	while (g_outlen < want) {
		int sym;
		sym = canon_read(&code, &cur);
		if (sym < 0) return 0;
		if (sym < 8) {
			unsigned rank = pm2_ref_rank((unsigned) sym, &cur);
			if (cur > 8 * g_nbytes) break;
			++cov_pm2_rank[sym];
			out_pm2(mtf[rank], &cur, &code, &off, &need);
		} else {
			unsigned c = (unsigned) sym - 8, len, t = 0, o, i;
			len = pm2_ref_length(c, &cur);
			if (len == 0) return 0;
			if (pm2_ref_uses_offset_tree(c)) { int tt = canon_read(&off, &cur); if (tt < 0) return 0; t = (unsigned) tt; ++cov_pm2_offcls[t]; }
			o = pm2_ref_offset(c, t, &cur);
			if (cur > 8 * g_nbytes) break;
			++cov_pm2_copy[c];
			for (i = 0; i < len; ++i) out_pm2(hist((size_t) o + 1, ' '), &cur, &code, &off, &need);
		}
	}
	return 1;
}
static int ref_pm1(size_t want)
{
	unsigned cur = 0, header;
	mtf_init();
	g_outlen = 0; g_overrun = 0;
	header = PMA_BITS(cur, 5); cur += 5;
	++cov_pm1_tree[header];
	while (g_outlen < want) {
		unsigned is_block = PMA_BITS(cur, 1), i;
		int then_copy = 1;
		cur += 1;
		if (is_block) {
			unsigned before = cur, n = pma_ref_rows(pm1_ref_block_len, 5, &cur);
			{ unsigned c0 = before, r; for (r = 0; r < 5; ++r) { unsigned cc = c0; const PmaRefRow *row = &pm1_ref_block_len[r];
			  if (PMA_BITS(cc, row->plen) == row->prefix && PMA_BITS(cc + row->plen, row->xbits) < row->count) ++cov_pm1_block[r]; } }
			for (i = 0; i < n; ++i) {
				unsigned c0 = cur, rank = pm1_ref_rank(header, &cur), l;
				for (l = 0; l < pm1_ref_tree_nleaves[header]; ++l)
					if (PMA_BITS(c0, pm1_ref_leaf_len[6 * header + l]) == pm1_ref_leaf_code[6 * header + l]) ++cov_pm1_leaf[header][l];
				emit(mtf[rank]);
			}
			then_copy = n != 216;                 /* a maximal block is not necessarily followed by a copy */
		}
		if (then_copy) {
			unsigned pos = (unsigned) (g_outlen > 0x7fffffff ? 0x7fffffff : g_outlen);
			unsigned cls = pm1_ref_copy_type(pos, &cur), len = 2, dist, c0, r;
			++cov_pm1_class[pos < 64 ? 0 : pos < 576 ? 1 : pos < 2624 ? 2 : 3][cls];
			if (cls >= 2) {
				c0 = cur;
				len = pma_ref_rows(pm1_ref_copy_len, 7, &cur);
				for (r = 0; r < 7; ++r) { const PmaRefRow *row = &pm1_ref_copy_len[r];
				  if (PMA_BITS(c0, row->plen) == row->prefix && PMA_BITS(c0 + row->plen, row->xbits) < row->count) ++cov_pm1_copylen[r]; }
			}
			{ unsigned hit = 9; for (r = 0; r < 9; ++r) if (pm1_ref_narrow[r].cls == cls && pos < pm1_ref_narrow[r].below_pos) { hit = r; break; }
			  if (cls >= 3) ++cov_pm1_narrow[hit]; }
			dist = pm1_ref_distance(cls, pos, &cur);
			if (dist >= g_outlen) return 0;          /* reaches before the start of the output: not a valid stream */
			for (i = 0; i < len; ++i) emit(hist((size_t) dist + 1, 0));
		}
	}
	if (cur > 8 * g_nbytes) ++cov_pm1_zero_fill;
	return 1;
}

/* ------------------------------------------------------------------ real library on the same payload */
typedef struct { const uint8_t *p; size_t len, pos; } Src;
static size_t src_read(void *buf, size_t buf_len, void *user)
{
	Src *s = user;
	size_t n = s->len - s->pos;
	if (n > buf_len) n = buf_len;
	memcpy(buf, s->p + s->pos, n);
	s->pos += n;
	return n;
}
static size_t real_decode(char *method, const uint8_t *payload, size_t plen, size_t want, uint8_t *out)
{
	Src s = { payload, plen, 0 };
	LHADecoderType *t = lha_decoder_for_name(method);
	LHADecoder *d;
	size_t total = 0, n;
	if (t == NULL) return 0;
	d = lha_decoder_new(t, src_read, &s, want);
	if (d == NULL) return 0;
	while (total < want && (n = lha_decoder_read(d, out + total, want - total)) > 0) total += n;
	lha_decoder_free(d);
	return total;
}
static unsigned crc16_arc(const uint8_t *p, size_t n)
{
	unsigned crc = 0, i;
	while (n--) { crc ^= *p++; for (i = 0; i < 8; ++i) crc = (crc & 1) ? (crc >> 1) ^ 0xa001 : crc >> 1; }
	return crc & 0xffff;
}
static unsigned members;
static void check_payload(const char *what, char *method, const uint8_t *payload, size_t plen, size_t want, int have_crc, unsigned crc)
{
	uint8_t *real = malloc(want + 1), *ref = malloc(want + 600);
	size_t got, i;
	int ok;
	got = real_decode(method, payload, plen, want, real);
	g_bits = payload; g_nbytes = plen; g_out = ref; g_outcap = want + 600;
	ok = method[3] == '1' ? ref_pm1(got) : ref_pm2(got);
	if (g_outlen > got) g_outlen = got;      /* the last command may run past the declared length; the library truncates */
	EXPECT(ok, "%s: reference decoder rejects the stream", what);
	EXPECT(have_crc ? got == want : got > 0, "%s: real library produced %lu of %lu bytes", what, (unsigned long) got, (unsigned long) want);
	for (i = 0; i < got && i < g_outlen; ++i) if (real[i] != ref[i]) break;
	EXPECT(i == got, "%s: reference and real output differ at byte %lu (of %lu)", what, (unsigned long) i, (unsigned long) got);
	if (have_crc) EXPECT(crc16_arc(ref, got) == crc, "%s: CRC of reference output %04x, header says %04x", what, crc16_arc(ref, got), crc);
	printf("corpus: %-44s %s %7lu -> %8lu bytes  reference == library%s\n", what, method, (unsigned long) plen, (unsigned long) got, have_crc ? " == header CRC" : "");
	++members;
	free(real); free(ref);
}
static uint8_t *slurp(const char *path, size_t *len)
{
	FILE *f = fopen(path, "rb");
	uint8_t *b;
	if (!f) { printf("FAIL: cannot open %s\n", path); ++failures; *len = 0; return NULL; }
	fseek(f, 0, SEEK_END); *len = (size_t) ftell(f); fseek(f, 0, SEEK_SET);
	b = malloc(*len + 1);
	if (fread(b, 1, *len, f) != *len) { ++failures; }
	fclose(f);
	return b;
}
static unsigned le32(const uint8_t *p) { return p[0] | (p[1] << 8) | (p[2] << 16) | ((unsigned) p[3] << 24); }
static void walk_archive(const char *root, const char *rel)
{
	char path[1024], what[1200];
	size_t len, p = 0;
	uint8_t *b;
	unsigned n = 0;
	snprintf(path, sizeof(path), "%s/%s", root, rel);
	b = slurp(path, &len);
	if (!b) return;
	/* skip a self-extractor prefix: first level-0 header whose method field is -pm?- */
	while (p + 24 < len && !(b[p + 2] == '-' && b[p + 3] == 'p' && b[p + 4] == 'm' && b[p + 6] == '-' && b[p + 20] == 0)) ++p;
	while (p + 24 < len && b[p] != 0) {
		unsigned hl = b[p], csize = le32(b + p + 7), osize = le32(b + p + 11), level = b[p + 20], nl = b[p + 21], crc;
		char method[6];
		unsigned sum = 0, i;
		memcpy(method, b + p + 2, 5); method[5] = 0;
		if (level != 0 || method[0] != '-' || p + 2 + hl + csize > len) { printf("FAIL: %s: member %u is not a level-0 header\n", rel, n); ++failures; break; }
		for (i = 0; i < hl; ++i) sum += b[p + 2 + i];
		EXPECT((sum & 255) == b[p + 1], "%s: header checksum", rel);
		crc = b[p + 22 + nl] | (b[p + 23 + nl] << 8);
		if (!strcmp(method, "-pm1-") || !strcmp(method, "-pm2-")) {
			snprintf(what, sizeof(what), "%s[%u] %.*s", rel, n, (int) nl, (const char *) b + p + 22);
			check_payload(what, method, b + p + 2 + hl, csize, osize, 1, crc);
		}
		p += 2 + hl + csize;
		++n;
	}
	free(b);
}
static void pr(const char *name, const unsigned long *v, unsigned n)
{
	unsigned i, used = 0;
	printf("coverage: %-34s", name);
	for (i = 0; i < n; ++i) { printf(" %lu", v[i]); used += v[i] != 0; }
	printf("   (%u of %u used)\n", used, n);
}
int main(int argc, char **argv)
{
	const char *root = argc > 1 ? argv[1] : "/repo/test";
	static const char *archives[] = { "archives/pmarc124/pm1.pma", "archives/pmarc124/pm1_long.pma", "archives/pmarc124/mtcd.pma",
		"archives/generated/pm1/pm1.pma", "archives/pmarc2/pm2.pma", "archives/pmarc2/long.pma", "archives/pmarc2/comment.pma", "archives/pmarc2/sfx.com" };
	unsigned i, k;
	check_structure();
	for (i = 0; i < sizeof(archives) / sizeof(*archives); ++i) walk_archive(root, archives[i]);
	{
		char path[1024];
		size_t len;
		uint8_t *b;
		snprintf(path, sizeof(path), "%s/compressed/pm2.bin", root);
		b = slurp(path, &len);
		if (b) { check_payload("compressed/pm2.bin (raw payload)", "-pm2-", b, len, 1u << 20, 0, 0); free(b); }
	}
	printf("corpus: %u payloads compared\n", members);
	pr("-pm2- byte rank class 0..7", cov_pm2_rank, 8);
	pr("-pm2- copy code 0..20", cov_pm2_copy, 21);
	pr("-pm2- offset class 0..7", cov_pm2_offcls, 8);
	pr("-pm2- schedule point start,1K,2K,4K,+4K", cov_pm2_point + 1, 5);
	printf("coverage: -pm2- flag at 4K: clear %lu set %lu; at 8K+4Kk: clear %lu set %lu; single-code code tables %lu, single-class offset tables %lu, offset table absent %lu\n",
	       cov_pm2_flag[0][0], cov_pm2_flag[0][1], cov_pm2_flag[1][0], cov_pm2_flag[1][1], cov_pm2_single_code, cov_pm2_single_off, cov_pm2_nooff);
	pr("-pm1- start header 0..31", cov_pm1_tree, 32);
	{ unsigned used = 0, tot = 0; for (k = 0; k < 32; ++k) for (i = 0; i < pm1_ref_tree_nleaves[k]; ++i) { ++tot; used += cov_pm1_leaf[k][i] != 0; }
	  printf("coverage: -pm1- start-header code leaves used: %u of %u\n", used, tot); }
	pr("-pm1- block length rows", cov_pm1_block, 5);
	pr("-pm1- copy length rows", cov_pm1_copylen, 7);
	for (k = 0; k < 4; ++k) { char nm[64]; snprintf(nm, sizeof(nm), "-pm1- copy class, epoch %u", k); pr(nm, cov_pm1_class[k], 6); }
	pr("-pm1- narrowed widths (9 rows + full)", cov_pm1_narrow, 10);
	printf("coverage: -pm1- payloads that needed zero bits past their end: %lu\n", cov_pm1_zero_fill);
	printf(failures ? "VALIDATION FAILED (%d)\n" : "VALIDATION OK\n", failures);
	return failures != 0;
}
