/* C04 / H04.pm1.cmd: the -pm1- command decoders (lib/pm1_decoder.c) against the format of pma_ref.h, at an
 * ARBITRARY output position (so every threshold 64/320/576/832/1088/1600/2624/2880/3136/3648/4672/6720 is just a
 * value of a symbolic variable), arbitrary window content / position, arbitrary bit alignment.
 *   harness_fields  read_copy_type_range, read_copy_byte_count, read_byte_block_count, read_byte_decode_index
 *                   (any of the 32 start-header trees) and read_byte, one after the other on one symbolic bit
 *                   string: values and bits consumed equal the reference prefix codes.
 *   harness_copy    read_copy_command: class, length, position-dependent distance width, validity (distance must
 *                   lie inside the output so far), LZ77 expansion over the 16 KiB window with self-overlap and
 *                   wrap-around; copies of up to COPY_MAX bytes (longer lengths: the length decode is
 *                   harness_fields, the copy loop body is the same for every byte).
 *   harness_outb    outputted_byte: window, window position, output position, history.
 *   harness_read    one lha_pm1_read: optional 5-bit start header, command bit, byte block of <= BLOCK_MAX symbolic
 *                   bytes (read_byte by its contract from harness_fields) followed by its copy, or a bare copy.  The copy
 *                   itself is read_copy_command's contract (harness_copy, arbitrary window): the stub records that
 *                   it is entered at the output/window position after the block, at the right bit, with the
 *                   block's bytes already appended (outputted_byte contract, harness_outb), writing behind the block.
 *                   (The monolithic version - real window, real copy - makes CBMC's array theory generate 22 M
 *                   variables even for a 1-byte block and exhausts 12 GB; the split is by contract instead.)
 *   harness_block   read_byte_block for every block length 1..216: exactly that many bytes are read, and a copy
 *                   command follows unless the block has the maximal length 216 (callees stubbed).
 * Stubs: bit reader = BITS_SPEC; find_in_history_list (harness_fields) returns an arbitrary "value at rank" ghost
 * array and records the rank; update_history_list records the bytes in order (both justified by mtf.*);
 * harness_read stubs read_byte, outputted_byte and read_copy_command by their contracts (see above); harness_block stubs
 * read_byte, outputted_byte, read_copy_command. */
#define BITS_SPEC
#ifndef BS_N
#define BS_N 8
#endif
#include <string.h>
#include "lib/pm1_decoder.c"
#include "bits_stub.h"
static unsigned PMA_BITS(unsigned p, unsigned n) { return bs_ref(p, n); }
#include "pma_ref.h"

#ifndef COPY_MAX
#define COPY_MAX 8
#endif
#ifndef BLOCK_MAX
#define BLOCK_MAX 4
#endif

static LHAPM1Decoder dec;

/* ALIGN0: start the cursor at bit 0 instead of an arbitrary alignment.  The code under test sees the stream only
 * through read_bits(n)/read_bit(), so its behaviour cannot depend on the alignment; a concrete start makes the
 * first field positions concrete and the query several times cheaper. */
#ifdef ALIGN0
#define ALIGN(skip) ((skip) = 0)
#else
#define ALIGN(skip) ((void) 0)
#endif
static void load_bits(const u8 *data, unsigned skip)
{
	unsigned i;
	for (i = 0; i < BS_N; ++i) bs_data[i] = data[i];
	bs_bits = 8 * BS_N;
	bs_pos = skip;
}

#ifdef FIELDS_HARNESS
static const u8 *ghost_ord;                       /* value at each rank */
static unsigned find_calls, find_rank;
static uint8_t find_in_history_list(HistoryLinkedList *list, uint8_t count)
{
	(void) list;
	++find_calls;
	find_rank = count;
	return ghost_ord[count];
}
#endif
#ifdef READ_HARNESS
/* contract of read_byte as established by harness_fields for every start header: consumes exactly the bits of one
 * coded rank under the stream's start header (rb_header: ghost, set by the harness; the stub checks the decoder
 * agrees) and returns the history entry at that rank - here an arbitrary byte per call, the rank is recorded */
static const u8 *rb_vals;
static unsigned rb_calls, rb_rank[BLOCK_MAX], rb_start[BLOCK_MAX], rb_end[BLOCK_MAX], rb_header_ok = 1, rb_header;
static int read_byte(LHAPM1Decoder *decoder)
{
	unsigned k = rb_calls++;
	if (decoder->byte_decode_tree != byte_decode_trees[rb_header]) rb_header_ok = 0;
	if (k < BLOCK_MAX) {
		rb_start[k] = bs_pos;
		rb_rank[k] = pm1_ref_rank(rb_header, &bs_pos);       /* the reference decode, at the place the code asks for a byte */
		rb_end[k] = bs_pos;
	}
	return rb_vals[k < BLOCK_MAX ? k : 0];
}
/* contract of outputted_byte (harness_outb): byte appended to the window, the history and the output count */
static u8 ob_log[BLOCK_MAX];
static unsigned ob_calls;
static void outputted_byte(LHAPM1Decoder *decoder, uint8_t b)
{
	if (ob_calls < BLOCK_MAX) ob_log[ob_calls] = b;
	++ob_calls;
	decoder->ringbuf_pos = (decoder->ringbuf_pos + 1) % RING_BUFFER_SIZE;
	++decoder->output_stream_pos;
}
/* contract of read_copy_command (harness_copy): decodes one copy at the decoder's current output position, appends it
 * behind buf; here it only records the state it is entered with and reports a harness-chosen length */
static unsigned cc_calls, cc_opos, cc_rpos, cc_bitpos, cc_ret, cc_ob_calls;
static uint8_t *cc_buf;
static size_t read_copy_command(LHAPM1Decoder *decoder, uint8_t *buf)
{
	++cc_calls;
	cc_opos = decoder->output_stream_pos; cc_rpos = decoder->ringbuf_pos; cc_bitpos = bs_pos; cc_buf = buf; cc_ob_calls = ob_calls;
	return cc_ret;
}
#endif
#if defined(COPY_HARNESS) || defined(OUTB_HARNESS)
#define UPD_MAX 16
static u8 upd_log[UPD_MAX];
static unsigned upd_n;
static void update_history_list(HistoryLinkedList *list, uint8_t b)
{
	(void) list;
	if (upd_n < UPD_MAX) upd_log[upd_n] = b;
	++upd_n;
}
#endif

#ifdef FIELDS_HARNESS
void harness_fields(void)
{
	INPUT_ARRAY(u8, data, BS_N);
	INPUT_ARRAY(u8, ord, 256);
	INPUT(u32, skip); INPUT(u32, opos); INPUT(u32, row);
	LHAPM1Decoder d0;
	unsigned cur, want;
	int got;
	ASSUME(skip < 8 && opos < 0x7fff0000u && row < 32);
	ALIGN(skip);
	load_bits(data, skip);
	dec = d0;
	dec.output_stream_pos = opos;
	dec.byte_decode_tree = byte_decode_trees[row];
	ghost_ord = ord;
	cur = skip;

	got = read_copy_type_range(&dec);
	want = pm1_ref_copy_type(opos, &cur);
	CHECK(got == (int) want && bs_pos == cur, "C04: copy class code for the epoch of the current output position (classes 1,3 from 64, 4 from 576, 5 from 2624 bytes)");
	if (opos == 63 && want == 2) WITNESS("last position of the first epoch");
	if (opos == 2624 && want == 5) WITNESS("class 5 at its first position");

	got = read_copy_byte_count(&dec);
	want = pma_ref_rows(pm1_ref_copy_len, 7, &cur);
	CHECK(got == (int) want && bs_pos == cur, "C04: copy length code 3..244");
	if (want == 244) WITNESS("longest copy");

	got = read_byte_block_count(&dec.bit_stream_reader);
	want = pma_ref_rows(pm1_ref_block_len, 5, &cur);
	CHECK(got == (int) want && bs_pos == cur, "C04: byte block length code 1..216");
	if (want == 216) WITNESS("longest block");

	got = read_byte_decode_index(&dec);
	want = pm1_ref_class(row, &cur);
	CHECK(got == (int) want && bs_pos == cur, "C04: rank class under each of the 32 start-header prefix codes");
	if (row == 17) WITNESS("start header 17");
	if (row == 31) WITNESS("start header 31 (no code)");

	got = read_byte(&dec);
	want = pm1_ref_rank(row, &cur);
	CHECK(find_calls == 1 && find_rank == want && bs_pos == cur, "C04: byte = history rank: class base + extra bits (4,4,5,6,6,6)");
	CHECK(got == (int) ord[want], "C04: byte value is the history entry at that rank");
	if (want == 255) WITNESS("rank 255");
	WITNESS("end");
}
#endif

#ifdef COPY_HARNESS
void harness_copy(void)
{
	INPUT_ARRAY(u8, data, BS_N);
	INPUT(u32, skip); INPUT(u32, opos); INPUT(u32, pos0); INPUT(u32, probe); INPUT(u32, idx);
	LHAPM1Decoder d0;
	u8 out[OUTPUT_BUFFER_SIZE];
	unsigned cur, cls, len, dist, d;
	size_t n;
	ASSUME(skip < 8 && opos < 0x7fff0000u && pos0 < RING_BUFFER_SIZE && probe < RING_BUFFER_SIZE && idx < COPY_MAX);
	ALIGN(skip);
	load_bits(data, skip);
	/* reference decode first: the harness only admits copies of at most COPY_MAX bytes */
	cur = skip;
	cls = pm1_ref_copy_type(opos, &cur);
	len = cls < 2 ? 2 : pma_ref_rows(pm1_ref_copy_len, 7, &cur);
	dist = pm1_ref_distance(cls, opos, &cur);
	d = dist + 1;
	ASSUME(len <= COPY_MAX);
	dec = d0;
	dec.output_stream_pos = opos;
	dec.ringbuf_pos = pos0;

	n = read_copy_command(&dec, out);

	if (dist >= opos) {
		CHECK(n == 0 && upd_n == 0 && dec.output_stream_pos == opos && dec.ringbuf_pos == pos0 && dec.ringbuf[probe] == d0.ringbuf[probe],
		      "C04: a copy reaching back before the start of the output is rejected without output");
	} else {
		CHECK(n == len, "C04: copy classes 0,1 copy 2 bytes, classes 2..5 the coded length");
		CHECK(bs_pos == cur, "C04: copy = class, [length], distance of the class' width at this output position");
		if (idx < len) {
			u8 expect = idx >= d ? out[idx - d] : d0.ringbuf[(pos0 + RING_BUFFER_SIZE - d + idx) % RING_BUFFER_SIZE];
			CHECK(out[idx] == expect, "C04: copy output is the LZ77 expansion at distance+1 over the 16 KiB window (self-overlap, wrap-around)");
			CHECK(upd_log[idx] == out[idx], "C04: every copied byte is moved to the front of the history, in order");
		}
		CHECK(upd_n == len, "C04: one history update per byte");
		CHECK(dec.ringbuf_pos == (pos0 + len) % RING_BUFFER_SIZE && dec.output_stream_pos == opos + len, "C04: window position and output position advance by the copy length");
		{
			unsigned e = (probe + RING_BUFFER_SIZE - pos0) % RING_BUFFER_SIZE;
			CHECK(dec.ringbuf[probe] == (e < len ? out[e] : d0.ringbuf[probe]), "C04: window after a copy = old window with the output appended");
		}
		if (cls == 5 && opos == 6719 && dist == 2624 + 4094) WITNESS("class 5 with 12 distance bits at the last position before 13, farthest valid distance");
		if (cls == 5 && opos == 6720 && dist == 2624 + 4095) WITNESS("class 5 with 13 distance bits at the first such position");
		if (cls == 4 && opos == 831 && dist == 576 + 254) WITNESS("class 4 with 8 distance bits");
		if (cls == 3 && opos == 320 && dist == 64 + 255) WITNESS("class 3 with 9 bits, farthest valid distance");
		if (len == COPY_MAX && d == 1) WITNESS("run (distance 1)");
		if (cls == 1 && pos0 == 1 && dist == 100) WITNESS("two-byte copy across the window seam");
	}
	if (dist >= opos) WITNESS("invalid distance");
	WITNESS("end");
}
#endif

#ifdef OUTB_HARNESS
void harness_outb(void)
{
	INPUT(u32, opos); INPUT(u32, pos0); INPUT(u32, probe); INPUT(u8, b);
	LHAPM1Decoder d0;
	ASSUME(opos < 0x7fff0000u && pos0 < RING_BUFFER_SIZE && probe < RING_BUFFER_SIZE);
	dec = d0;
	dec.output_stream_pos = opos;
	dec.ringbuf_pos = pos0;
	outputted_byte(&dec, b);
	CHECK(dec.ringbuf[probe] == (probe == pos0 ? b : d0.ringbuf[probe]), "C04: an output byte is appended to the 16 KiB window");
	CHECK(dec.ringbuf_pos == (pos0 + 1) % RING_BUFFER_SIZE && dec.output_stream_pos == opos + 1, "C04: window position (mod 16 KiB) and output position advance by one");
	CHECK(upd_n == 1 && upd_log[0] == b, "C04: the byte is moved to the front of the history");
	if (pos0 == RING_BUFFER_SIZE - 1) WITNESS("window seam");
	WITNESS("end");
}
#endif

#ifdef READ_HARNESS
void harness_read(void)
{
	INPUT_ARRAY(u8, data, BS_N);
	INPUT_ARRAY(u8, vals, BLOCK_MAX);
	INPUT(u32, skip); INPUT(u32, opos); INPUT(u32, pos0); INPUT(u32, row); INPUT(u32, cret);
	LHAPM1Decoder d0;
	u8 out[OUTPUT_BUFFER_SIZE];
	unsigned cur, header, is_block, blen = 0, i;
	size_t n;
	ASSUME(skip < 8 && opos < 0x7fff0000u && pos0 < RING_BUFFER_SIZE && row <= 32 && cret <= MAX_COPY_BLOCK_LEN);
	ALIGN(skip);
	load_bits(data, skip);
	rb_vals = vals;
	cc_ret = cret;
	/* reference decode of the command up to the copy */
	cur = skip;
	if (row == 32) { header = PMA_BITS(cur, 5); cur += 5; }   /* start of stream: the 5-bit header selects the byte code */
	else header = row;
	rb_header = header;
	is_block = PMA_BITS(cur, 1); cur += 1;
	if (is_block) {
		blen = pma_ref_rows(pm1_ref_block_len, 5, &cur);
		ASSUME(blen <= BLOCK_MAX);
	}
	dec = d0;
	dec.output_stream_pos = opos;
	dec.ringbuf_pos = pos0;
	dec.byte_decode_tree = row == 32 ? NULL : byte_decode_trees[row];

	n = lha_pm1_read(&dec, out);

	CHECK(dec.byte_decode_tree == byte_decode_trees[header], "C04: the 5-bit stream header selects the byte code for the whole stream");
	CHECK(rb_calls == blen && ob_calls == blen && rb_header_ok, "C04: a block of the coded length: one coded byte (under the stream's start header) and one output per position");
	/* the coded ranks follow the block length back to back (the stub decodes each with the reference where the
	 * code asks for it), and the copy starts right after the last one */
	for (i = 0; i < BLOCK_MAX; ++i) if (i < blen) {
		CHECK(rb_start[i] == cur, "C04: i-th byte of a block is the i-th coded rank after the block length");
		cur = rb_end[i];
		CHECK(out[i] == vals[i] && ob_log[i] == vals[i], "C04: i-th byte of a block is the byte decoded for it, delivered and appended in order");
	}
	/* every command ends with a copy (a block of <= BLOCK_MAX bytes is never the maximal one) */
	CHECK(cc_calls == 1 && cc_bitpos == cur, "C04: command = [5-bit header at the start] + command bit + [block length + bytes] + copy");
	CHECK(cc_ob_calls == blen && cc_opos == opos + blen && cc_rpos == (pos0 + blen) % RING_BUFFER_SIZE,
	      "C04: the copy is decoded at the output position AFTER the block, with the block already in the window");
	CHECK(cc_buf == out + blen, "C04: the copy is delivered right behind the block");
	CHECK(n == (cret == 0 ? 0 : blen + cret), "C04: one read = [byte block +] copy (nothing if the copy is invalid)");
	if (row == 32 && is_block && blen == 2) WITNESS("first command of a stream: header, block of 2, copy");
	if (is_block && blen == BLOCK_MAX && row == 17) WITNESS("block of BLOCK_MAX under start header 17");
	if (is_block && opos == 62 && blen == 2) WITNESS("block crosses the 64-byte threshold before its copy");
	if (!is_block) WITNESS("bare copy");
	WITNESS("end");
}
#endif

#ifdef BLOCK_HARNESS
static unsigned rb_calls, ob_calls, cc_calls, cc_ret;
static u8 cc_at;
static int read_byte(LHAPM1Decoder *decoder) { (void) decoder; ++rb_calls; return (int) (rb_calls & 0xff); }
static void outputted_byte(LHAPM1Decoder *decoder, uint8_t b) { (void) decoder; (void) b; ++ob_calls; }
static size_t read_copy_command(LHAPM1Decoder *decoder, uint8_t *buf) { (void) decoder; ++cc_calls; cc_at = buf[-1]; return cc_ret; }
void harness_block(void)
{
	INPUT_ARRAY(u8, data, BS_N);
	INPUT(u32, skip); INPUT(u32, cret);
	u8 out[OUTPUT_BUFFER_SIZE];
	unsigned cur, blen;
	size_t n;
	ASSUME(skip < 8 && cret <= MAX_COPY_BLOCK_LEN);
	ALIGN(skip);
	load_bits(data, skip);
	cc_ret = cret;
	cur = skip;
	blen = pma_ref_rows(pm1_ref_block_len, 5, &cur);

	n = read_byte_block(&dec, out);

	CHECK(bs_pos == cur && rb_calls == blen && ob_calls == blen, "C04: a block of the coded length: that many bytes are read and output");
	if (blen == 216) CHECK(cc_calls == 0 && n == 216, "C04: a block of the maximal length 216 is not followed by a copy");
	else {
		CHECK(cc_calls == 1 && cc_at == (u8) blen, "C04: a shorter block is followed by a copy written right behind it");
		CHECK(n == (cret == 0 ? 0 : blen + cret), "C04: block + copy are delivered together (nothing if the copy is invalid)");
	}
	CHECK(OUTPUT_BUFFER_SIZE == 216 + 244 && lha_pm1_decoder.max_read == OUTPUT_BUFFER_SIZE, "C04: output buffer holds the longest block plus the longest copy");
	if (blen == 216) WITNESS("maximal block");
	if (blen == 215 && cret == 244) WITNESS("longest block that is followed by a copy");
	if (blen == 1) WITNESS("shortest block");
	WITNESS("end");
}
#endif
