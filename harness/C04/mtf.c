/* C04 / H04.mtf: the PMarc move-to-front history (lib/pma_common.c) refines a plain ordered list.
 *
 * Abstract state: ord = the sequence of all 256 byte values by recency (rank 0 = most recent).
 * "list consistent with ord":  history_head == ord[0] and for every rank x
 *      history[ord[x]].prev == ord[x+1 mod 256]   (prev = one step further back in time)
 *      history[ord[x]].next == ord[x-1 mod 256].
 *
 *   harness_init    REAL SIZE, concrete: init_history_list gives the fixed PMarc start order, consistently linked.
 *   harness_update  REAL SIZE, inductive step, arbitrary list contents: update_history_list(b) with b at an
 *                   arbitrary rank k leaves, at an arbitrary rank r (= at every rank), exactly the links of
 *                   move-to-front(ord, k).  The update is local, so the pre-state is constrained only where it
 *                   matters: ord is given at the eight ranks k-1, k, k+1, 0, 255, s-1, s, s+1 (s = old rank of
 *                   the value that ends up at rank r), injective there, and the list is consistent with it at
 *                   ranks k, 0 and s; the other ~500 links are arbitrary.  This precondition is WEAKER than full
 *                   consistency with a permutation, so the statement proved is stronger.
 *                   (Why not a ghost array ord[256]: with CBMC 6.11 every symbolic index into a 256-entry array
 *                   is a 256-way multiplexer; minisat/cadical/z3 did not decide the array formulation in 300 s,
 *                   and --arrays-uf-always crashes on arrays of structs.  The eight (rank, value) pairs with the
 *                   explicit "same rank <=> same value" constraint are the Ackermann expansion of that array.)
 *   harness_walk    arbitrary list contents, BOUNDED walks: find_in_history_list(c) from an arbitrary list in
 *                   which the WALK_MAX nodes behind / ahead of the head are ord[1..], ord[255..]: result is
 *                   ord[c] for c <= WALK_MAX (prev direction) and c >= 256 - WALK_MAX (next direction).
 *   harness_find    REAL SIZE, concrete lists: find_in_history_list(c) for ALL 256 c (so both directions at full
 *                   length, 127 steps back, 128 steps forward, and the direction switch at 128) on the list
 *                   reached from init by a series of real update_history_list calls (samples of ranks before), against a plain array
 *                   moved to front by pma_ref_mtf_source_rank.
 * Not decided by the solver: a full-length walk (7..249 steps) over ARBITRARY list contents - each of its steps
 * is the same single link dereference that harness_walk covers from an arbitrary node, and the full-length walks
 * are executed on concrete lists in harness_find. */
#include "verif.h"
#include <stdint.h>
#include <string.h>
#include "lha_decoder.h"
#include "lib/bit_stream_reader.c"
#include "lib/pma_common.c"
static unsigned PMA_BITS(unsigned p, unsigned n) { (void) p; (void) n; return 0; }
#include "pma_ref.h"

#ifndef WALK_MAX
#define WALK_MAX 6
#endif

static HistoryLinkedList list;

void harness_init(void)
{
	unsigned r;
	u8 code;
	init_history_list(&list);
	code = list.history_head;
	for (r = 0; r < 256; ++r) {
		CHECK(code == pma_ref_initial_order(r), "C04: initial history order is 0x20..0x7f, 0x00..0x1f, 0xa0..0xdf, 0x80..0x9f, 0xe0..0xff");
		CHECK(list.history[code].next == pma_ref_initial_order((r + 255) & 255), "C04: initial list: next link is the more recent neighbour");
		code = list.history[code].prev;
	}
	CHECK(code == list.history_head, "C04: initial list is cyclic over all 256 values");
	WITNESS("end");
}

/* ghost: ord at eight ranks */
static unsigned need[8];
static u8 val[8];
static int val_found;
static u8 ord_at(unsigned rank)
{
	unsigned i;
	rank &= 255;
	for (i = 0; i < 8; ++i) if (need[i] == rank) return val[i];
	val_found = 0;
	return 0;
}

void harness_update(void)
{
	INPUT_ARRAY(u8, v, 8);
	INPUT(u8, k);                                  /* rank of the byte that is output next */
	INPUT(u8, r);                                  /* rank at which the result is inspected (arbitrary = all) */
	HistoryLinkedList l0;                          /* arbitrary list (uninitialised = nondet) */
	unsigned s, i, j;
	u8 b, here;
	list = l0;
	s = pma_ref_mtf_source_rank(r, k);
	need[0] = k; need[1] = (k + 1u) & 255; need[2] = (k + 255u) & 255; need[3] = 0; need[4] = 255;
	need[5] = s; need[6] = (s + 1) & 255; need[7] = (s + 255) & 255;
	for (i = 0; i < 8; ++i) val[i] = v[i];
	/* ord restricted to these ranks is a well-defined injective map */
	for (i = 0; i < 8; ++i) for (j = 0; j < i; ++j) ASSUME((need[i] == need[j]) == (val[i] == val[j]));
	val_found = 1;
	/* list consistent with ord at ranks k, 0 (next link: the tail) and s */
	list.history_head = ord_at(0);
	list.history[ord_at(k)].prev = ord_at(k + 1u);
	list.history[ord_at(k)].next = ord_at(k + 255u);
	list.history[ord_at(0)].next = ord_at(255);
	list.history[ord_at(s)].prev = ord_at(s + 1);
	list.history[ord_at(s)].next = ord_at(s + 255);
	b = ord_at(k);

	update_history_list(&list, b);

	here = ord_at(s);                              /* value now at rank r */
	CHECK(list.history_head == b, "C04: the byte just output has rank 0");
	CHECK(list.history[here].prev == ord_at(pma_ref_mtf_source_rank((r + 1u) & 255, k)), "C04: after update the list is the move-to-front order (prev links)");
	CHECK(list.history[here].next == ord_at(pma_ref_mtf_source_rank((r + 255u) & 255, k)), "C04: after update the list is the move-to-front order (next links)");
	CHECK(val_found, "harness: every rank consulted is one of the eight ghost ranks");
	if (k == 0) WITNESS("b already at the front");
	if (k == 255 && r == 255) WITNESS("oldest value moved to the front, checked at the new tail");
	if (k == 1 && r == 1) WITNESS("second value moved, old head inspected");
	if (k == 100 && r == 100) WITNESS("checked at the seam rank");
	WITNESS("end");
}

void harness_walk(void)
{
	INPUT_ARRAY(u8, back, WALK_MAX + 1);           /* back[i] = ord[i] */
	INPUT_ARRAY(u8, fwd, WALK_MAX + 1);            /* fwd[i] = ord[256 - i mod 256] */
	INPUT(u8, c);
	HistoryLinkedList l0;
	unsigned i, j;
	u8 got;
	list = l0;
	ASSUME(c <= WALK_MAX || c >= 256 - WALK_MAX);
	ASSUME(back[0] == fwd[0]);
	/* distinct ranks hold distinct values (ranks 0..WALK_MAX and 256-WALK_MAX..255 are all different) */
	for (i = 0; i <= WALK_MAX; ++i) for (j = 0; j <= WALK_MAX; ++j) {
		if (j < i) { ASSUME(back[i] != back[j]); ASSUME(fwd[i] != fwd[j]); }
		if (i > 0 && j > 0) ASSUME(back[i] != fwd[j]);
	}
	list.history_head = back[0];
	for (i = 0; i < WALK_MAX; ++i) {
		list.history[back[i]].prev = back[i + 1];
		list.history[fwd[i]].next = fwd[i + 1];
	}
	got = find_in_history_list(&list, c);
	if (c <= WALK_MAX) CHECK(got == back[c], "C04: find_in_history_list(c) is the value of rank c (walk along prev)");
	else CHECK(got == fwd[256 - c], "C04: find_in_history_list(c) is the value of rank c (walk along next, 256-c steps)");
	if (c == WALK_MAX) WITNESS("longest bounded backward walk");
	if (c == 256 - WALK_MAX) WITNESS("longest bounded forward walk");
	WITNESS("end");
}

static u8 ref_order[256];
static void check_ranks(unsigned step)
{
	unsigned c;
	for (c = 0; c < 256; c += step) {
		CHECK(find_in_history_list(&list, (u8) c) == ref_order[c], "C04: find_in_history_list(c) is the value of rank c, full-length walks (concrete list)");
	}
	CHECK(find_in_history_list(&list, 127) == ref_order[127] && find_in_history_list(&list, 128) == ref_order[128]
	   && find_in_history_list(&list, 255) == ref_order[255], "C04: find_in_history_list at the direction switch (127 steps back, 128 steps forward) and at the tail");
}
void harness_find(void)
{
	static const u8 outputs[] = { 'e', 'e', 0x00, 0xff, ' ', 0x9f, 'e', 0xa0 };
	unsigned c, n, k;
	u8 tmp[256];
	init_history_list(&list);
	for (c = 0; c < 256; ++c) ref_order[c] = (u8) pma_ref_initial_order(c);
	check_ranks(3);                                /* every third rank on the initial list (mtf.init walks all of it) */
	for (n = 0; n < sizeof(outputs); ++n) {
		update_history_list(&list, outputs[n]);
		for (k = 0; ref_order[k] != outputs[n]; ++k) { }
		for (c = 0; c < 256; ++c) tmp[c] = ref_order[pma_ref_mtf_source_rank(c, k)];
		for (c = 0; c < 256; ++c) ref_order[c] = tmp[c];
		check_ranks(n + 1 == sizeof(outputs) ? 1 : 37);   /* all ranks after the last update, a sample in between */
	}
	WITNESS("end");
}
