/* C04 / H04.mtf: the PMarc move-to-front history (lib/pma_common.c) refines a plain ordered list.
 *
 * Ghost state: ord[256] = the byte value at each rank (rank 0 = most recent), pos[256] = its inverse.
 * "list consistent with ord":  history_head == ord[0] and for every rank r
 *      history[ord[r]].prev == ord[r+1 mod 256]   (prev = one step further back in time)
 *      history[ord[r]].next == ord[r-1 mod 256].
 * All three harnesses run at the REAL size (256 values):
 *   harness_init    init_history_list gives the fixed PMarc start order and a consistent list (concrete).
 *   harness_update  from an ARBITRARY consistent list (arbitrary permutation ord), update_history_list(b) leaves a
 *                   list consistent with move-to-front of b (checked at an arbitrary rank r, i.e. for all ranks).
 *   harness_find    from an arbitrary consistent list, find_in_history_list(c) == ord[c] for every c, which
 *                   exercises both walk directions (c < 128 backwards up to 127 steps, c >= 128 forwards up to 128).
 * Induction: init establishes consistency, update preserves it with ord := mtf(ord, b); so after any output
 * history the list denotes exactly the recency order, and find returns the value at the coded rank. */
#include "verif.h"
#include <stdint.h>
#include <string.h>
#include "lha_decoder.h"
#include "lib/bit_stream_reader.c"
#include "lib/pma_common.c"
static unsigned PMA_BITS(unsigned p, unsigned n) { (void) p; (void) n; return 0; }
#include "pma_ref.h"

static HistoryLinkedList list;

/* consistency of the list with ord at one rank x */
static void assume_consistent_at(const u8 *ord, unsigned x)
{
	x &= 255;
	ASSUME(list.history[ord[x]].prev == ord[(x + 1) & 255]);
	ASSUME(list.history[ord[x]].next == ord[(x + 255) & 255]);
}
/* pos is the inverse of ord at rank x (so the value at rank x occurs at no other rank) */
static void assume_inverse_at(const u8 *ord, const u8 *pos, unsigned x)
{
	x &= 255;
	ASSUME(pos[ord[x]] == x);
}

void harness_init(void)
{
	unsigned r;
	u8 code;
	init_history_list(&list);
	code = list.history_head;
	for (r = 0; r < 256; ++r) {
		CHECK(code == pma_ref_initial_order(r), "C04: initial history order is 0x20..0x7f, 0x00..0x1f, 0xa0..0xdf, 0x80..0x9f, 0xe0..0xff");
		CHECK(list.history[code].next == pma_ref_initial_order((r + 255) & 255), "C04: initial list: next link is the more recent neighbour");
		code = list.history[code].prev;
	}
	CHECK(code == list.history_head, "C04: initial list is cyclic over all 256 values");
	CHECK(find_in_history_list(&list, 0) == 0x20 && find_in_history_list(&list, 96) == 0x00 && find_in_history_list(&list, 255) == 0xff, "C04: lookups in the initial list");
	WITNESS("end");
}

void harness_update(void)
{
	INPUT_ARRAY(u8, ord, 256);
	INPUT_ARRAY(u8, pos, 256);
	INPUT(u8, b);
	INPUT(u8, r);
	HistoryLinkedList l0;                          /* arbitrary list (uninitialised = nondet) */
	unsigned k, s0, here, back, fwd, i;
	unsigned need[8];
	list = l0;
	k = pos[b];                                    /* rank of b before the update */
	ASSUME(ord[k] == b);
	s0 = pma_ref_mtf_source_rank(r, k);            /* old rank of the value that ends up at rank r */
	/* The update is local: it rewrites the links of b, its two neighbours, the head and the tail.  The list is
	 * assumed consistent with the permutation ord only at the ranks involved (k-1, k, k+1, 0, 255) and at the
	 * probed rank - a WEAKER assumption than full consistency, hence a stronger statement; r is arbitrary. */
	need[0] = k; need[1] = k + 1; need[2] = k + 255; need[3] = 0; need[4] = 255; need[5] = s0; need[6] = s0 + 1; need[7] = s0 + 255;
	ASSUME(list.history_head == ord[0]);
	for (i = 0; i < 8; ++i) { assume_consistent_at(ord, need[i]); assume_inverse_at(ord, pos, need[i]); }
	update_history_list(&list, b);
	/* new order = move-to-front of rank k */
	here = ord[s0];
	back = ord[pma_ref_mtf_source_rank((r + 1u) & 255, k)];
	fwd = ord[pma_ref_mtf_source_rank((r + 255u) & 255, k)];
	CHECK(list.history_head == b, "C04: the byte just output has rank 0");
	CHECK(list.history[here].prev == back, "C04: after update the list is the move-to-front order (prev links)");
	CHECK(list.history[here].next == fwd, "C04: after update the list is the move-to-front order (next links)");
	if (k == 0) WITNESS("b already at the front");
	if (k == 255 && r == 255) WITNESS("oldest value moved to the front, checked at the new tail");
	if (k == 100 && r == 100) WITNESS("checked at the seam rank");
	if (k == 1 && r == 0) WITNESS("second value moved, checked at the head");
	WITNESS("end");
}

void harness_find(void)
{
	INPUT_ARRAY(u8, ord, 256);
	INPUT(u8, c);
	HistoryLinkedList l0;
	unsigned x;
	u8 v;
	list = l0;
	/* consistency along the two walks only: ranks 0..127 backwards (prev), ranks 0, 255, ..., 128 forwards (next) */
	ASSUME(list.history_head == ord[0]);
	for (x = 0; x < 128; ++x) ASSUME(list.history[ord[x]].prev == ord[x + 1]);
	for (x = 0; x < 128; ++x) ASSUME(list.history[ord[(256 - x) & 255]].next == ord[255 - x]);
	v = find_in_history_list(&list, c);
	CHECK(v == ord[c], "C04: find_in_history_list(c) is the value of rank c");
	if (c == 127) WITNESS("longest backward walk");
	if (c == 128) WITNESS("longest forward walk");
	if (c == 0) WITNESS("rank 0");
	WITNESS("end");
}
