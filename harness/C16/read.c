/* C16 / C08: lha_input_stream_read once the scan is over (state READING or FAIL), from an arbitrary lead-in
 * buffer: the caller receives first the buffered bytes, then the source's bytes, in order, nothing lost or
 * duplicated; success exactly when the whole request was filled; after a failed scan nothing is delivered.
 * Together with scan.iter (buffer starts at the header) this gives: the bytes delivered are the archive's bytes
 * from its first header on, for every stream kind that honours the read contract. */
#include "verif.h"
#include <stdlib.h>
#include <string.h>
#include "libc_models.h"
#define memcpy verif_memcpy
#define memmove verif_memmove
#define memcmp verif_memcmp
#include "lib/lha_input_stream.c"

#ifndef BL
#define BL 30
#endif
static u8 newbytes[BL];
static int src_ret;
static unsigned src_calls, src_asked;
static void *src_dest;
static int src_read(void *handle, void *buf, size_t buf_len)
{
	unsigned i;
	(void) handle;
	++src_calls; src_asked = (unsigned) buf_len; src_dest = buf;
	if (src_ret <= 0) return src_ret;
	for (i = 0; i < BL; ++i) if (i < (unsigned) src_ret) ((u8 *) buf)[i] = newbytes[i];
	return src_ret;
}
static const LHAInputStreamType cb_type = { src_read, NULL, NULL };

void harness(void)
{
	INPUT_ARRAY(u8, lead, 24); INPUT_ARRAY(u8, fresh, BL);
	INPUT(u32, len0); INPUT(u32, buf_len); INPUT(i32, ret); INPUT(u8, failed);
	static LHAInputStream st;
	u8 *buf;
	unsigned i, n;
	int r;
#ifdef LEN0                                               /* concrete buffer fill and request size per variant */
	len0 = LEN0; buf_len = BUFLEN; failed = FAILED;
#endif
	ASSUME(len0 <= 24 && buf_len <= BL);
	buf = malloc(buf_len);                              /* object of exactly the requested size */
	ASSUME(buf != NULL);
	for (i = 0; i < 24; ++i) if (i < len0) st.leadin[i] = lead[i];
	for (i = 0; i < BL; ++i) newbytes[i] = fresh[i];
	st.type = &cb_type; st.handle = 0; st.leadin_len = len0;
	st.state = (failed & 1) ? LHA_INPUT_STREAM_FAIL : LHA_INPUT_STREAM_READING;
	n = buf_len < len0 ? buf_len : len0;
	ASSUME(ret >= -1 && ret <= (i32) (buf_len - n));     /* source contract */
	src_ret = ret;

	r = lha_input_stream_read(&st, buf, buf_len);

	if (failed & 1) {
		CHECK(r == 0 && src_calls == 0 && st.leadin_len == len0, "C16: after a failed scan nothing is delivered and the source is left alone");
	} else {
		for (i = 0; i < 24; ++i) if (i < n) CHECK(buf[i] == lead[i], "C16: buffered bytes are delivered first, in order");
		CHECK(st.leadin_len == len0 - n, "buffer shrinks by what was delivered");
		for (i = 0; i < 24; ++i) if (i < len0 - n) CHECK(st.leadin[i] == lead[n + i], "C16: the rest of the buffer moves up, nothing lost");
		if (n == buf_len) {
			CHECK(src_calls == 0 && r != 0, "request served from the buffer alone");
		} else {
			CHECK(src_calls == 1 && src_asked == buf_len - n && src_dest == (void *) (buf + n), "C16: the source is asked once for exactly the missing bytes, placed right after the buffered ones");
			for (i = 0; i < BL; ++i) if (ret > 0 && i < (unsigned) ret) CHECK(buf[n + i] == fresh[i], "C16: source bytes follow the buffered bytes");
			CHECK((r != 0) == (ret > 0 && n + (unsigned) ret == buf_len), "success exactly when the whole request was filled");
		}
		if (n == buf_len && n > 0 && r) WITNESS("request served from the buffer");
		if (n < buf_len && n > 0 && r) WITNESS("buffer plus source");
		if (n + 1 < buf_len && ret > 0 && !r) WITNESS("short read from the source is a failure");
	}
	free(buf);
	WITNESS("end");
}

/* Design invariant behind lha_input_stream_skip (which does not look at the lead-in buffer): by the time any member
 * data can be skipped, the first header has been read, and the smallest header (level 0, empty name: 22 + 2 bytes,
 * see l01.*: "header length >= minimum") is at least as long as the lead-in buffer - so the buffer is empty then,
 * whatever the scan left in it.  Checked on the real code: from an arbitrary full buffer, reading the 22 common
 * header bytes and then the 2 remaining bytes of the smallest header leaves nothing buffered. */
void harness_leadin_drained(void)
{
	INPUT_ARRAY(u8, lead, sizeof(((LHAInputStream *) 0)->leadin));
	INPUT(u32, len0);
	static LHAInputStream st;
	u8 b22[22], b2[2];
	unsigned i;
	ASSUME(len0 <= sizeof(st.leadin));
	for (i = 0; i < sizeof(st.leadin); ++i) st.leadin[i] = lead[i];
	st.type = &cb_type; st.handle = 0; st.leadin_len = len0; st.state = LHA_INPUT_STREAM_READING;
	src_ret = 0;
	(void) lha_input_stream_read(&st, b22, 22);
	src_ret = 0;
	(void) lha_input_stream_read(&st, b2, 2);
	CHECK(st.leadin_len == 0, "C15/C16: after the smallest possible header (24 bytes) has been read the lead-in buffer is empty, so skipping member data cannot replay stale bytes");
	if (len0 == sizeof(st.leadin)) WITNESS("buffer was full");
	WITNESS("end");
}
