/* C16 ('-' means standard input), C07 (exit status), C20 (handles released), C06 (command letters): the real
 * src/main.c main() / do_command() / parse_command_line() with the command functions, reader and stream
 * constructors replaced by recording stubs, for an arbitrary command word (<= 3 bytes) and archive name. */
#include "verif.h"
#include <stdio.h>
#include <stdlib.h>
#include <string.h>
#include <errno.h>
#define main lha_main
#define exit verif_exit
static int exited;
static void verif_exit(int c) { (void) c; exited = 1; ASSUME(0); }
#define fopen verif_fopen
#define fclose verif_fclose
static FILE *verif_fopen(const char *n, const char *m);
static int verif_fclose(FILE *f);
#include "src/main.c"
#undef main

static const char *fopen_name, *fopen_mode;
static unsigned fopen_calls, fclose_calls, from_file_calls, reader_new_calls, reader_free_calls, stream_free_calls;
static FILE *fopen_result, *stream_handle, *closed_handle;
static char token_file;
static FILE *verif_fopen(const char *n, const char *m) { ++fopen_calls; fopen_name = n; fopen_mode = m; return fopen_result; }
static int verif_fclose(FILE *f) { ++fclose_calls; closed_handle = f; return 0; }
static struct _LHAInputStream { int d; } the_stream;
static struct _LHAReader { int d; } the_reader;
LHAInputStream *lha_input_stream_from_FILE(FILE *f) { ++from_file_calls; stream_handle = f; return (LHAInputStream *) &the_stream; }
LHAReader *lha_reader_new(LHAInputStream *s) { ++reader_new_calls; (void) s; return (LHAReader *) &the_reader; }
void lha_reader_free(LHAReader *r) { (void) r; ++reader_free_calls; }
void lha_input_stream_free(LHAInputStream *s) { (void) s; ++stream_free_calls; }
void lha_filter_init(LHAFilter *f, LHAReader *r, char **filters, unsigned int n) { f->reader = r; f->filters = filters; f->num_filters = n; }
static unsigned called[5];
static u8 cmd_result;
static LHAOptions seen;
void list_file_basic(LHAFilter *f, LHAOptions *o, FILE *fs) { (void) f; (void) fs; seen = *o; ++called[0]; }
void list_file_verbose(LHAFilter *f, LHAOptions *o, FILE *fs) { (void) f; (void) fs; seen = *o; ++called[1]; }
int test_file_crc(LHAFilter *f, LHAOptions *o) { (void) f; seen = *o; ++called[2]; return cmd_result & 1; }
int extract_archive(LHAFilter *f, LHAOptions *o) { (void) f; seen = *o; ++called[3]; return cmd_result & 1; }
int print_archive(LHAFilter *f, LHAOptions *o) { (void) f; seen = *o; ++called[4]; return cmd_result & 1; }
int verif_printf_noop(const char *f, ...) { (void) f; return 0; }

void harness(void)
{
	INPUT_ARRAY(u8, cmd, 4); INPUT_ARRAY(u8, arc, 3);
	INPUT(u8, res); INPUT(u8, open_ok); INPUT(u8, argc_sel);
	static char s_prog[] = "lha", s_cmd[4], s_arc[3];
	char *argv[4];
	int rc, which = -1;
	unsigned i, total = 0;
	char c0;
	ASSUME(cmd[3] == 0 && arc[2] == 0 && arc[0] != 0);
	for (i = 0; i < 4; ++i) s_cmd[i] = (char) cmd[i];
	for (i = 0; i < 3; ++i) s_arc[i] = (char) arc[i];
	cmd_result = res;
	fopen_result = (open_ok & 1) ? (FILE *) &token_file : NULL;
	argv[0] = s_prog; argv[1] = s_cmd; argv[2] = s_arc; argv[3] = NULL;
	ASSUME(argc_sel == 3);
	rc = lha_main(3, argv);
	c0 = s_cmd[0] == '-' ? s_cmd[1] : s_cmd[0];
	for (i = 0; i < 5; ++i) total += called[i];
	if (total == 1) {
		which = called[0] ? 0 : called[1] ? 1 : called[2] ? 2 : called[3] ? 3 : 4;
		CHECK((which == 0) == (c0 == 'l') && (which == 1) == (c0 == 'v') && (which == 2) == (c0 == 't')
		      && (which == 3) == (c0 == 'x' || c0 == 'e') && (which == 4) == (c0 == 'p'), "C06: command letters l, v, t, x/e, p select list, verbose list, test, extract, print");
		if (s_arc[0] == '-' && s_arc[1] == 0) {
			CHECK(fopen_calls == 0 && stream_handle == stdin, "C16: the archive name '-' reads standard input");
		} else {
			CHECK(fopen_calls == 1 && fopen_name == s_arc && fopen_mode[0] == 'r' && fopen_mode[1] == 'b' && stream_handle == (FILE *) &token_file,
			      "C16: any other name is opened as a binary file and handed to the library as a FILE stream");
		}
		CHECK(from_file_calls == 1 && reader_new_calls == 1, "one stream, one reader");
		CHECK(reader_free_calls == 1 && stream_free_calls == 1 && fclose_calls == 1 && closed_handle == stream_handle, "C20: reader, stream and file handle are released exactly once after the command");
		/* the exit status of test / extract is decided on main() together with the REAL command loops (C07 exit.many.*): here
		 * the command functions are stubs, and asserting on their return convention would reject a harmless refactoring */
		if (which < 2) CHECK(rc == 0, "list commands exit 0");
	} else {
		CHECK(total == 0, "at most one command runs");
	}
	if (which == 2) WITNESS("test command ran");
	if (which == 3 && s_arc[0] == '-' && s_arc[1] == 0) WITNESS("extract from standard input");
	WITNESS("end");
}
