/* C16 (also C13, C08): ONE iteration of the self-extractor scan loop of skip_sfx from an ARBITRARY loop state
 * (inductive step; the LHASA_VERIF_SFX_RESUME hook makes the loop's local state settable/observable).
 * State at the loop head: the lead-in buffer holds `len0` (<= 12: invariant, re-established below, 0 initially)
 * arbitrary bytes = the stream bytes from the current scan position, `skip` in {0,1} decoy headers still to be
 * skipped, `filepos` arbitrary.  The source then delivers an arbitrary count (any short read, end of data,
 * error) of arbitrary bytes.  Reference: a plain sequential scan over the window positions, written from the
 * property text: position p starts a header iff bytes p+2..p+6 are a method signature; an SFX marker at p arms
 * the skipping of exactly one following header.
 *   - exactly the positions 0 .. n-1 (n = window bytes - 12) are examined, in order, none twice, none skipped:
 *     the next iteration continues at position n with the same bytes => ALL alignments of header and marker
 *     against the 24-byte window and ALL short-read patterns behave like the sequential scan (C16);
 *   - the first un-skipped header position ends the scan with the lead-in buffer starting exactly there;
 *   - no position is examined once filepos >= 256 KiB (real constant), and every iteration that continues consumed
 *     >= 1 source byte (C13: scan work is linear in the bytes present, <= 256 KiB + 24);
 *   - safety mode: every access stays inside the 24-byte buffer (C08). */
#include "verif.h"
#include <stdlib.h>
#include <string.h>
#include "libc_models.h"
#define memcpy verif_memcpy
#define memmove verif_memmove
#define memcmp verif_memcmp
#include "lib/lha_input_stream.c"

static u8 newbytes[24];
static int src_ret;             /* what the first source call returns */
static unsigned src_calls, src_asked;
static int src_read(void *handle, void *buf, size_t buf_len)
{
	unsigned i;
	(void) handle;
	++src_calls;
	if (src_calls > 1) return 0;                  /* end the loop after the iteration under test */
	src_asked = (unsigned) buf_len;
	if (src_ret <= 0) return src_ret;
	for (i = 0; i < 24; ++i) if (i < (unsigned) src_ret) ((u8 *) buf)[i] = newbytes[i];
	return src_ret;
}
static const LHAInputStreamType cb_type = { src_read, NULL, NULL };

/* property text: a method signature is '-l??-' / '-pm?-'; the formats that exist: -lh?-, -lz4/5/s-, -pm?- except the
 * '-pms-' string of PMarc self-extractors */
static int is_header_at(const u8 *w)
{
	if (w[2] != '-' || w[6] != '-') return 0;
	if (w[3] == 'l' && w[4] == 'h') return 1;
	if (w[3] == 'l' && w[4] == 'z' && (w[5] == '4' || w[5] == '5' || w[5] == 's')) return 1;
	if (w[3] == 'p' && w[4] == 'm' && w[5] != 's') return 1;
	return 0;
}
static int is_marker_at(const u8 *w)
{
	static const u8 m1[7] = { 'L', 'H', 'A', '-', 'S', 'F', 'X' };
	static const u8 m2[12] = { 'L', 'h', 'A', 'S', 'F', 'X', ' ', 'V', '1', '.', '2', ',' };
	unsigned i, a = 1, b = 1;
	for (i = 0; i < 7; ++i) if (w[i] != m1[i]) a = 0;
	for (i = 0; i < 12; ++i) if (w[i] != m2[i]) b = 0;
	return a || b;
}

void harness(void)
{
	INPUT_ARRAY(u8, old, 12); INPUT_ARRAY(u8, fresh, 24);
	INPUT(u32, len0); INPUT(i32, ret); INPUT(u8, skip0); INPUT(u64, fpos0);
	static LHAInputStream st;
	u8 W[36];
	unsigned i, len1, n, s, found = 99;
	int r;
#ifdef LEN0                                               /* cheaper variants: concrete carried-over length and refill count */
	len0 = LEN0; ret = RET;
#endif
	ASSUME(len0 <= 12 && skip0 <= 1);
	ASSUME(ret >= -1 && ret <= (i32) (24 - len0));           /* source contract: at most what was asked */
	for (i = 0; i < 36; ++i) W[i] = 0;
	for (i = 0; i < 12; ++i) if (i < len0) { st.leadin[i] = old[i]; W[i] = old[i]; }
	for (i = 0; i < 24; ++i) { newbytes[i] = fresh[i]; if (ret > 0 && i < (unsigned) ret) W[len0 + i] = fresh[i]; }
	st.type = &cb_type; st.handle = 0; st.state = LHA_INPUT_STREAM_INIT; st.leadin_len = len0;
	src_ret = ret;
	lhasa_verif_sfx_filepos = (size_t) fpos0;
	lhasa_verif_sfx_skip_files = skip0;

	r = skip_sfx(&st);

	if (fpos0 >= 256 * 1024) {
		CHECK(r == 0 && src_calls == 0, "C16/C13: nothing is read or examined once 256 KiB have been scanned");
		CHECK(st.leadin_len == len0, "buffer untouched past the limit");
	} else {
		CHECK(src_calls >= 1 && src_asked == sizeof(st.leadin) - len0, "the refill asks for exactly the free space of the lead-in window");
		if (ret <= 0) {
			CHECK(r == 0 && src_calls == 1, "C13: end of data or an error ends the scan at once");
			CHECK(st.leadin_len == len0, "buffer unchanged when nothing arrived");
		} else {
			len1 = len0 + (unsigned) ret;
			n = len1 > 12 ? len1 - 12 : 0;
			s = skip0;
			for (i = 0; i < 12; ++i) if (i < n && found == 99) {
				if (is_header_at(W + i)) { if (s == 0) found = i; else s = 0; }
				if (found == 99 && is_marker_at(W + i)) s = 1;
			}
			if (found != 99) {
				CHECK(r == 1, "C16: the first header position that is not a skipped decoy ends the scan successfully");
				CHECK(st.leadin_len == len1 - found, "C16: the buffer then starts exactly at that header");
				for (i = 0; i < 24; ++i) if (i < len1 - found) CHECK(st.leadin[i] == W[found + i], "C16: buffered bytes are the stream bytes from the header start on");
				CHECK(src_calls == 1, "no further read after the header was found");
			} else {
				CHECK(r == 0, "no header among the examined positions: no success is reported");
				CHECK(src_calls == (fpos0 + n < 256 * 1024 ? 2u : 1u), "C16/C13: the scan goes on (ended here by the harness' end of data) unless 256 KiB have now been scanned");
				CHECK(lhasa_verif_sfx_filepos == (size_t) fpos0 + n, "C16: exactly the positions 0..n-1 were examined (n = window bytes - 12); the next iteration continues at n");
				CHECK(lhasa_verif_sfx_skip_files == (int) s, "C16: decoy-skip state equals the sequential scan's");
				CHECK(st.leadin_len == len1 - n && st.leadin_len <= 12, "loop invariant: at most 12 bytes carried over");
				for (i = 0; i < 12; ++i) if (i < len1 - n) CHECK(st.leadin[i] == W[n + i], "C16: carried-over bytes are the unexamined tail of the window");
			}
			if (n > 0 && found != 99 && found == n - 1 && skip0 == 0) WITNESS("header at the last examined position of the window");
			if (n > 0 && found == 99 && s == 1 && skip0 == 0) WITNESS("marker seen, decoy skipping armed");
			if (n > 7 && found != 99 && skip0 == 1 && s == 0) WITNESS("decoy skipped and real header found in the same window");
		}
	}
	WITNESS("end");
}
