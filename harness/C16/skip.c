/* C16 / C13: skipping a member's data gives the same archive whether the stream can seek (file), cannot (pipe:
 * read-and-discard fallback) or is a callback stream without a skip function (lha_input_stream_skip's own
 * read loop over file_source_read).  Model FILE = (position, length, seekable); fseek may move past the end
 * (as on real files), fread delivers what is there.  For an arbitrary position, file length and skip distance:
 * after the skip, a following read of k >= 1 bytes succeeds for all three variants or for none, and when it
 * succeeds it delivers the bytes at position + distance.  (A truncated member therefore ends the archive the
 * same way for every stream kind.)  Every variant returns within ceil(distance/32) + 1 source accesses (C13). */
#include "verif.h"
#include <stdio.h>
#include <stdlib.h>
#include <string.h>
#include <errno.h>
#undef errno
static int verif_errno;
#define errno verif_errno

typedef struct { u64 pos, len; int seekable, eof; unsigned accesses; } MFile;
static size_t verif_fread(void *buf, size_t sz, size_t n, FILE *f)
{
	MFile *m = (MFile *) f;
	/* fread(buf, sz, n): up to n ITEMS of sz bytes; whole items are counted, a trailing partial item is consumed too;
	 * sz == 0 or n == 0 reads nothing and returns 0 */
	u64 avail = m->len > m->pos ? m->len - m->pos : 0;
	u64 want = (u64) sz * (u64) n;
	u64 got = want <= avail ? want : avail;
	(void) buf;
	++m->accesses;
	if (got < want) m->eof = 1;
	m->pos += got;
	return sz == 0 ? 0 : (size_t) (got / sz);
}
static long verif_ftell(FILE *f) { MFile *m = (MFile *) f; return m->seekable ? (long) m->pos : -1L; }
static int verif_fseek(FILE *f, long off, int whence)
{
	MFile *m = (MFile *) f;
	(void) whence;
	++m->accesses;
	if (!m->seekable) { verif_errno = ESPIPE; return -1; }
	m->pos += (u64) off;                     /* seeking past the end is allowed, as for real files */
	return 0;
}
static int verif_feof(FILE *f) { return ((MFile *) f)->eof; }
#define fread verif_fread
#define ftell verif_ftell
#define fseek verif_fseek
#define feof verif_feof
#include "lib/lha_input_stream.c"

static const LHAInputStreamType noskip_type = { file_source_read, NULL, NULL };

#ifndef DMAX
#define DMAX 70
#endif
static int read_after(MFile *m, unsigned k, u64 *at)     /* a following read of k bytes: possible? from where? */
{
	*at = m->pos;
	return m->pos <= m->len && m->len - m->pos >= k;
}

void harness(void)
{
	INPUT(u64, pos); INPUT(u64, len); INPUT(u32, dist); INPUT(u8, k);
	MFile a, b, c;
	LHAInputStream sc;
	int ra, rb, rc, oka, okb, okc;
	u64 ata, atb, atc;
	ASSUME(pos <= len && len < ((u64) 1 << 40) && k >= 1 && k <= 4);
#ifndef DFIX
	ASSUME(dist <= DMAX);
#endif
#ifdef DFIX
	dist = DFIX;          /* one concrete distance per variant (the loops fold): larger distances, multiples of likely block sizes */
#endif
	a.pos = b.pos = c.pos = pos; a.len = b.len = c.len = len; a.eof = b.eof = c.eof = 0; a.accesses = b.accesses = c.accesses = 0;
	a.seekable = 1; b.seekable = 0; c.seekable = 0;
	ra = file_source_skip(&a, dist);                       /* regular file */
	rb = file_source_skip(&b, dist);                       /* pipe: falls back to reading */
	sc.type = &noskip_type; sc.handle = &c; sc.state = LHA_INPUT_STREAM_READING; sc.leadin_len = 0;
	rc = lha_input_stream_skip(&sc, dist);                 /* callback stream without skip */
	oka = ra && read_after(&a, k, &ata);
	okb = rb && read_after(&b, k, &atb);
	okc = rc && read_after(&c, k, &atc);
	CHECK(oka == okb && okb == okc, "C16: after skipping, the next read succeeds for every stream kind or for none");
	if (oka) CHECK(ata == pos + dist && atb == ata && atc == ata, "C16: and it continues at position + distance for every stream kind");
	CHECK(rb == (pos + dist <= len) && rc == rb, "C13/C16: the reading variants report failure exactly when the data is not all there");
	CHECK(a.accesses <= 1 && b.accesses <= (dist + 31) / 32 + 2 && c.accesses <= (dist + 31) / 32 + 2, "C13: each variant returns within ceil(distance/32)+2 source accesses");
	if (!rb && dist == DMAX) WITNESS("truncated data: read-based skip fails");
	if (oka && dist == 33) WITNESS("two-piece skip succeeds");
	if (oka && dist == 256) WITNESS("skip of 256 bytes succeeds");
	WITNESS("end");
}

/* seek-based skipping over the full range of a member's packed size (a 32-bit header field): no loop, so the
 * distance can be arbitrary; the position must advance by exactly the distance */
void harness_seek(void)
{
	INPUT(u64, pos); INPUT(u64, len); INPUT(u32, dist);
	MFile a;
	int ra;
	ASSUME(pos <= len && len < ((u64) 1 << 40));
	a.pos = pos; a.len = len; a.eof = 0; a.accesses = 0; a.seekable = 1;
	ra = file_source_skip(&a, dist);
	CHECK(ra && a.pos == pos + dist, "C13/C16: a seekable stream skips any packed size up to 2^32-1 by exactly that many bytes");
	CHECK(a.accesses <= 1, "C13: one seek");
	if (dist >= 0x80000000u) WITNESS("skip of 2 GiB or more");
	WITNESS("end");
}
