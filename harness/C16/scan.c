/* C16: the members start exactly at the first header, whatever self-extractor prefix precedes it.
 * Stream = P (plen <= PMAX symbolic bytes without method signature / SFX marker) ++ A (archive bytes whose
 * bytes 2..6 are a method signature).  Real lha_input_stream_read / skip_sfx with the scan limit scaled
 * by the hook; the source delivers arbitrary short reads. */
#ifndef PMAX
#define PMAX 24
#endif
#define ALEN 26
#define SRC_N (PMAX + ALEN)
#ifndef SRC_CALLS
#define SRC_CALLS 6
#endif
#include "src_model.h"
#include "libc_models.h"
#include "lib/lha_input_stream.c"

static const LHAInputStreamType cb_type = { src_read, NULL, NULL };

/* the property's own wording: a method signature is '-l??-' or '-pm?-' */
static int sig_at(const u8 *p) { return p[0] == '-' && p[4] == '-' && (p[1] == 'l' || (p[1] == 'p' && p[2] == 'm')); }
static int marker_at(const u8 *p, unsigned avail)
{
	static const char m1[] = "LHA-SFX", m2[] = "LhASFX V1.2,";
	unsigned i, ok1 = avail >= 7, ok2 = avail >= 12;
	for (i = 0; i < 7; ++i) if (i < avail && p[i] != (u8) m1[i]) ok1 = 0;
	for (i = 0; i < 12; ++i) if (i < avail && p[i] != (u8) m2[i]) ok2 = 0;
	return ok1 || ok2;
}

void harness(void)
{
	INPUT_ARRAY(u8, stream, SRC_N);
	INPUT_ARRAY(u8, shorts, SRC_CALLS);
	INPUT(u32, plen);
	INPUT(u32, k);
	INPUT(u8, meth);
	LHAInputStream st;
	u8 buf[8], buf2[4];
	unsigned i;
	int r;
	ASSUME(plen <= PMAX && k >= 1 && k <= 8);
	/* archive part: a real method signature at offset 2 of the header */
	ASSUME(stream[plen + 2] == '-' && stream[plen + 6] == '-');
	if (meth & 1) { ASSUME(stream[plen + 3] == 'l' && stream[plen + 4] == 'h'); }
	else if (meth & 2) { ASSUME(stream[plen + 3] == 'l' && stream[plen + 4] == 'z' && (stream[plen + 5] == '4' || stream[plen + 5] == '5' || stream[plen + 5] == 's')); }
	else { ASSUME(stream[plen + 3] == 'p' && stream[plen + 4] == 'm' && (stream[plen + 5] == '0' || stream[plen + 5] == '1' || stream[plen + 5] == '2')); }
	/* prefix: no signature that would put a header start before plen, no marker starting in the prefix */
	for (i = 0; i < PMAX + 2; ++i) {
		if (i < plen + 2) ASSUME(!sig_at(stream + i) || i == plen + 2);
		if (i < plen) ASSUME(!marker_at(stream + i, SRC_N - i));
	}
	for (i = 0; i < SRC_N; ++i) src_data[i] = stream[i];
	for (i = 0; i < SRC_CALLS; ++i) src_short[i] = shorts[i];
	src_len = plen + ALEN;
	st.type = &cb_type; st.handle = 0; st.state = LHA_INPUT_STREAM_INIT; st.leadin_len = 0;

	r = lha_input_stream_read(&st, buf, k);
	CHECK(r != 0, "the first header is found behind the prefix");
	for (i = 0; i < 8; ++i) if (i < k) CHECK(buf[i] == stream[plen + i], "first read delivers the archive bytes from the header start");
	r = lha_input_stream_read(&st, buf2, 4);
	CHECK(r != 0, "second read succeeds");
	for (i = 0; i < 4; ++i) CHECK(buf2[i] == stream[plen + k + i], "second read continues right after the first");
	if (plen == PMAX && shorts[0] == 1 && shorts[1] == 5) WITNESS("longest prefix, short reads");
	if (plen == 0) WITNESS("no prefix");
	WITNESS("end");
}
