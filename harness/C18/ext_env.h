/* Real src/safe.c + src/extract.c on top of the output model.  Environment (all arbitrary): arch layer
 * (lha_arch_exists / lha_arch_mkdir), reader verdicts and progress callbacks, stdin (getchar); heap strings come
 * from a small typed pool (malloc/strdup/free redirected). */
#ifndef EXT_ENV_H
#define EXT_ENV_H
#include "out_model.h"
#include <stdlib.h>
#include <string.h>
#include "ctype_model.h"
#include "C18/sym_header.h"

#ifndef POOL_SZ
#define POOL_SZ 24
#endif
#define POOL_N 3
static char pool[POOL_N][POOL_SZ];
static u8 pool_used[POOL_N];
static unsigned pool_live;
void *verif_malloc(size_t n)
{
	unsigned i;
	CHECK(n <= POOL_SZ, "harness: allocation fits a pool slot");
	for (i = 0; i < POOL_N; ++i) if (!pool_used[i]) { pool_used[i] = 1; ++pool_live; return pool[i]; }
	CHECK(0, "harness: pool slot available");
	return NULL;
}
void verif_free(void *p)
{
	unsigned i;
	if (p == (void *) vas_buf) { vas_live = 0; return; }
	for (i = 0; i < POOL_N; ++i) if (p == (void *) pool[i]) { pool_used[i] = 0; --pool_live; }
}
char *verif_strdup(const char *s)
{
	char *d = verif_malloc(POOL_SZ);
	unsigned i;
	for (i = 0; i < POOL_SZ - 1 && s[i] != '\0'; ++i) d[i] = s[i];
	CHECK(s[i] == '\0', "harness: strdup argument fits a pool slot");
	d[i] = '\0';
	return d;
}

/* stdin: arbitrary characters; lines of at most 2 characters, a decisive answer at the latest in the 3rd line */
SEQ_DECL(i32, key);
static unsigned key_col, key_line;
int verif_getchar(void)
{
	int c = SEQ_NEXT(i32, key);
	if (c < -1 || c > 255) c = -1;
	if (key_col == 0 && key_line >= 2) c = 'n';
	if (key_col >= 1) c = '\n';
	if (c == '\n') { key_col = 0; ++key_line; } else ++key_col;
	return c;
}

#include "out_redirect.h"
#define malloc verif_malloc
#define free verif_free
#define strdup verif_strdup
#define getchar verif_getchar
#include "src/safe.c"
#include "src/extract.c"
#undef malloc
#undef free
#undef strdup
#undef getchar
#include "out_unredirect.h"

/* arch layer */
SEQ_DECL(u8, arch);
LHAFileType lha_arch_exists(char *f) { u8 r = SEQ_NEXT(u8, arch); (void) f; return (r & 3) == 0 ? LHA_FILE_NONE : (r & 3) == 1 ? LHA_FILE_FILE : (r & 3) == 2 ? LHA_FILE_DIRECTORY : LHA_FILE_ERROR; }
int lha_arch_mkdir(char *p, unsigned int m) { u8 r = SEQ_NEXT(u8, arch); (void) p; (void) m; return r & 1; }

/* reader: arbitrary verdict; the progress callback is invoked 0, 1 or 2 times (block 0, then block 1) */
SEQ_DECL(u8, rd);
static unsigned rd_calls;
#ifndef MAX_BLOCKS
#define MAX_BLOCKS 3
#endif
static int rd_run(LHADecoderProgressCallback cb, void *d)
{
	u8 r = SEQ_NEXT(u8, rd), nb = SEQ_NEXT(u8, rd);
	++rd_calls;
	if (nb > MAX_BLOCKS) nb = MAX_BLOCKS;
	if (cb != NULL && (r & 6) != 0) { cb(0, nb, d); if ((r & 6) == 4 && nb >= 1) cb(1, nb, d); }
	return r & 1;
}
int lha_reader_check(LHAReader *r, LHADecoderProgressCallback cb, void *d) { (void) r; return rd_run(cb, d); }
int lha_reader_extract(LHAReader *r, char *f, LHADecoderProgressCallback cb, void *d) { (void) r; (void) f; return rd_run(cb, d); }
int lha_reader_current_is_fake(LHAReader *r) { (void) r; return SEQ_NEXT(u8, rd) & 1; }
size_t lha_reader_read(LHAReader *r, void *b, size_t n) { (void) r; (void) b; (void) n; return 0; }

#ifndef NHDR
#define NHDR 1
#endif
static LHAFileHeader hdrs[NHDR];
static unsigned hdr_count = NHDR, hdr_served;
LHAFileHeader *lha_filter_next_file(LHAFilter *filter) { (void) filter; if (hdr_served >= hdr_count) return NULL; return &hdrs[hdr_served++]; }
#endif
