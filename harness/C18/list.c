/* C18: list output (l, lv, v, vv) prints archive-derived strings only as printable ASCII.
 * Real src/list.c and src/safe.c; header strings are arbitrary bytes 0x01..0xFF (short), all other header
 * fields arbitrary; libc output replaced by the output model which asserts printability of every byte. */
#include "out_model.h"
#include <stdlib.h>
#include <string.h>
#include <time.h>
#define printf verif_printf
#define fprintf verif_fprintf
#define free verif_free_vas
#include "src/safe.c"
#undef free
#define localtime verif_localtime
#define time verif_time
static struct tm the_tm;
struct tm *verif_localtime(const time_t *t) { (void) t; return &the_tm; }
static u32 now_val;
time_t verif_time(time_t *t) { (void) t; return (time_t) now_val; }
#include "src/list.c"

#ifndef SL
#define SL 3
#endif
static LHAFileHeader hdr;
static unsigned served;
LHAFileHeader *lha_filter_next_file(LHAFilter *filter) { (void) filter; return served++ == 0 ? &hdr : NULL; }

void harness(void)
{
	INPUT_ARRAY(u8, path, SL + 1); INPUT_ARRAY(u8, name, SL + 1); INPUT_ARRAY(u8, target, SL + 1);
	INPUT_ARRAY(u8, user, SL + 1); INPUT_ARRAY(u8, group, SL + 1); INPUT_ARRAY(u8, method, 5);
	INPUT(u8, have_path); INPUT(u8, have_name); INPUT(u8, have_target);
	INPUT(u32, flags); INPUT(u32, perms); INPUT(u32, os9); INPUT(u32, uid); INPUT(u32, gid);
	INPUT(u32, clen); INPUT(u32, len); INPUT(u16, crc); INPUT(u32, ts); INPUT(u8, level); INPUT(u8, os);
	INPUT(u8, cmd); INPUT(u8, verbose); INPUT(u8, quiet);
	INPUT(u32, mon); INPUT(u32, mday); INPUT(u32, hour); INPUT(u32, min); INPUT(u32, sec); INPUT(u32, year); INPUT(u32, now);
	static char s_path[SL + 1], s_name[SL + 1], s_target[SL + 1], s_user[SL + 1], s_group[SL + 1];
	LHAFilter filter;
	LHAOptions options;
	unsigned i;
	ASSUME(path[SL] == 0 && name[SL] == 0 && target[SL] == 0 && user[SL] == 0 && group[SL] == 0);
	for (i = 0; i <= SL; ++i) { s_path[i] = (char) path[i]; s_name[i] = (char) name[i]; s_target[i] = (char) target[i]; s_user[i] = (char) user[i]; s_group[i] = (char) group[i]; }
	memset(&hdr, 0, sizeof(hdr));
	hdr.path = (have_path & 1) ? s_path : NULL;
	hdr.filename = (have_name & 1) ? s_name : NULL;
	hdr.symlink_target = (have_target & 1) ? s_target : NULL;
	hdr.unix_username = s_user; hdr.unix_group = s_group;
	for (i = 0; i < 5; ++i) { ASSUME(method[i] != 0); hdr.compress_method[i] = (char) method[i]; }
	hdr.compress_method[5] = 0;
	hdr.extra_flags = flags; hdr.unix_perms = perms; hdr.os9_perms = os9; hdr.unix_uid = uid; hdr.unix_gid = gid;
	hdr.compressed_length = clen; hdr.length = len; hdr.crc = crc; hdr.timestamp = ts; hdr.header_level = level; hdr.os_type = os;
	ASSUME(mon < 12 && mday >= 1 && mday <= 31 && hour < 24 && min < 60 && sec <= 60 && year <= 200);
	the_tm.tm_mon = (int) mon; the_tm.tm_mday = (int) mday; the_tm.tm_hour = (int) hour; the_tm.tm_min = (int) min; the_tm.tm_sec = (int) sec; the_tm.tm_year = (int) year;
	now_val = now;
	filter.reader = NULL; filter.filters = NULL; filter.num_filters = 0;
	options.overwrite_policy = LHA_OVERWRITE_PROMPT; options.quiet = quiet % 3; options.verbose = verbose & 1;
	options.dry_run = 0; options.extract_path = NULL; options.use_path = 1;
	if (cmd & 1) list_file_verbose(&filter, &options, NULL);
	else list_file_basic(&filter, &options, NULL);
	CHECK(out_unprintable == 0, "list output consists of printable ASCII plus the tool's own newlines");
	if ((cmd & 1) && !(verbose & 1) && method[3] == 0x1b) WITNESS("escape byte in the method field, v command");
	if (!(cmd & 1) && (have_target & 1) && target[0] == 0x9b) WITNESS("CSI byte in a link target, l command");
	WITNESS("end");
}
