/* C18: the list commands of src/list.c (list_file_basic / list_file_verbose -> list_file_contents ->
 * print_list_headings / print_list_separators / print_columns / print_footers) for ONE column set per harness
 * (-DCMD: 0 = l, 1 = lv, 2 = v, 3 = vv), on a member whose strings and method field are arbitrary bytes.
 * -DNHDR=2 -DSYM_INDEX=1: the arbitrary member is the SECOND of two (the first is a benign regular file). */
#include "C18/sym_header.h"
#include "C18/list_env.h"

#ifndef CMD
#define CMD 0
#endif
#ifndef SYM_INDEX
#define SYM_INDEX 0
#endif

void harness(void)
{
	SYM_HEADER_INPUTS;
	SYM_TIME_INPUTS;
	INPUT(u8, quiet); INPUT(u32, mtime); INPUT(u8, fstat_fails);
	LHAFilter filter;
	LHAOptions options;
	unsigned i;
	SYM_HEADER_FILL(&hdrs[SYM_INDEX]);
	SYM_TIME_FILL();
#if SYM_INDEX != 0
	{
		static char benign_name[] = "a.txt";
		static const char benign_method[6] = "-lh5-";
		hdrs[0].filename = benign_name;
		for (i = 0; i < 6; ++i) hdrs[0].compress_method[i] = benign_method[i];
		hdrs[0].length = 10; hdrs[0].compressed_length = 8; hdrs[0].timestamp = 1000000000; hdrs[0].os_type = 'U';
	}
#endif
	ASSUME(quiet <= 2);
	sym_mtime = mtime; sym_fstat_fails = fstat_fails & 1;
	filter.reader = NULL; filter.filters = NULL; filter.num_filters = 0;
	options.overwrite_policy = LHA_OVERWRITE_PROMPT; options.quiet = quiet; options.verbose = CMD & 1;
	options.dry_run = 0; options.extract_path = NULL; options.use_path = 1;
	if (CMD & 2) list_file_verbose(&filter, &options, stdin);
	else list_file_basic(&filter, &options, stdin);
	CHECK(out_unprintable == 0, "C18: list output consists of printable ASCII plus the tool's own newlines");
	CHECK(hdr_served == NHDR, "the member(s) were listed");
	CHECK(vas_live == 0, "formatted strings are released");
	if (quiet == 0 && (have_target & 1) && htarget[0] == 0x9b && (have_name & 1) && hname[0] == 0x1b) WITNESS("CSI byte in a link target, ESC in the name, with headings");
	if (quiet == 2 && !(have_name & 1) && (have_path & 1) && hpath[SL - 1] == 0x7f) WITNESS("DEL in a directory path, quiet listing");
	WITNESS("end");
}
