/* C18: the list commands of src/list.c (list_file_basic / list_file_verbose -> list_file_contents ->
 * print_list_headings / print_list_separators / print_columns / print_footers) for ONE column set per harness
 * (-DCMD: 0 = l, 1 = lv, 2 = v, 3 = vv), on one member whose strings are arbitrary bytes.
 * -DMETHOD_PRINTABLE: the 5 method bytes are constrained to 0x20..0x7E (v / vv print them through
 * method_crc_column_print, which is examined with arbitrary bytes by the harness list.method). */
#include "C18/sym_header.h"
#include "C18/list_env.h"

#ifndef CMD
#define CMD 0
#endif

void harness(void)
{
	SYM_HEADER_INPUTS;
	SYM_TIME_INPUTS;
	INPUT(u8, quiet); INPUT(u32, mtime); INPUT(u8, fstat_fails);
	LHAFilter filter;
	LHAOptions options;
	unsigned i;
	SYM_HEADER_FILL(&hdrs[0]);
	SYM_TIME_FILL();
#ifdef METHOD_PRINTABLE
	for (i = 0; i < 5; ++i) ASSUME(hmethod[i] >= 0x20 && hmethod[i] <= 0x7e);
#endif
	ASSUME(quiet <= 2);
	sym_mtime = mtime; sym_fstat_fails = fstat_fails & 1;
	filter.reader = NULL; filter.filters = NULL; filter.num_filters = 0;
	options.overwrite_policy = LHA_OVERWRITE_PROMPT; options.quiet = quiet; options.verbose = CMD & 1;
	options.dry_run = 0; options.extract_path = NULL; options.use_path = 1;
	if (CMD & 2) list_file_verbose(&filter, &options, stdin);
	else list_file_basic(&filter, &options, stdin);
	CHECK(out_unprintable == 0, "C18: list output consists of printable ASCII plus the tool's own newlines");
	CHECK(hdr_served == 1, "the member was listed");
	CHECK(vas_live == 0, "formatted strings are released");
	if (quiet == 0 && (have_target & 1) && htarget[0] == 0x9b && (have_name & 1) && hname[0] == 0x1b) WITNESS("CSI byte in a link target, ESC in the name, with headings");
	if (quiet == 2 && !(have_name & 1) && (have_path & 1) && hpath[SL - 1] == 0x7f) WITNESS("DEL in a directory path, quiet listing");
	WITNESS("end");
}
