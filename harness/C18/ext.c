/* C18: the message paths of src/extract.c on a member whose path, filename and link target are arbitrary bytes.
 *   WHICH 1 (ext.msg)    : print_filename, print_filename_brief, print_symlink_line, check_parent_directory, progress_callback - called directly
 *   WHICH 2 (ext.dryrun) : extract_archive / print_archive with the 'n' option (extract_archive_dry_run: EXTRACT lines)
 *   WHICH 3 (ext.test)   : test_file_crc (VERIFY line, "Testing  :" progress, Tested / CRC error)
 *   WHICH 4 (ext.extract): extract_archive (overwrite prompt, "Skipped...", parent directory messages, "Melting  :" progress, Melted / Failure, Symbolic Link line)
 *   WHICH 5 (ext.print)  : print_archive (banner lines, Symbolic Link line)
 *   WHICH 6 (ext.parents): make_parent_directories + check_parent_directory on an arbitrary path string
 * -DSTUB_PARENTS: make_parent_directories is replaced (driver rename_defs) by a stub returning an arbitrary result;
 *   its messages are examined by ext.parents for every path string up to the bound. */
#include "C18/sym_header.h"
#include "C18/ext_env.h"

#ifdef STUB_PARENTS
static unsigned parents_calls;
static int make_parent_directories(char *orig_path)
{
	CHECK(orig_path != NULL, "make_parent_directories is given a string");
	++parents_calls;
	return SEQ_NEXT(u8, arch) & 1;
}
#endif
#ifndef WHICH
#define WHICH 1
#endif
#ifndef XL
#define XL 2
#endif
#ifndef PL
#define PL 6
#endif

void harness(void)
{
	SYM_HEADER_INPUTS;
	INPUT_ARRAY(u8, xpath, XL + 1);
	INPUT(u8, have_xpath); INPUT(u8, quiet); INPUT(u8, policy); INPUT(u8, use_path); INPUT(u8, dry_run); INPUT(u8, sel); INPUT(u32, blk); INPUT(u32, nblk);
	static char s_xpath[XL + 1];
	LHAFilter filter;
	LHAOptions options;
	unsigned i;
	int result = 0;
	SYM_HEADER_FILL(&hdrs[0]);
	for (i = 0; i < XL; ++i) s_xpath[i] = (char) xpath[i];
	s_xpath[XL] = 0;
	ASSUME(quiet <= 2 && policy <= 2);
	filter.reader = NULL; filter.filters = NULL; filter.num_filters = 0;
	options.overwrite_policy = policy == 0 ? LHA_OVERWRITE_PROMPT : policy == 1 ? LHA_OVERWRITE_SKIP : LHA_OVERWRITE_ALL;
	options.quiet = quiet; options.verbose = 0; options.dry_run = dry_run & 1;
	options.extract_path = (have_xpath & 1) ? s_xpath : NULL; options.use_path = use_path & 1;
#if WHICH == 1
	ASSUME(sel < 6);
	if (sel == 0) print_filename(sh_name, "Melted");
	else if (sel == 1) print_filename_brief(sh_name);
	else if (sel == 2) print_symlink_line(sh_name, sh_target);
	else if (sel == 3) result = check_parent_directory(sh_path);
	else {
		ProgressCallbackData pd;
		pd.invoked = 0; pd.header = &hdrs[0]; pd.options = &options; pd.filename = sh_name; pd.operation = sel == 4 ? "Testing  :" : "Melting  :";
		ASSUME(nblk <= 200 && blk <= nblk);
		progress_callback(blk, nblk, &pd);
		CHECK(pd.invoked == 1, "progress callback records the invocation");
		if (blk == 0 && nblk == 200 && quiet == 0) WITNESS("scaled progress bar");
	}
	if (sel == 3 && result == 0) WITNESS("parent directory message");
	if (sel == 2 && hname[0] == 0x1b && htarget[0] == 0x9b) WITNESS("symlink line with ESC and CSI");
#elif WHICH == 2
	options.dry_run = 1;
	if (sel & 1) result = extract_archive(&filter, &options); else result = print_archive(&filter, &options);
	CHECK(hdr_served == 1 && result == 1, "the member was processed");
	CHECK(out_bytes >= 9, "an EXTRACT line was written");
	if ((have_target & 1) && htarget[0] == 0x1b && (have_path & 1) && hpath[0] == '/' && hpath[1] == 0x80) WITNESS("dry run: symlink with ESC target, absolute path with 0x80");
#elif WHICH == 3
	result = test_file_crc(&filter, &options);
	CHECK(hdr_served == 1, "the member was processed");
	if (!(dry_run & 1) && quiet == 0 && result == 0 && out_bytes > 20 && (have_name & 1) && hname[0] == 0x1b) WITNESS("CRC error line for a name starting with ESC");
	if ((dry_run & 1) && out_bytes > 7) WITNESS("VERIFY line");
#elif WHICH == 4
	options.dry_run = 0;
	result = extract_archive(&filter, &options);
	CHECK(hdr_served == 1, "the member was processed");
	if (policy == 1 && rd_calls == 0 && out_bytes > 12 && (have_name & 1) && hname[0] == 0x1b) WITNESS("Skipped line");
	if (policy == 0 && key_line >= 1 && (have_name & 1) && hname[0] == 0x07) WITNESS("overwrite prompt");
	if (rd_calls == 1 && (have_target & 1) && out_bytes > 14 && htarget[0] == 0x9b) WITNESS("Symbolic Link line");
	if (result == 0 && rd_calls == 0) WITNESS("parent directory failure");
#elif WHICH == 5
	options.dry_run = 0;
	result = print_archive(&filter, &options);
	CHECK(hdr_served == 1 && result == 1, "the member was processed");
	if (quiet < 2 && !(have_target & 1) && out_bytes > 18 && (have_name & 1) && hname[0] == 0x1b) WITNESS("banner with ESC in the name");
#elif WHICH == 6
	{
		INPUT_ARRAY(u8, pp, PL + 1);
		static char s_pp[PL + 1];
		unsigned nonslash = 0, ended = 0;
		for (i = 0; i < PL; ++i) { s_pp[i] = (char) pp[i]; if (pp[i] == 0) ended = 1; if (!ended && pp[i] != '/') nonslash = 1; }
		s_pp[PL] = 0;
		/* a path that is empty or consists of '/' only makes the real code form (and compare) the pointer path-1:
		 * undefined behaviour outside C18, and CBMC's pointer order gives it no meaning */
#ifndef ALLOW_EMPTY_PATH
		ASSUME(nonslash);
#endif
		result = make_parent_directories(s_pp);
		if (result == 0 && pp[0] == '/' && pp[1] == 0x1b && pp[2] == '/' && pp[3] == 0x80 && pp[4] == '/') WITNESS("failure message for the second component of an absolute path");
		if (result == 1 && pp[1] == '/' && pp[3] == '/' && pp[4] != 0 && pp[4] != '/') WITNESS("two parents created");
	}
#endif
	CHECK(out_unprintable == 0, "C18: extract/test/print messages consist of printable ASCII plus the tool's own LF/CR/TAB");
	CHECK(vas_live == 0 && pool_live == 0, "formatted strings and path strings are released");
	WITNESS("end");
}
