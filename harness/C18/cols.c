/* C18: the column handlers / headings / footers of src/list.c, one group per harness (-DWHICH=...), called
 * directly on a header whose strings and method field are arbitrary bytes and whose other fields are arbitrary.
 *   WHICH 1: all columns that print no header string: permission (Unix, OS-9, OS name), uid/gid, packed, size,
 *            ratio, timestamp, full timestamp, header level - and every column footer
 *   WHICH 2: name_column_print and whole_line_name_column_print (path, filename, link target)
 *   WHICH 3: method_crc_column_print (the 5 method bytes)
 *   WHICH 4: headings and separators of the four column sets */
#include "C18/sym_header.h"
#include "C18/list_env.h"

#ifndef WHICH
#define WHICH 1
#endif

void harness(void)
{
	SYM_HEADER_INPUTS;
	SYM_TIME_INPUTS;
	INPUT(u32, st_files); INPUT(u32, st_clen); INPUT(u32, st_len); INPUT(u32, st_ts);
	INPUT(u8, sel);
	LHAFileHeader *h = &hdrs[0];
	FileStatistics stats;
	SYM_HEADER_FILL(h);
	SYM_TIME_FILL();
	stats.num_files = st_files; stats.compressed_length = st_clen; stats.length = st_len; stats.timestamp = st_ts;
#if WHICH == 1
	permission_column_print(h);
	unix_uid_gid_column_print(h);
	packed_column_print(h);
	size_column_print(h);
	ratio_column_print(h);
	timestamp_column_print(h);
	full_timestamp_column_print(h);
	header_level_column_print(h);
	permission_column_footer(&stats);
	unix_uid_gid_column_footer(&stats);
	packed_column_footer(&stats);
	size_column_footer(&stats);
	ratio_column_footer(&stats);
	timestamp_column_footer(&stats);
	full_timestamp_column_footer(&stats);
	CHECK(out_unprintable == 0, "C18: numeric/permission columns and footers write printable ASCII only");
	CHECK(out_bytes >= 10 + 6, "permission column and footer label are written");
	if (!(flags & (LHA_FILE_OS9_PERMS | LHA_FILE_UNIX_PERMS)) && os == 0xff) WITNESS("OS name fallback, unknown OS type");
	if ((flags & LHA_FILE_OS9_PERMS) && ts == 0) WITNESS("OS-9 permissions, blank timestamp");
#elif WHICH == 2
	if (sel & 1) name_column_print(h); else whole_line_name_column_print(h);
	CHECK(out_unprintable == 0, "C18: name columns write printable ASCII only");
	if ((sel & 1) && (have_target & 1)) CHECK(out_bytes >= 4, "link arrow written");
	if ((sel & 1) && (have_target & 1) && htarget[0] == 0x9b && (have_path & 1) && hpath[1] == 0x1b && (have_name & 1) && hname[2] == 0x07) WITNESS("CSI in target, ESC in path, BEL in name");
	if (!(sel & 1) && (have_target & 1) && htarget[SL - 1] == 0xff) WITNESS("whole-line name with 0xff in target");
#elif WHICH == 3
	method_crc_column_print(h);
	CHECK(out_unprintable == 0, "C18: the method/CRC column writes printable ASCII only");
	if (hmethod[3] == 0x1b) WITNESS("escape byte in the method field");
#elif WHICH == 4
	{
		ListColumn **sets[4] = { normal_column_headers, normal_column_headers_verbose, verbose_column_headers, verbose_column_headers_verbose };
		unsigned i;
		for (i = 0; i < 4; ++i) {
			print_list_headings(sets[i]);
			print_list_separators(sets[i]);
			print_footers(sets[i], &stats);
		}
		CHECK(out_unprintable == 0, "C18: headings, separators and footers write printable ASCII only");
		CHECK(out_bytes > 4 * 2 * 60, "headings and separators are written");
	}
#endif
	CHECK(vas_live == 0, "formatted strings are released");
	WITNESS("end");
}
