/* A symbolic LHAFileHeader for the output harnesses (C18, C19).
 * SYM_HEADER_INPUTS declares the inputs (use it ONCE inside the entry function), sym_header_fill() builds
 * the header in typed static storage.  Strings: SL arbitrary bytes 0x00..0xFF followed by a NUL, i.e. every
 * string of length 0..SL over 0x01..0xFF; path / filename / symlink_target may also be NULL. */
#ifndef SYM_HEADER_H
#define SYM_HEADER_H
#include "verif.h"
#include <time.h>
#include "lha_file_header.h"

#ifndef SL
#define SL 3
#endif

#define SYM_HEADER_INPUTS \
	INPUT_ARRAY(u8, hpath, SL + 1); INPUT_ARRAY(u8, hname, SL + 1); INPUT_ARRAY(u8, htarget, SL + 1); INPUT_ARRAY(u8, huser, SL + 1); INPUT_ARRAY(u8, hgroup, SL + 1); INPUT_ARRAY(u8, hmethod, 5); INPUT(u8, have_path); INPUT(u8, have_name); INPUT(u8, have_target); INPUT(u32, flags); INPUT(u32, perms); INPUT(u32, os9); INPUT(u32, uid); INPUT(u32, gid); INPUT(u64, clen); INPUT(u64, len); INPUT(u16, crc); INPUT(u32, ts); INPUT(u8, level); INPUT(u8, os)

#define SYM_HEADER_FILL(h) sym_header_fill(h, hpath, hname, htarget, huser, hgroup, hmethod, have_path, have_name, have_target, flags, perms, os9, uid, gid, clen, len, crc, ts, level, os)

#define SYM_TIME_INPUTS \
	INPUT(u32, mon); INPUT(u32, mday); INPUT(u32, hour); INPUT(u32, min); INPUT(u32, sec); INPUT(i32, year); INPUT(u64, now)

#define SYM_TIME_FILL() sym_time_fill(mon, mday, hour, min, sec, year, now)

static char sh_path[SL + 1], sh_name[SL + 1], sh_target[SL + 1], sh_user[SL + 1], sh_group[SL + 1];

static void sym_header_fill(LHAFileHeader *h, const u8 *path, const u8 *name, const u8 *target, const u8 *user, const u8 *group,
                            const u8 *method, u8 have_path, u8 have_name, u8 have_target, u32 flags, u32 perms, u32 os9,
                            u32 uid, u32 gid, u64 clen, u64 len, u16 crc, u32 ts, u8 level, u8 os)
{
	unsigned i;
	for (i = 0; i < SL; ++i) {
		sh_path[i] = (char) path[i]; sh_name[i] = (char) name[i]; sh_target[i] = (char) target[i];
		sh_user[i] = (char) user[i]; sh_group[i] = (char) group[i];
	}
	sh_path[SL] = sh_name[SL] = sh_target[SL] = sh_user[SL] = sh_group[SL] = '\0';
	h->path = (have_path & 1) ? sh_path : NULL;
	h->filename = (have_name & 1) ? sh_name : NULL;
	h->symlink_target = (have_target & 1) ? sh_target : NULL;
	h->unix_username = sh_user; h->unix_group = sh_group;
#ifdef SYM_METHOD_ANY
	for (i = 0; i < 5; ++i) h->compress_method[i] = (char) method[i];          /* 0x00 included: a shorter method string */
#else
	for (i = 0; i < 5; ++i) { ASSUME(method[i] != 0); h->compress_method[i] = (char) method[i]; }
#endif
	h->compress_method[5] = '\0';
	h->extra_flags = flags; h->unix_perms = perms; h->os9_perms = os9; h->unix_uid = uid; h->unix_gid = gid;
	h->compressed_length = (size_t) clen; h->length = (size_t) len; h->crc = crc; h->timestamp = ts;
	h->header_level = level; h->os_type = os;
}

/* localtime(): an arbitrary valid broken-down time (the argument is recorded); time(): arbitrary */
static struct tm sym_tm;
static time_t sym_now;
static u64 sym_localtime_arg;
static unsigned sym_localtime_calls, sym_time_calls;
struct tm *verif_localtime(const time_t *t) { sym_localtime_arg = (u64) *t; ++sym_localtime_calls; return &sym_tm; }
time_t verif_time(time_t *t) { ++sym_time_calls; if (t != NULL) *t = sym_now; return sym_now; }

static void sym_time_fill(u32 mon, u32 mday, u32 hour, u32 min, u32 sec, i32 year, u64 now)
{
	ASSUME(mon < 12 && mday >= 1 && mday <= 31 && hour < 24 && min < 60 && sec <= 60);
	ASSUME(year >= -1900 && year <= 1000000);
	ASSUME(now < ((u64) 1 << 40));
	sym_tm.tm_mon = (int) mon; sym_tm.tm_mday = (int) mday; sym_tm.tm_hour = (int) hour; sym_tm.tm_min = (int) min;
	sym_tm.tm_sec = (int) sec; sym_tm.tm_year = (int) year;
	sym_now = (time_t) now;
}
#endif
