/* Real src/safe.c + src/list.c on top of the output model; localtime/time arbitrary; one or more headers
 * served by a stub of lha_filter_next_file (src/filter.c is exercised separately). */
#ifndef LIST_ENV_H
#define LIST_ENV_H
#include "out_model.h"
#include <stdlib.h>
#include <string.h>
#include <time.h>
#include <sys/stat.h>
#include "C18/sym_header.h"
#include "out_redirect.h"
#define free verif_free_vas
#include "src/safe.c"
#undef free
#define localtime verif_localtime
#define time verif_time
#define fstat verif_fstat
#define fileno verif_fileno
static u32 sym_mtime; static int sym_fstat_fails;
int verif_fileno(FILE *f) { (void) f; return 3; }
int verif_fstat(int fd, struct stat *st) { (void) fd; if (sym_fstat_fails) return -1; st->st_mtime = (time_t) sym_mtime; return 0; }
#include "src/list.c"
#undef localtime
#undef time
#undef fstat
#undef fileno
#include "out_unredirect.h"

#ifndef NHDR
#define NHDR 1
#endif
static LHAFileHeader hdrs[NHDR];
static unsigned hdr_count = NHDR, hdr_served;
LHAFileHeader *lha_filter_next_file(LHAFilter *filter) { (void) filter; if (hdr_served >= hdr_count) return NULL; return &hdrs[hdr_served++]; }
#endif
