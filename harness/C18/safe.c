/* C18: src/safe.c - safe_output / safe_printf / safe_fprintf, for ALL strings of up to N bytes over 0x01..0xFF:
 * every byte written is printable ASCII, the length is preserved, printable input bytes are written unchanged and
 * every other byte is written as '?'. */
#define OUT_RECORD 1
#ifndef N
#define N 6
#endif
/* -DFILL=n: the string starts with n concrete filler bytes ('a'); with n = 253 the formatted output crosses the 256-byte
 * mark that a stack-buffer fast path would use (seeded change C18a5) while only N bytes stay symbolic */
#ifndef FILL
#define FILL 0
#endif
#define OUT_TOKENS (FILL + N + 8)
#include "out_model.h"
#include <stdlib.h>
#include "out_redirect.h"
#define free verif_free_vas
#include "src/safe.c"
#undef free
#include "out_unredirect.h"

void harness(void)
{
	INPUT_ARRAY(u8, s, N + 1);
	INPUT(u8, which);
	static unsigned char buf[FILL + N + 1];
	unsigned i, len = N, seen_nul = 0, pre = 0;
	int r = 0;
	for (i = 0; i < FILL; ++i) buf[i] = 'a';
	for (i = 0; i < N; ++i) { buf[FILL + i] = s[i]; if (!seen_nul && s[i] == 0) { len = i; seen_nul = 1; } }
	buf[FILL + N] = 0;
	len += FILL;
	ASSUME(which < 4);
#ifdef WHICH_FIX
	which = WHICH_FIX;     /* one call form per variant (token positions stay concrete) */
#endif
	/* only the public entry points are called (safe_output itself is file-static: reached through them) */
	if (which == 0) r = safe_fprintf(stdout, "%s", buf);
	else if (which == 1) r = safe_printf("%s", buf);
	else if (which == 2) r = safe_fprintf(stderr, "%s", buf);
	else { r = safe_printf(" -> %s", buf); pre = 4; }
	CHECK(out_unprintable == 0, "C18: safe_output writes printable ASCII only");
	CHECK(out_bytes == len + pre && out_n == len + pre, "C18: safe_output preserves the length of the string");
	CHECK(r == (int) (len + pre), "safe_printf returns the formatted length");
	for (i = 0; i < FILL; ++i) CHECK((out_tok[pre + i].meta & 0xff) == 'b' && out_tok[pre + i].value == 'a', "C18: printable bytes are written unchanged");
	pre += FILL; len -= FILL;
	for (i = 0; i < N; ++i) {
		if (i < len) {
			u8 c = s[i];
			CHECK((out_tok[pre + i].meta & 0xff) == 'b', "safe_output writes bytes");
			if (c >= 0x20 && c <= 0x7e) CHECK(out_tok[pre + i].value == c, "C18: printable bytes are written unchanged");
			else CHECK(out_tok[pre + i].value == '?', "C18: control characters and bytes >= 0x7F are replaced by '?'");
		}
	}
	CHECK(vas_live == 0, "the formatted string is released");
	if (len == N && s[0] == 0x1b && s[1] == 0x7f && s[2] == 0x80 && s[3] == 0x7e && s[4] == 0x1f && s[5] == 0x20) WITNESS("ESC DEL 0x80 ~ 0x1f space");
	if (which == 3 && len == 0) WITNESS("empty target");
	WITNESS("end");
}
