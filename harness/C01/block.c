/* C01 H01.block: block accounting of lha_lh_new_read.
 * start_new_block is replaced by a stub that delivers an arbitrary sequence of block headers: each either fails
 * (truncated / unreadable header) or sets block_remaining to an arbitrary 16-bit count, possibly 0 several times
 * in a row (at most BLK-1 consecutive empty blocks here; the BLK-th header has a non-zero count).  The stub
 * asserts that it is only entered with block_remaining == 0.  read_from_tree yields an arbitrary command.
 * Asserted: a block with r commands left is NOT re-read: exactly one command is decoded and r decreases by one;
 * with r == 0 headers are read until one has a non-zero count (empty blocks are skipped), then exactly one
 * command of that block is decoded; a failing header makes the read return 0 with nothing decoded. */
#include "verif.h"
#define HISTORY_BITS 4
#define OFFSET_BITS 3
#define NUM_CODES 510
#define DECODER_NAME verif_lh_decoder
#include "lib/lh_new_decoder.c"
#define BITS_SPEC
#define BS_N 4
#include "bits_stub.h"

#define BLK 4
static LHANewDecoder dec;
static u32 blk_count[BLK];
static u8 blk_ok[BLK];
static unsigned blk_calls, code_walks, off_walks;
static int g_code, g_sym;

static int start_new_block(LHANewDecoder *decoder)
{
	unsigned i = blk_calls;
	CHECK(decoder->block_remaining == 0, "C01 H01.block: a new block header is read only when the current block is used up");
	CHECK(i < BLK, "harness: number of consecutive block headers");
	++blk_calls;
	if (i >= BLK) return 0;
	decoder->block_remaining = blk_count[i];     /* the real function stores the count before reading the tables */
	return blk_ok[i];
}

static int read_from_tree(BitStreamReader *reader, TreeElement *tree)
{
	(void) reader;
	if (tree == dec.code_tree) { ++code_walks; return g_code; }
	++off_walks;
	return g_sym;
}

void harness(void)
{
	INPUT_ARRAY(u32, counts, BLK);
	INPUT_ARRAY(u8, oks, BLK);
	INPUT_ARRAY(u8, stream, BS_N);
	INPUT_ARRAY(u8, ring0, RING_BUFFER_SIZE);
	INPUT(u32, rem0); INPUT(u32, pos0); INPUT(u32, code); INPUT(u32, sym);
	static u8 out[256];
	unsigned i, j;
	size_t n;

	ASSUME(pos0 < RING_BUFFER_SIZE && code < NUM_CODES && sym <= HISTORY_BITS);
	for (i = 0; i < BLK; ++i) {
		ASSUME(counts[i] <= 0xffff && oks[i] <= 1);
		blk_count[i] = counts[i]; blk_ok[i] = oks[i];
	}
	ASSUME(!oks[BLK - 1] || counts[BLK - 1] != 0);
	for (i = 0; i < BS_N; ++i) bs_data[i] = stream[i];
	bs_bits = 8 * BS_N; bs_pos = 0;
	for (i = 0; i < RING_BUFFER_SIZE; ++i) dec.ringbuf[i] = ring0[i];
	dec.ringbuf_pos = pos0;
	dec.block_remaining = rem0;
	g_code = (int) code; g_sym = (int) sym;

	n = lha_lh_new_read(&dec, out);

	if (rem0 != 0) {
		CHECK(blk_calls == 0, "C01 H01.block: no header is read inside a block");
		CHECK(code_walks == 1 && dec.block_remaining == rem0 - 1, "C01 H01.block: exactly one command per decrement");
		CHECK(n == (code < 256 ? 1u : code - 253u), "C01 H01.block: the command's output is returned");
	} else {
		/* first header that fails or opens a non-empty block */
		for (j = 0; j < BLK - 1; ++j) if (!oks[j] || counts[j] != 0) break;
		CHECK(blk_calls == j + 1, "C01 H01.block: empty blocks are skipped, header by header");
		if (!oks[j]) {
			CHECK(n == 0 && code_walks == 0 && dec.ringbuf_pos == pos0, "C01 H01.block: a failing block header returns 0, nothing decoded");
			if (j == 2) WITNESS("failure after two empty blocks");
		} else {
			CHECK(code_walks == 1 && dec.block_remaining == counts[j] - 1, "C01 H01.block: first command of the new block, one decrement");
			CHECK(n == (code < 256 ? 1u : code - 253u), "C01 H01.block: the command's output is returned");
			if (j == BLK - 1) WITNESS("three empty blocks skipped");
			if (counts[j] == 1) WITNESS("one-command block");
		}
	}
	WITNESS("end");
}
