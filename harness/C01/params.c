/* C01 H01.params: the real instantiations of the lh_new template carry the parameters their formats demand,
 * and lib/lha_decoder.c maps the method names to them.
 *
 * Published method definitions (LHa for UNIX lha_macro.h / huf.c, UNLHA32 for -lhx-, Summers' LHARK notes):
 *   method  sliding dictionary   offset symbols NP          PBIT (width of the offset-table count)  codes NC
 *   -lh4-   4 KiB  (2^12)        14                         4                                       510
 *   -lh5-   8 KiB  (2^13)        14                         4                                       510
 *   -lh6-   32 KiB (2^15)        16                         5                                       510
 *   -lh7-   64 KiB (2^16)        17                         5                                       510
 *   -lhx-   up to 512 KiB (2^19) 20                         5                                       510
 *   -lk7-   64 KiB (2^16)        32 (Deflate-like codes)    6                                       289
 *   NC = 256 literals + one code per match length 3..256 = 510 (count field 9 bits); temp codes: 19 <= 31 (5 bits).
 * What the decoder needs for exact decoding: ring >= dictionary (every permitted distance addressable, modulo
 * arithmetic then never aliases), offset tree large enough for NP symbols, OFFSET_BITS == PBIT, NUM_CODES == NC,
 * max_read (size of the caller's output buffer) >= the longest copy, extra bits per request <= 25 (bits.c). */
#include "verif.h"
#include <string.h>
#if defined(M_LH5)
#include "lib/lh5_decoder.c"
#define DEC lha_lh5_decoder
#define DICBITS 13
#define NP 14
#define PBIT 4
#define NC_FMT 510
#define LONGEST 256
#define WANT_HISTORY_BITS 14
#elif defined(M_LH6)
#include "lib/lh6_decoder.c"
#define DEC lha_lh6_decoder
#define DICBITS 15
#define NP 16
#define PBIT 5
#define NC_FMT 510
#define LONGEST 256
#define WANT_HISTORY_BITS 16
#elif defined(M_LH7)
#include "lib/lh7_decoder.c"
#define DEC lha_lh7_decoder
#define DICBITS 16
#define NP 17
#define PBIT 5
#define NC_FMT 510
#define LONGEST 256
#define WANT_HISTORY_BITS 17
#elif defined(M_LHX)
#include "lib/lhx_decoder.c"
#define DEC lha_lhx_decoder
#define DICBITS 19
#define NP 20
#define PBIT 5
#define NC_FMT 510
#define LONGEST 256
#define WANT_HISTORY_BITS 20
#elif defined(M_LK7)
#include "lib/lk7_decoder.c"
#define DEC lha_lk7_decoder
#define DICBITS 16
#define NP 32
#define PBIT 6
#define NC_FMT 289
#define LONGEST 514
#define WANT_HISTORY_BITS 16
#endif

#ifdef DEC
void harness(void)
{
	INPUT(u32, dummy);
	(void) dummy;
	CHECK(OFFSET_BITS == PBIT, "C01 H01.params: width of the offset-table count field");
	CHECK(HISTORY_BITS >= DICBITS && RING_BUFFER_SIZE >= (1u << DICBITS), "C01 H01.params: ring holds the whole sliding dictionary");
	CHECK(HISTORY_BITS == WANT_HISTORY_BITS, "C01 H01.params: ring size as recorded in DESIGN.md 4.1 (change detector)");
	CHECK(MAX_OFFSET_CODES >= NP, "C01 H01.params: offset tree has room for every offset symbol of the method");
	CHECK(NUM_CODES == NC_FMT && NUM_CODES < (1 << 9), "C01 H01.params: number of command codes, representable in the 9-bit count");
	CHECK(MAX_TEMP_CODES == 31 && TEMP_CODE_BITS == 5, "C01 H01.params: temp table count is 5 bits");
	CHECK(COPY_THRESHOLD == 3, "C01 H01.params: shortest match is 3");
#ifdef LHARK
	CHECK(NUM_CODES == 256 + 8 + 24 + 1, "C01 H01.params: LHARK codes: literals, 8 plain lengths, 24 with extra bits, one for 514");
	CHECK(2 * HISTORY_BITS == NP, "C01 H01.params: LHARK distance codes 0..2*16-1 cover exactly the window");
	CHECK((NP - 1 - 2) / 2 <= 25 && 6 <= 25, "C01 H01.params: extra bits per request within the exact range of the bit reader");
#else
	CHECK(NUM_CODES == 256 + (LONGEST - COPY_THRESHOLD + 1), "C01 H01.params: one code per literal and per match length 3..256");
	CHECK(NP - 1 <= HISTORY_BITS, "C01 H01.params: largest offset symbol addresses distances inside the ring");
	CHECK(NP - 2 <= 25, "C01 H01.params: extra bits per request within the exact range of the bit reader");
#endif
	CHECK(DEC.max_read >= LONGEST && DEC.max_read == OUTPUT_BUFFER_SIZE, "C01 H01.params: output buffer holds the longest copy");
	CHECK(DEC.extra_size == sizeof(LHANewDecoder), "C01 H01.params: state size");
	CHECK(DEC.init == lha_lh_new_init && DEC.read == lha_lh_new_read && DEC.free == NULL, "C01 H01.params: decoder type uses this instantiation");
	CHECK(sizeof(((LHANewDecoder *) 0)->ringbuf) == RING_BUFFER_SIZE, "C01 H01.params: ring member size");
	CHECK(sizeof(((LHANewDecoder *) 0)->code_tree) == 2 * NUM_CODES * sizeof(TreeElement)
	      && sizeof(((LHANewDecoder *) 0)->offset_tree) == 2 * MAX_OFFSET_CODES * sizeof(TreeElement)
	      && sizeof(((LHANewDecoder *) 0)->temp_tree) == 2 * MAX_TEMP_CODES * sizeof(TreeElement),
	      "C01 H01.params: a complete code of N symbols needs 2N-1 tree entries; members have 2N");
	CHECK(NUM_CODES * 2 < (1 << 15), "C01 H01.params: tree indices and symbols fit below the 16-bit leaf flag");
#ifdef M_LH5
	/* -lh4-: same instantiation, 4 KiB dictionary */
	CHECK(lha_lh4_decoder.init == lha_lh_new_init && lha_lh4_decoder.read == lha_lh_new_read
	      && lha_lh4_decoder.extra_size == sizeof(LHANewDecoder) && lha_lh4_decoder.max_read == OUTPUT_BUFFER_SIZE,
	      "C01 H01.params: -lh4- is the -lh5- instantiation (4 KiB dictionary inside the same ring)");
#endif
	WITNESS("end");
}
#endif

#ifdef M_NAMES
#include "lib/lha_decoder.c"
static char nm[6];
static LHADecoderType *by(const char *s) { strcpy(nm, s); return lha_decoder_for_name(nm); }
void harness_names(void)
{
	INPUT(u32, dummy);
	(void) dummy;
	CHECK(by("-lh4-") == &lha_lh4_decoder, "C01 H01.params: -lh4- maps to the lh4 decoder type");
	CHECK(by("-lh5-") == &lha_lh5_decoder, "C01 H01.params: -lh5- maps to the lh5 decoder type");
	CHECK(by("-lh6-") == &lha_lh6_decoder, "C01 H01.params: -lh6- maps to the lh6 decoder type");
	CHECK(by("-lh7-") == &lha_lh7_decoder, "C01 H01.params: -lh7- maps to the lh7 decoder type");
	CHECK(by("-lhx-") == &lha_lhx_decoder, "C01 H01.params: -lhx- maps to the lhx decoder type");
	CHECK(by("-lk7-") == &lha_lk7_decoder, "C01 H01.params: -lk7- maps to the lk7 decoder type");
	CHECK(lha_lh4_decoder.read == lha_lh5_decoder.read && lha_lh6_decoder.read != lha_lh5_decoder.read
	      && lha_lh7_decoder.read != lha_lh6_decoder.read && lha_lhx_decoder.read != lha_lh7_decoder.read
	      && lha_lk7_decoder.read != lha_lh7_decoder.read && lha_lk7_decoder.read != lha_lh6_decoder.read,
	      "C01 H01.params: five distinct instantiations, lh4 sharing lh5's");
	CHECK(lha_lh5_decoder.max_read == (1u << 14) && lha_lh6_decoder.max_read == (1u << 16) && lha_lh7_decoder.max_read == (1u << 17)
	      && lha_lhx_decoder.max_read == (1u << 20) && lha_lk7_decoder.max_read == (1u << 16),
	      "C01 H01.params: the linked decoder types are the instantiations checked per file (ring sizes)");
	WITNESS("end");
}
#endif
