/* C01 H01.tree: build_tree + read_from_tree against canonical prefix codes computed ARITHMETICALLY.
 *
 * For an arbitrary array of code lengths (0 = symbol unused) that is Kraft-complete (sum of 2^-len == 1) the
 * format assigns codewords in canonical order: shorter codes first, ties by symbol index, the 0-branch first.
 * Hence the codeword of symbol s, read as a len[s]-bit number, is the Kraft measure of all codes that come
 * before it, in units of 2^-len[s]:
 *     code(s) = ( sum over j before s of 2^(ML - len[j]) ) >> (ML - len[s]),
 *     j before s  <=>  len[j] != 0 and (len[j] < len[s] or (len[j] == len[s] and j < s))
 * (every earlier code is no longer than len[s], so the sum is a multiple of 2^(ML-len[s])).  No tree is involved
 * in the oracle.  The harness builds the tree with the real build_tree and walks it with the real read_from_tree
 * over a bit string that starts with that codeword: the walk must return s and consume exactly len[s] bits.
 *
 * NS symbols, lengths <= ML; tree array of 2*NS entries (the ratio of all real instantiations).
 * COMB: the lengths are a permutation of 1,2,...,NS-2,NS-1,NS-1 (maximum-depth code; NS = 17: 16-bit codes).
 * COMBROT: the same comb, the symbol order being any rotation or reflected rotation (2*NS arrangements). */
#include "verif.h"
#include <string.h>
#include "lib/lha_decoder.h"
#include "lib/bit_stream_reader.c"
#ifdef ELEM8
typedef uint8_t TreeElement;
#else
typedef uint16_t TreeElement;
#endif
#include "lib/tree_decode.c"
#define BITS_SPEC
#define BS_N 4
#include "bits_stub.h"

#ifndef NS
#define NS 4
#endif
#ifndef ML
#define ML 4
#endif
#define TL (2 * NS)

static TreeElement tree[TL];

void harness(void)
{
	INPUT_ARRAY(u8, lens, NS);
	INPUT_ARRAY(u8, stream, BS_N);
	INPUT(u32, s);
	uint8_t code_lengths[NS];
	unsigned i, kraft = 0, before = 0, code, ls;
	int v;

	ASSUME(s < NS);
	for (i = 0; i < NS; ++i) {
		ASSUME(lens[i] <= ML);
		code_lengths[i] = lens[i];
		if (lens[i] != 0) kraft += 1u << (ML - lens[i]);
	}
	ASSUME(kraft == (1u << ML));              /* complete prefix code */
#ifdef COMBROT
	{
		/* comb at a symbolic rotation / reflection of the symbol order (a subfamily of the permutations, cheap) */
		INPUT(u32, rot); INPUT(u8, rev);
		ASSUME(rot < NS);
		for (i = 0; i < NS; ++i) {
			unsigned k = (i + rot) % NS;
			if (rev & 1) k = NS - 1 - k;
			ASSUME(lens[i] == (k + 1 < ML ? k + 1 : ML));
		}
	}
#endif
#ifdef COMB
	{
		unsigned l, cnt;
		for (l = 1; l <= ML; ++l) {
			cnt = 0;
			for (i = 0; i < NS; ++i) if (lens[i] == l) ++cnt;
			ASSUME(cnt == (l == ML ? 2u : 1u));
		}
	}
#endif
	ls = lens[s];
	ASSUME(ls != 0);                          /* s is a symbol of the code */

	/* canonical codeword of s, arithmetically */
	for (i = 0; i < NS; ++i) {
		if (lens[i] != 0 && (lens[i] < ls || (lens[i] == ls && i < s))) before += 1u << (ML - lens[i]);
	}
	code = before >> (ML - ls);

	/* bit string: the codeword, then arbitrary bits */
	for (i = 0; i < BS_N; ++i) bs_data[i] = stream[i];
	bs_bits = 8 * BS_N; bs_pos = 0;
	ASSUME(bs_ref(0, ls) == code);

	init_tree(tree, TL);
	build_tree(tree, TL, code_lengths, NS);
	v = read_from_tree((BitStreamReader *) 0, tree);

	CHECK(v == (int) s, "C01 H01.tree: walking the canonical codeword of s reaches leaf s");
	CHECK(bs_pos == ls, "C01 H01.tree: the walk consumes exactly len[s] bits");

	if (ls == (ML < NS - 1 ? ML : NS - 1)) WITNESS("symbol with the longest possible code");
	if (ls == 1) WITNESS("symbol with a one-bit code");
	WITNESS("end");
}

/* single-symbol form: the walk returns the symbol and consumes no bit */
void harness_single(void)
{
	INPUT(u32, sym);
	INPUT_ARRAY(u8, stream, BS_N);
	unsigned i;
	int v;
	ASSUME(sym < (1u << (sizeof(TreeElement) * 8 - 1)));
	for (i = 0; i < BS_N; ++i) bs_data[i] = stream[i];
	bs_bits = 8 * BS_N; bs_pos = 0;
	init_tree(tree, TL);
	set_tree_single(tree, (TreeElement) sym);
	v = read_from_tree((BitStreamReader *) 0, tree);
	CHECK(v == (int) sym, "C01 H01.tree: single-symbol tree decodes to its symbol");
	CHECK(bs_pos == 0, "C01 H01.tree: single-symbol tree consumes no bit");
	/* also with an empty bit string (end of data): still succeeds */
	bs_bits = 0;
	v = read_from_tree((BitStreamReader *) 0, tree);
	CHECK(v == (int) sym, "C01 H01.tree: single-symbol tree needs no input at all");
	if (sym == 100) WITNESS("a mid-range symbol");
	WITNESS("end");
}
