/* C01 H01.cmd: ONE command of the static-Huffman family from an ARBITRARY window.
 *
 * State: ring contents arbitrary, write position arbitrary < RING, block_remaining >= 1 (no table read).
 * read_from_tree is replaced by a stub that yields an arbitrary code < NUM_CODES for the code tree and an
 * arbitrary offset symbol for the offset tree (tree walking itself: tree.c / H01.tree); extra bits come from
 * the spec bit reader (refinement: bits.c).  Oracle, from the format:
 *   code < 256            literal: one byte, value = code
 *   code >= 256           copy of length L from distance d (0 = the byte just written):
 *       -lh4..7-, -lhx-   L = code - 256 + 3;  offset symbol k: d = 0 for k = 0, otherwise a (k)-bit number whose
 *                         top bit is 1 and whose lower k-1 bits follow in the stream  (table in read_offset_code)
 *       -lk7- (LHARK)     Deflate-like classes, tables below (Summers, "Notes on LHARK compression format")
 *   output byte i = i <= d ? window byte d-i back from the write position : output byte i-d-1
 *   new window = old window with the output written from the old write position (mod RING); position advances by L.
 *
 * Harness modes (entry points / defines):
 *   harness, default      closed-form oracle above, checked at an arbitrary output index and an arbitrary ring cell
 *                         after the real call; affordable for copy lengths <= LENMAX of 8..32.
 *   harness, STEPWISE     byte-at-a-time oracle (monitor around the real output_byte, see below): the whole length
 *                         range 3..256 (LHARK ..514) stays symbolic.
 *   harness_codes         distance decoding (and LHARK length decoding) alone, at real parameters.
 *   harness_outbyte       the real output_byte alone (frame condition).
 * The template lib/lh_new_decoder.c is instantiated here with small HISTORY_BITS (HB) so that position, distance
 * and length are symbolic and the ring wraps many times; with REAL_LH5 / REAL_LH6 / REAL_LH7 / REAL_LHX / REAL_LK7
 * the real instantiation file is included instead. */
#include "verif.h"
#if defined(REAL_LH5)
#include "lib/lh5_decoder.c"
#elif defined(REAL_LH6)
#include "lib/lh6_decoder.c"
#elif defined(REAL_LH7)
#include "lib/lh7_decoder.c"
#elif defined(REAL_LHX)
#include "lib/lhx_decoder.c"
#elif defined(REAL_LK7)
#include "lib/lk7_decoder.c"
#else
#define HISTORY_BITS HB
#define OFFSET_BITS OB
#ifdef LK
#define NUM_CODES 289
#define LHARK
#else
#define NUM_CODES 510
#endif
#define DECODER_NAME verif_lh_decoder
#include "lib/lh_new_decoder.c"
#endif
#define BITS_SPEC
#define BS_N 4
#include "bits_stub.h"

#define RING RING_BUFFER_SIZE
#ifdef LHARK
#define MAXLEN 514
#define MAXSYM (2 * HISTORY_BITS - 1)   /* largest Deflate-like distance code that stays inside the window */
/* copy-length codes 264..287: first length and number of extra bits (four codes per class, 1..6 extra bits);
 * 256..263 are lengths 3..10 without extra bits, 288 is the single length 514 */
static const u16 lk_len_base[24] = { 11, 13, 15, 17, 19, 23, 27, 31, 35, 43, 51, 59, 67, 83, 99, 115,
                                     131, 163, 195, 227, 259, 323, 387, 451 };
static const u8 lk_len_extra[24] = { 1, 1, 1, 1, 2, 2, 2, 2, 3, 3, 3, 3, 4, 4, 4, 4, 5, 5, 5, 5, 6, 6, 6, 6 };
/* distance codes 0..31 (distance 0 = previous byte): first distance and extra bits, as in Deflate minus one */
static const u16 lk_dist_base[32] = { 0, 1, 2, 3, 4, 6, 8, 12, 16, 24, 32, 48, 64, 96, 128, 192, 256, 384, 512, 768,
                                      1024, 1536, 2048, 3072, 4096, 6144, 8192, 12288, 16384, 24576, 32768, 49152 };
static const u8 lk_dist_extra[32] = { 0, 0, 0, 0, 1, 1, 2, 2, 3, 3, 4, 4, 5, 5, 6, 6, 7, 7, 8, 8, 9, 9, 10, 10,
                                      11, 11, 12, 12, 13, 13, 14, 14 };
#else
#define MAXLEN 256
#define MAXSYM HISTORY_BITS             /* symbol k gives distances < 2^k: inside the window up to k = HISTORY_BITS */
#endif
#ifndef LENMAX
#define LENMAX MAXLEN
#endif

static LHANewDecoder dec;
static unsigned verif_max_read(void) { return OUTPUT_BUFFER_SIZE; }
static int g_code, g_sym;
static unsigned code_walks, off_walks;

/* commands remain in the block (block_remaining >= 1): the block header reader must not be entered */
static int start_new_block(LHANewDecoder *decoder)
{
	(void) decoder;
	CHECK(0, "C01 H01.cmd: no block header is read while commands remain in the block");
	return 0;
}

static int read_from_tree(BitStreamReader *reader, TreeElement *tree)
{
	(void) reader;
	if (tree == dec.code_tree) { ++code_walks; return g_code; }
	CHECK(tree == dec.offset_tree, "C01 H01.cmd: only the code tree and the offset tree are walked while decoding a command");
	++off_walks;
	return g_sym;
}

#ifdef STEPWISE
/* Byte-at-a-time LZ77 semantics as a monitor around the REAL output_byte (the driver renames the real definition
 * to real_output_byte): a copy of length L at distance d is L steps, each appending the byte that lies d+1
 * behind the current head of the CURRENT window; appending = store at the head, advance the head (mod RING), hand
 * the byte to the caller's buffer.  Checked at every step of the real copy loop, so the assertions are local and
 * the whole length range stays symbolic.  (That real output_byte changes nothing else: harness_outbyte.)
 * Cut point: after each step the monitor re-chooses the window CONTENTS arbitrarily (havoc_window), so
 * every step is checked against an arbitrary window rather than the one computed so far - an over-approximation
 * (more behaviours than the real run), which keeps each step's formula independent of the previous ones.  The
 * head position is not cut; its closed form is asserted at each step and then assumed as a lemma. */
static unsigned steps, g_d, g_is_copy, g_pos0;
static void havoc_window(LHANewDecoder *decoder)
{
#if !defined(__CPROVER__)
	(void) decoder;
#elif RING_BUFFER_SIZE <= 64
	u8 fresh[RING_BUFFER_SIZE];           /* uninitialised = arbitrary */
	unsigned k;
	for (k = 0; k < RING_BUFFER_SIZE; ++k) decoder->ringbuf[k] = fresh[k];
#else
	LHANewDecoder fresh;                  /* uninitialised = arbitrary */
	fresh.bit_stream_reader = decoder->bit_stream_reader;
	fresh.ringbuf_pos = decoder->ringbuf_pos;
	fresh.block_remaining = decoder->block_remaining;
	*decoder = fresh;                     /* window contents (and the unused trees) re-chosen arbitrarily */
#endif
}
static void output_byte(LHANewDecoder *decoder, uint8_t *buf, size_t *buf_len, uint8_t b)
{
	unsigned head = decoder->ringbuf_pos;
	size_t at = *buf_len;
	CHECK(at == steps, "C01 H01.cmd: output bytes are appended in order");
	CHECK(head == ((g_pos0 + steps) & (RING - 1)), "C01 H01.cmd: head = initial position + bytes appended so far (mod RING)");
	ASSUME(head == ((g_pos0 + steps) & (RING - 1)));      /* proved just above: lemma for the following checks */
	if (g_is_copy) {
		CHECK(b == decoder->ringbuf[(head + RING - 1 - g_d) & (RING - 1)], "C01 H01.cmd: each copy step appends the byte d+1 behind the head of the current window");
	} else {
		CHECK(b == (u8) g_code, "C01 H01.cmd: literal step appends the literal");
	}
	real_output_byte(decoder, buf, buf_len, b);
	CHECK(*buf_len == at + 1 && buf[at] == b, "C01 H01.cmd: the byte is handed to the caller");
	CHECK(decoder->ringbuf[head] == b && decoder->ringbuf_pos == ((head + 1) & (RING - 1)), "C01 H01.cmd: the byte enters the window at the head; head advances mod RING");
	havoc_window(decoder);
	++steps;
}

/* real output_byte from an arbitrary state: exactly one ring cell and one buffer cell change */
void harness_outbyte(void)
{
	INPUT(u32, pos0); INPUT(u32, fill); INPUT(u32, probe); INPUT(u32, oprobe); INPUT(u8, b);
	static u8 out[MAXLEN], out0[MAXLEN];
	LHANewDecoder d0;
	size_t n;
	unsigned i;
	ASSUME(pos0 < RING && probe < RING && fill < MAXLEN && oprobe < MAXLEN);
	dec = d0;
	dec.ringbuf_pos = pos0;
	for (i = 0; i < MAXLEN; ++i) out0[i] = out[i];
	n = fill;
	real_output_byte(&dec, out, &n, b);
	CHECK(n == fill + 1 && out[oprobe] == (oprobe == fill ? b : out0[oprobe]), "C01 H01.cmd: output_byte appends exactly one byte to the caller's buffer");
	CHECK(dec.ringbuf[probe] == (probe == pos0 ? b : d0.ringbuf[probe]), "C01 H01.cmd: output_byte changes exactly the ring cell at the head");
	CHECK(dec.ringbuf_pos == (pos0 + 1) % RING, "C01 H01.cmd: head advances by one mod RING");
	if (pos0 == RING - 1) WITNESS("head wraps");
	WITNESS("end");
}
#endif

void harness(void)
{
	INPUT(u32, pos0); INPUT(u32, code); INPUT(u32, sym); INPUT(u32, idx); INPUT(u32, probe); INPUT(u32, rem);
	INPUT_ARRAY(u8, stream, BS_N);
	static u8 out[MAXLEN];
#if RING_BUFFER_SIZE <= 64
	INPUT_ARRAY(u8, ring0, RING_BUFFER_SIZE);
	static LHANewDecoder d0;
#else
	LHANewDecoder d0;                     /* arbitrary initial window (uninitialised = nondet) */
#endif
	unsigned i, len, d, p = 0;
	size_t n;

	ASSUME(pos0 < RING && probe < RING && code < NUM_CODES && sym <= MAXSYM && rem >= 1);
#ifdef FIXCODE
	code = FIXCODE;                      /* one concrete command code (grid point) */
#endif
#ifdef FIXSYM
	sym = FIXSYM;
#endif
#ifdef FIXPOS
	pos0 = FIXPOS;                        /* one concrete write position (grid point) */
#endif
	for (i = 0; i < BS_N; ++i) bs_data[i] = stream[i];
	bs_bits = 8 * BS_N; bs_pos = 0;
#if RING_BUFFER_SIZE <= 64
	for (i = 0; i < RING; ++i) d0.ringbuf[i] = ring0[i];
#endif

	/* reference decoding of (code, symbol, extra bits) */
	if (code < 256) {
		len = 1; d = 0;
	} else {
#ifdef LHARK
		if (code < 264) len = code - 253;
		else if (code < 288) { unsigned e = lk_len_extra[code - 264]; len = lk_len_base[code - 264] + bs_ref(p, e); p += e; }
		else len = 514;
		{ unsigned e = lk_dist_extra[sym]; d = lk_dist_base[sym] + bs_ref(p, e); p += e; }
#else
		len = code - 256 + 3;
		if (sym == 0) d = 0;
		else { d = (1u << (sym - 1)) | bs_ref(p, sym - 1); p += sym - 1; }
#endif
		ASSUME(len <= LENMAX);
	}

	dec = d0;
	dec.ringbuf_pos = pos0;
	dec.block_remaining = rem;
	g_code = (int) code; g_sym = (int) sym;
#ifdef STEPWISE
	g_d = d; g_is_copy = code >= 256; g_pos0 = pos0;
#endif

	n = lha_lh_new_read(&dec, out);

	CHECK(code_walks == 1, "C01 H01.cmd: exactly one code-tree symbol per command");
	CHECK(dec.block_remaining == rem - 1, "C01 H01.cmd: one command consumed from the block");
	if (code < 256) {
		CHECK(n == 1 && out[0] == (u8) code, "C01 H01.cmd: literal yields exactly its byte");
		CHECK(off_walks == 0 && bs_pos == 0, "C01 H01.cmd: literal reads no offset symbol and no extra bits");
		CHECK(dec.ringbuf_pos == (pos0 + 1) % RING, "C01 H01.cmd: write position advances by one (mod RING)");
#ifdef STEPWISE
		CHECK(steps == 1, "C01 H01.cmd: a literal is exactly one step");
#else
		CHECK(dec.ringbuf[probe] == (probe == pos0 ? (u8) code : d0.ringbuf[probe]), "C01 H01.cmd: window after a literal");
#endif
	} else {
		CHECK(n == len, "C01 H01.cmd: copy yields exactly its length");
		CHECK(off_walks == 1 && bs_pos == p, "C01 H01.cmd: copy reads one offset symbol and exactly its extra bits");
		CHECK(d < RING, "harness: distance inside the window");
#ifdef STEPWISE
		CHECK(steps == len, "C01 H01.cmd: a copy is exactly 'length' steps");
		(void) idx; (void) probe;
#else
		if (idx < len) {
			u8 expect = idx <= d ? d0.ringbuf[(pos0 + RING - 1 - d + idx) % RING] : out[idx - d - 1];
			CHECK(out[idx] == expect, "C01 H01.cmd: copy byte i is the window byte at distance d, or output byte i-d-1 (overlap)");
		}
#endif
		CHECK(dec.ringbuf_pos == (pos0 + len) % RING, "C01 H01.cmd: write position advances by the copy length (mod RING)");
#ifndef STEPWISE
		{
			/* last output byte written to ring cell 'probe', if any */
			unsigned e = (probe + RING - pos0) % RING;
			if (e < len) {
				unsigned k = e + RING * ((len - 1 - e) / RING);
				CHECK(dec.ringbuf[probe] == out[k], "C01 H01.cmd: window after a copy = old window overwritten by the output");
			} else {
				CHECK(dec.ringbuf[probe] == d0.ringbuf[probe], "C01 H01.cmd: window cells not written keep their content");
			}
		}
#endif
		if (pos0 + len > RING && d + 1 > pos0) WITNESS("copy crosses the ring seam on both the read and the write side");
		if (len == LENMAX && d + 2 < len) WITNESS("longest copy, self-overlapping");
		if (d == RING - 1) WITNESS("largest distance of the window");
	}
	WITNESS("end");
}

/* Distance and LHARK length decoding alone, at the parameters of the included instantiation: the real
 * read_offset_code (and lhark_decode_copy_count) return exactly the reference value for every symbol the window
 * permits and consume exactly the extra bits, from any bit alignment. */
void harness_codes(void)
{
	INPUT(u32, sym); INPUT(u32, code); INPUT(u32, start);
	INPUT_ARRAY(u8, stream, BS_N);
	unsigned i, d, p;
	int r;
	ASSUME(sym <= MAXSYM && start <= 7);
	for (i = 0; i < BS_N; ++i) bs_data[i] = stream[i];
	bs_bits = 8 * BS_N; bs_pos = start; p = start;
	g_sym = (int) sym;
#ifdef LHARK
	{ unsigned e = lk_dist_extra[sym]; d = lk_dist_base[sym] + bs_ref(p, e); p += e; }
#else
	if (sym == 0) d = 0;
	else { d = (1u << (sym - 1)) | bs_ref(p, sym - 1); p += sym - 1; }
#endif
	r = read_offset_code(&dec);
	CHECK(off_walks == 1 && code_walks == 0, "C01 H01.cmd: a distance is one offset-tree symbol");
	CHECK(r >= 0 && (unsigned) r == d, "C01 H01.cmd: distance = reference decoding of (offset symbol, extra bits)");
	CHECK(bs_pos == p, "C01 H01.cmd: distance consumes exactly its extra bits");
	CHECK(d < RING, "C01 H01.cmd: every distance of a permitted symbol lies inside the ring");
	if (sym == MAXSYM && d == RING - 1) WITNESS("largest distance");
#ifdef LHARK
	{
		unsigned len, q = p;
		ASSUME(code >= 256 && code < NUM_CODES);
		if (code < 264) len = code - 253;
		else if (code < 288) { unsigned e = lk_len_extra[code - 264]; len = lk_len_base[code - 264] + bs_ref(q, e); q += e; }
		else len = 514;
		r = lhark_decode_copy_count(&dec, (int) code);
		CHECK(r >= 0 && (unsigned) r == len, "C01 H01.cmd: LHARK copy length = reference decoding of (code, extra bits)");
		CHECK(bs_pos == q, "C01 H01.cmd: LHARK copy length consumes exactly its extra bits");
		CHECK(len >= 3 && len <= 514 && len <= verif_max_read(), "C01 H01.cmd: LHARK lengths 3..514 fit the output buffer");
		if (code == 287 && len == 514) WITNESS("LHARK: 514 through the last extra-bit class");
		if (code == 288) WITNESS("LHARK: code 288");
	}
#else
	(void) code;
#endif
	WITNESS("end");
}
