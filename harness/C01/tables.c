/* C01 H01.tables: the per-block table readers of lib/lh_new_decoder.c against a reference parser written from
 * the format description (LHA "static Huffman" block header):
 *
 *   length value   3 bits v; if v == 7, a unary extension follows: v += number of 1 bits up to and including
 *                  none of the terminating 0 bit (which is consumed).
 *   temp table     5-bit count n.  n == 0: a 5-bit symbol c follows; every temp code decodes to c, no bits.
 *                  Otherwise n length values; directly after the THIRD one a 2-bit number z, and the next z
 *                  entries are zero without being transmitted.
 *   code table     9-bit count n.  n == 0: a 9-bit symbol c follows; every command is c, no bits.
 *                  Otherwise entries 0..n-1 are produced by temp-code symbols t:  t == 0: one zero entry;
 *                  t == 1: 3 + (4 bits) zero entries; t == 2: 20 + (9 bits) zero entries; t >= 3: one entry t - 2.
 *                  (a zero run ends at the table end: entries >= n do not exist)
 *   offset table   OFFSET_BITS-bit count n.  n == 0: an OFFSET_BITS-bit symbol c; otherwise n length values.
 *   block          16-bit command count, temp table, code table, offset table - in that order.
 *
 * Both sides read the SAME symbolic bit string: the real code through the spec bit reader (bits_stub.h,
 * refinement: bits.c), the reference by indexing the bit array (bs_ref).  build_tree is replaced by a capture
 * stub; asserted: the call happens exactly once with (the right tree member, its true array length, n) and
 * code_lengths[0..n) equal to the reference's, the cursor ends where the reference's does, and the reader fails
 * (returns 0, builds nothing) exactly when the reference runs out of bits.  The n == 0 forms are checked
 * semantically: walking the tree afterwards yields c and consumes no bit.
 * In the code-table harness read_from_tree on the temp tree is a stub delivering an arbitrary pre-drawn symbol
 * sequence, which the reference consumes as well (tree walking itself: tree.c).
 * The template is instantiated here with NUM_CODES = NC (small, stated in the plan) and OFFSET_BITS = OB. */
#include "verif.h"
#ifndef NC
#define NC 24
#endif
#ifndef OB
#define OB 4
#endif
#define HISTORY_BITS 4
#define OFFSET_BITS OB
#define NUM_CODES NC
#define DECODER_NAME verif_lh_decoder
#include "lib/lh_new_decoder.c"
#ifndef H_CODE
#define BITS_SPEC
#ifndef BS_N
#define BS_N 8
#endif
#include "bits_stub.h"
#else
/* Code-table harness: FIELD-SEQUENCE model of the bit string.  The bit string is a sequence of fields; the k-th
 * read_bits(n) call returns the low n bits of the k-th pre-drawn field value and logs n; after fld_avail fields
 * the input is exhausted (-1).  Reading "the same bits" then means: the same sequence of field widths (so, by
 * the bit-reader refinement of bits.c, the same bit positions) - asserted at the end against the reference's
 * width sequence.  This keeps every bit position out of the formula. */
#define FMAX 32
#define BS_N 1
static u32 fld_val[FMAX];
static u8 fld_w[FMAX], rf_w[FMAX];
static unsigned fld_i, fld_avail, rf_i;
static unsigned bs_pos, bs_bits;        /* bs_pos: bits consumed so far (sum of widths) */
static int read_bits(BitStreamReader *reader, unsigned int n)
{
	(void) reader;
	CHECK(n <= 25, "functional harness: requests of at most 25 bits (the range bits.c shows exact)");
	if (n == 0) return 0;
	if (fld_i >= fld_avail || fld_i >= FMAX) return -1;
	fld_w[fld_i] = (u8) n;
	bs_pos += n;
	return (int) (fld_val[fld_i++] & ((1u << n) - 1u));
}
static int read_bit(BitStreamReader *reader) { return read_bits(reader, 1); }
static int peek_bits(BitStreamReader *reader, unsigned int n) { (void) reader; (void) n; CHECK(0, "harness: peek_bits is not used by the table readers"); return -1; }
static unsigned bs_ref(unsigned p, unsigned n) { (void) p; (void) n; return 0; }
static u8 bs_data[1];
#endif

static LHANewDecoder dec;

/* ---- capture stub for build_tree */
#define CAPMAX (NC > 64 ? NC : 64)
static TreeElement *cap_tree;
static size_t cap_tree_len;
static unsigned cap_n, cap_calls;
static u8 cap_lens[CAPMAX];
#ifndef H_LEN
static void build_tree(TreeElement *tree, size_t tree_len, uint8_t *code_lengths, unsigned int num_code_lengths)
{
	unsigned i;
	++cap_calls;
	cap_tree = tree; cap_tree_len = tree_len; cap_n = num_code_lengths;
	for (i = 0; i < num_code_lengths && i < CAPMAX; ++i) cap_lens[i] = code_lengths[i];
}
#endif

/* ---- reference parser: cursor rp over the same bits; ref_ok drops when the bits run out */
static unsigned rp;
static int ref_ok = 1;
#ifdef H_CODE
static unsigned rbits(unsigned n)
{
	if (!ref_ok || rf_i >= fld_avail || rf_i >= FMAX) { ref_ok = 0; return 0; }
	rf_w[rf_i] = (u8) n;
	rp += n;
	return fld_val[rf_i++] & ((1u << n) - 1u);
}
#else
static unsigned rbits(unsigned n)
{
	unsigned v;
	if (!ref_ok || rp + n > bs_bits) { ref_ok = 0; return 0; }
	v = bs_ref(rp, n);
	rp += n;
	return v;
}
#endif
static unsigned ref_length(void)
{
	unsigned v = rbits(3);
	if (v == 7) {
		while (rbits(1) == 1) ++v;        /* rbits gives 0 once the bits have run out: the loop ends */
	}
	return v;
}

static void setup_stream(const u8 *stream, unsigned nbits, unsigned start)
{
	unsigned i;
	for (i = 0; i < BS_N; ++i) bs_data[i] = stream[i];
	bs_bits = nbits; bs_pos = start; rp = start;
}

/* ---- optional stub for read_length_value (LENSTUB): an arbitrary pre-drawn value per call, no bits consumed;
 * the bit position of every call is logged so that the ORDER of length values relative to the fixed-width
 * fields stays observable.  The reference draws from the same sequence.  Justified by harness_len, which checks
 * the real read_length_value against the format from an arbitrary bit position. */
#ifdef LENSTUB
#define LENSEQ 64
static u8 lenseq[LENSEQ];
static unsigned lencalls, lenpos[LENSEQ];
static int read_length_value(LHANewDecoder *decoder)
{
	(void) decoder;
	CHECK(lencalls < LENSEQ, "harness: number of length values");
	if (lencalls >= LENSEQ) return -1;
	lenpos[lencalls] = bs_pos;
	return lenseq[lencalls++];
}
static unsigned rlencalls;
#define REF_LENGTH() (lenseq[rlencalls++])
#else
#define REF_LENGTH() ref_length()
#endif

/* ================= read_length_value ================= */
#ifdef H_LEN
void harness_len(void)
{
	INPUT_ARRAY(u8, stream, BS_N);
	INPUT(u32, nbits); INPUT(u32, start);
	int r;
	unsigned v;
	ASSUME(nbits <= 8 * BS_N && start <= nbits);
	setup_stream(stream, nbits, start);
	r = read_length_value(&dec);
	v = ref_length();
	if (ref_ok) {
		CHECK(r >= 0 && (unsigned) r == v, "C01 H01.tables: length value = 3 bits, 7 extended by the following 1 bits");
		CHECK(bs_pos == rp, "C01 H01.tables: length value consumes 3 bits, or 3 + extension + the terminating 0");
		if (v == 7) WITNESS("7 with an empty extension");
		if (v >= 17) WITNESS("extension beyond 16");
	} else {
		CHECK(r < 0, "C01 H01.tables: length value fails when the bits run out");
	}
	WITNESS("end");
}
#endif

/* ================= read_temp_table ================= */
#ifdef H_TEMP
void harness_temp(void)
{
	INPUT_ARRAY(u8, stream, BS_N);
	INPUT(u32, nbits); INPUT(u32, start); INPUT(u32, idx);
#ifdef LENSTUB
	INPUT_ARRAY(u8, lens_in, 32);
#endif
	u8 L[31 + 4];
	unsigned n, i, z = 0, z0 = 0, single = 0;
	int r;
	ASSUME(nbits <= 8 * BS_N && start <= 8 && start <= nbits);
	setup_stream(stream, nbits, start);
	for (i = 0; i < sizeof(L); ++i) L[i] = 0xee;
#ifdef LENSTUB
	for (i = 0; i < 32; ++i) lenseq[i] = lens_in[i];
#endif
#ifdef NMAXT
	ASSUME(nbits < start + 5 || bs_ref(start, 5) <= NMAXT);    /* this harness: tables of at most NMAXT entries */
#endif

	r = read_temp_table(&dec);

	n = rbits(5);
	if (n == 0) {
		single = rbits(5);
	} else {
		i = 0;
		while (i < n) {
			L[i++] = (u8) REF_LENGTH();
			if (i == 3) {
				z = z0 = rbits(2);
				while (z > 0) { L[i++] = 0; --z; }
			}
		}
	}
	if (!ref_ok) {
		CHECK(r == 0 && cap_calls == 0, "C01 H01.tables: temp table: truncated input fails without building a tree");
	} else if (n == 0) {
		unsigned at = bs_pos;
		CHECK(r == 1 && cap_calls == 0 && bs_pos == rp, "C01 H01.tables: temp table n=0 form reads count and symbol only");
		CHECK(read_from_tree(&dec.bit_stream_reader, dec.temp_tree) == (int) single && bs_pos == at,
		      "C01 H01.tables: temp table n=0: every temp code decodes to the given symbol without consuming bits");
		WITNESS("temp n=0");
	} else {
		CHECK(r == 1 && cap_calls == 1 && bs_pos == rp, "C01 H01.tables: temp table read to the same bit position as the reference");
		CHECK(cap_tree == dec.temp_tree && cap_tree_len == sizeof(dec.temp_tree) / sizeof(dec.temp_tree[0]),
		      "C01 H01.tables: temp tree built into the temp tree member with its true length");
		CHECK(cap_n == n, "C01 H01.tables: temp table: number of codes");
		if (idx < n) CHECK(cap_lens[idx] == L[idx], "C01 H01.tables: temp table: code length of every symbol");
#ifdef LENSTUB
		CHECK(lencalls == rlencalls, "C01 H01.tables: temp table: one length value per transmitted entry");
		if (idx < lencalls) CHECK(lenpos[idx] == start + 5 + (idx >= 3 ? 2 : 0),
		                          "C01 H01.tables: temp table: the 2-bit skip field sits between the third and the fourth length value");
#endif
#ifdef NMAXT
		if (n == NMAXT && L[0] >= 9 && z0 == 0 && L[3] == 7) WITNESS("temp: real extended lengths around the skip field");
#else
		if (n >= 8 && L[3] == 0 && L[4] == 0 && L[5] == 0 && L[6] != 0) WITNESS("temp: skip field 3");
		if (n >= 6 && L[5] >= 9) WITNESS("temp: extended length after the skip field");
		if (n == 31) WITNESS("temp: largest table");
#endif
		if (n == 4 && z0 == 3) WITNESS("temp: skip field reaches past the table end");
	}
	WITNESS("end");
}
#endif

/* ================= read_code_table ================= */
#ifdef H_CODE
static u8 tsyms[NC + 1];
static unsigned tsym_i;
static int read_from_tree(BitStreamReader *reader, TreeElement *tree)
{
	(void) reader;
	CHECK(tree == dec.temp_tree, "C01 H01.tables: code table entries are coded with the temp tree");
	CHECK(tsym_i < NC, "harness: at most one temp symbol per table entry");
	return tsyms[tsym_i < NC ? tsym_i++ : NC];
}
void harness_code(void)
{
	INPUT_ARRAY(u32, fields, FMAX);
	INPUT_ARRAY(u8, tsym_in, NC + 1);
	INPUT(u32, navail); INPUT(u32, idx); INPUT(u32, fidx);
	u8 L[NC];
	unsigned n, i, k = 0, single = 0, run, longrun = 0, clipped = 0;
	int r;
	ASSUME(navail <= FMAX);
	for (i = 0; i < FMAX; ++i) fld_val[i] = fields[i];
	fld_avail = navail;
	for (i = 0; i <= NC; ++i) { ASSUME(tsym_in[i] <= 30); tsyms[i] = tsym_in[i]; }
	for (i = 0; i < NC; ++i) L[i] = 0xee;

	n = rbits(9);
	ASSUME(n <= NC);                      /* well-formed: the table has at most NUM_CODES entries */
	if (n == 0) {
		single = rbits(9);
	} else {
		i = 0;
		while (i < n && ref_ok) {
			unsigned t;
#ifdef KMAX
			ASSUME(k < KMAX);             /* this harness: tables written with at most KMAX temp symbols */
#endif
			t = tsyms[k++];
			if (t >= 3) { L[i++] = (u8) (t - 2); continue; }
			if (t == 0) run = 1;
			else if (t == 1) run = 3 + rbits(4);
			else { run = 20 + rbits(9); longrun = 1; }
			if (ref_ok) {
				if (run > n - i) clipped = 1;
				while (run > 0 && i < n) { L[i++] = 0; --run; }
			}
		}
	}

	r = read_code_table(&dec);

	if (ref_ok) {
		CHECK(fld_i == rf_i, "C01 H01.tables: code table reads the same number of bit fields as the reference");
		if (fidx < rf_i) CHECK(fld_w[fidx] == rf_w[fidx], "C01 H01.tables: code table reads bit fields of the same widths in the same order as the reference");
	}
	if (!ref_ok) {
		CHECK(r == 0 && cap_calls == 0, "C01 H01.tables: code table: truncated input fails without building a tree");
	} else if (n == 0) {
		unsigned at = bs_pos;
		CHECK(r == 1 && cap_calls == 0 && bs_pos == rp && tsym_i == 0, "C01 H01.tables: code table n=0 form reads count and symbol only");
		CHECK(real_read_from_tree(&dec.bit_stream_reader, dec.code_tree) == (int) single && bs_pos == at,
		      "C01 H01.tables: code table n=0: every command decodes to the given symbol without consuming bits");
		WITNESS("code n=0");
	} else {
		CHECK(r == 1 && cap_calls == 1 && bs_pos == rp, "C01 H01.tables: code table read to the same bit position as the reference");
		CHECK(tsym_i == k, "C01 H01.tables: code table consumes the same number of temp symbols as the reference");
		CHECK(cap_tree == dec.code_tree && cap_tree_len == sizeof(dec.code_tree) / sizeof(dec.code_tree[0]),
		      "C01 H01.tables: code tree built into the code tree member with its true length");
		CHECK(cap_n == n, "C01 H01.tables: code table: number of codes");
		if (idx < n) CHECK(cap_lens[idx] == L[idx], "C01 H01.tables: code table: code length of every symbol");
		if (longrun && !clipped && n > 21 && L[20] != 0) WITNESS("code: a 20+ zero run followed by a used symbol");
		if (clipped) WITNESS("code: zero run ending at the table end");
#ifdef KMAX
		if (n == NC && k == KMAX) WITNESS("code: full table from KMAX temp symbols");
#else
		if (n == NC && k == NC) WITNESS("code: every entry coded individually");
#endif
	}
	WITNESS("end");
}
#endif

/* ================= read_offset_table ================= */
#ifdef H_OFF
void harness_off(void)
{
	INPUT_ARRAY(u8, stream, BS_N);
	INPUT(u32, nbits); INPUT(u32, start); INPUT(u32, idx);
#ifdef LENSTUB
	INPUT_ARRAY(u8, lens_in, LENSEQ);
#endif
	u8 L[MAX_OFFSET_CODES + 1];
	unsigned n, i, single = 0;
	int r;
	ASSUME(nbits <= 8 * BS_N && start <= 8 && start <= nbits);
	setup_stream(stream, nbits, start);
	for (i = 0; i < sizeof(L); ++i) L[i] = 0xee;
#ifdef LENSTUB
	for (i = 0; i < LENSEQ; ++i) lenseq[i] = lens_in[i];
#endif

#ifdef NMAXO
	ASSUME(nbits < start + OB || bs_ref(start, OB) <= NMAXO);  /* this harness: tables of at most NMAXO entries */
#endif
	r = read_offset_table(&dec);

	n = rbits(OB);
	if (n == 0) {
		single = rbits(OB);
	} else {
		for (i = 0; i < n; ++i) L[i] = (u8) REF_LENGTH();
	}
	if (!ref_ok) {
		CHECK(r == 0 && cap_calls == 0, "C01 H01.tables: offset table: truncated input fails without building a tree");
	} else if (n == 0) {
		unsigned at = bs_pos;
		CHECK(r == 1 && cap_calls == 0 && bs_pos == rp, "C01 H01.tables: offset table n=0 form reads count and symbol only");
		CHECK(read_from_tree(&dec.bit_stream_reader, dec.offset_tree) == (int) single && bs_pos == at,
		      "C01 H01.tables: offset table n=0: every offset code decodes to the given symbol without consuming bits");
		WITNESS("offset n=0");
	} else {
		CHECK(r == 1 && cap_calls == 1 && bs_pos == rp, "C01 H01.tables: offset table read to the same bit position as the reference");
		CHECK(cap_tree == dec.offset_tree && cap_tree_len == sizeof(dec.offset_tree) / sizeof(dec.offset_tree[0]),
		      "C01 H01.tables: offset tree built into the offset tree member with its true length");
		CHECK(cap_n == n, "C01 H01.tables: offset table: number of codes");
		if (idx < n) CHECK(cap_lens[idx] == L[idx], "C01 H01.tables: offset table: code length of every symbol");
#ifdef NMAXO
		if (n == NMAXO && L[1] >= 9) WITNESS("offset: real extended length");
#else
		if (n == MAX_OFFSET_CODES) WITNESS("offset: full table");
		if (n >= 2 && L[1] >= 8) WITNESS("offset: extended length");
#endif
	}
	WITNESS("end");
}
#endif

/* ================= start_new_block ================= */
#ifdef H_BLOCKHDR
static unsigned order[4], calls;
static u8 ok_temp, ok_code, ok_off;
static int read_temp_table(LHANewDecoder *d) { (void) d; if (calls < 4) order[calls] = 1; ++calls; return ok_temp; }
static int read_code_table(LHANewDecoder *d) { (void) d; if (calls < 4) order[calls] = 2; ++calls; return ok_code; }
static int read_offset_table(LHANewDecoder *d) { (void) d; if (calls < 4) order[calls] = 3; ++calls; return ok_off; }
void harness_blockhdr(void)
{
	INPUT_ARRAY(u8, stream, BS_N);
	INPUT(u32, nbits); INPUT(u32, start); INPUT(u32, rem0);
	INPUT(u8, r_temp); INPUT(u8, r_code); INPUT(u8, r_off);
	unsigned count;
	int r;
	ASSUME(nbits <= 8 * BS_N && start <= 8 && start <= nbits);
	ASSUME(r_temp <= 1 && r_code <= 1 && r_off <= 1);
	setup_stream(stream, nbits, start);
	ok_temp = r_temp; ok_code = r_code; ok_off = r_off;
	dec.block_remaining = rem0;
	r = start_new_block(&dec);
	count = rbits(16);
	if (!ref_ok) {
		CHECK(r == 0 && calls == 0, "C01 H01.tables: block header: no 16-bit count, no block");
	} else {
		CHECK(bs_pos == rp, "C01 H01.tables: block header starts with a 16-bit command count");
		CHECK(calls >= 1 && order[0] == 1, "C01 H01.tables: block header: temp table first");
		if (r_temp) CHECK(calls >= 2 && order[1] == 2, "C01 H01.tables: block header: code table second");
		if (r_temp && r_code) CHECK(calls == 3 && order[2] == 3, "C01 H01.tables: block header: offset table third");
		CHECK(r == (r_temp && r_code && r_off), "C01 H01.tables: block header succeeds iff all three tables do");
		CHECK(calls == 1u + (r_temp ? 1u : 0u) + (r_temp && r_code ? 1u : 0u), "C01 H01.tables: block header stops at the first failing table");
		if (r) CHECK(dec.block_remaining == count, "C01 H01.tables: block_remaining = the 16-bit command count");
		if (r && count == 65535) WITNESS("largest block");
		if (r && count == 0) WITNESS("empty block");
	}
	WITNESS("end");
}
#endif
