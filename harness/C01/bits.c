/* Bit-stream reader refinement (shared by C01-C04, C09): from an ARBITRARY reader state satisfying
 * Rep(p) - bits <= 32, the top 'bits' bits of bit_buffer are stream bits p..p+bits, the rest are zero, the
 * callback has delivered exactly (p+bits)/8 bytes - one peek/read of n bits returns stream bits p..p+n
 * (most significant first) and re-establishes Rep(p+n), or -1 exactly when fewer than n bits remain.
 * Inductive, hence valid after any number of reads.  The callback delivers arbitrary short reads.
 * In safety mode the same run carries CBMC's memory/shift checks for n up to 32. */
#define CB_N 6
#define CB_CALLS 4
#include "stream_cb.h"
#include "lib/lha_decoder.h"
#include "lib/bit_stream_reader.c"

static int rep(const BitStreamReader *r, unsigned p)
{
	unsigned b = r->bits;
	if (b > 32) return 0;
	if ((p + b) % 8 != 0 || cb_pos * 8 != p + b) return 0;
	if (b == 0) return r->bit_buffer == 0;
	return r->bit_buffer == (u32) (((u64) ref_bits(p, b)) << (32 - b));
}

void harness(void)
{
	INPUT_ARRAY(u8, data, CB_N);
	INPUT_ARRAY(u8, shorts, CB_CALLS);
	INPUT(u32, slen); INPUT(u32, p); INPUT(u32, bits); INPUT(u32, n); INPUT(u8, consume);
	BitStreamReader r;
	unsigned i, total;
	int v;
	ASSUME(slen <= CB_N && bits <= 32 && n <= NMAX && p <= 8 * CB_N);
	for (i = 0; i < CB_N; ++i) cb_data[i] = data[i];
	for (i = 0; i < CB_CALLS; ++i) cb_short[i] = shorts[i];
	cb_len = slen;
	total = slen * 8;
	ASSUME(p + bits <= total && (p + bits) % 8 == 0);
	bit_stream_reader_init(&r, cb_read, 0);
	CHECK(r.bits == 0 && r.bit_buffer == 0, "init: empty buffer");
	cb_pos = (p + bits) / 8;
	r.bits = bits;
	r.bit_buffer = bits == 0 ? 0 : (u32) (((u64) ref_bits(p, bits)) << (32 - bits));
	ASSUME(rep(&r, p));
	v = (consume & 1) ? read_bits(&r, n) : peek_bits(&r, n);
	if (n <= 25) {
		if (p + n <= total) {
			CHECK(v >= 0 && (unsigned) v == ref_bits(p, n), "returns the next n bits, most significant first");
			CHECK(rep(&r, (consume & 1) ? p + n : p), "representation invariant re-established at the new position");
		} else {
			CHECK(v == -1, "fails exactly when fewer than n bits remain");
			CHECK(r.bits <= 32, "buffer fill stays within 32 bits after a failure");
		}
	}
	CHECK(r.bits <= 32, "bits <= 32 is preserved for every request size");
	if (n == 25 && bits == 24 && v >= 0) WITNESS("largest exact request on a nearly full buffer");
	if (n == 9 && bits == 0 && shorts[0] == 1 && v >= 0) WITNESS("refill with a short read");
	WITNESS("end");
}
