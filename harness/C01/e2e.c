/* C01 H01.e2e: glue check without any stub: the real -lh5- decoder type (lib/lh5_decoder.c: bit reader, table
 * readers, tree builder, tree walk, ring) is initialised and read through its init/read entry points on a byte
 * stream SERIALISED here from a command list, and the output is compared with the LZ77 expansion of that list
 * over the initial window.  harness_init: the real init fills the window with spaces (every cell) and sets the
 * other fields; harness: the real read path from that state with the window contents generalised to ARBITRARY
 * (SPLIT_INIT; the reference expansion reads the initial window where a copy reaches before the output start).
 *
 * Stream (two blocks, all three tables of each block in their single-symbol form):
 *   block 1: NLIT commands; temp table n=0 (symbol T1, unused); code table n=0, symbol C1 < 256 -> every command
 *            is the literal C1 and takes no bits; offset table n=0 (symbol P1, unused)
 *   block 2: NCOPY commands; code table n=0, symbol C2 >= 256 -> every command is a copy of length C2-253;
 *            offset table n=0, symbol P2 -> every distance has P2 bits: 0, or 1 followed by P2-1 stream bits
 *   then the extra bits of the copies.
 * The table prefix (2 x 52 bits = 13 bytes) is CONCRETE - one catalogue entry per harness instance, chosen by the
 * defines C1V, C2V, P2V, T1V, P1V - so that symbolic execution folds the table reading; SYMBOLIC are the extra
 * bits of the copies, i.e. the distances (all 2^(P2-1) values each).
 */
#ifndef C1V
#define C1V 0x41
#endif
#ifndef C2V
#define C2V (256 + 5)
#endif
#ifndef P2V
#define P2V 14
#endif
#ifndef T1V
#define T1V 7
#endif
#ifndef P1V
#define P1V 3
#endif
#ifndef CB_N
#define CB_N 20
#endif
#define CB_CALLS 40
#include "stream_cb.h"
#include <string.h>
#include "lib/lh5_decoder.c"

#ifndef NLIT
#define NLIT 2
#endif
#ifndef NCOPY
#define NCOPY 2
#endif
#ifndef LENMAX
#define LENMAX 8
#endif
#define TOTAL (NLIT + NCOPY * LENMAX)

static LHANewDecoder dec;
static unsigned wp;
static void put(unsigned v, unsigned n)
{
	unsigned i;
	for (i = 0; i < n; ++i) {
		unsigned bit = (v >> (n - 1 - i)) & 1u;
		cb_data[wp >> 3] |= (u8) (bit << (7 - (wp & 7)));
		++wp;
	}
}

void harness(void)
{
	INPUT_ARRAY(u32, extra, NCOPY);
#ifdef SPLIT_INIT
	LHANewDecoder w0;                      /* arbitrary initial window (uninitialised = nondet) */
#define WINDOW(k) (w0.ringbuf[k])
#else
#define WINDOW(k) ((u8) ' ')
#endif
	const unsigned c1 = C1V, c2 = C2V, p2 = P2V, t1 = T1V, p1 = P1V;   /* concrete table prefix (one catalogue entry) */
	static u8 S[TOTAL];                    /* reference expansion */
	static u8 out[LENMAX > 8 ? LENMAX : 8];    /* functional harness: only the bytes of one command are written */
	unsigned i, c, t, len, d[NCOPY];
	size_t n;

	CHECK(c1 < 256 && c2 >= 256 && c2 < 510 && c2 - 253 <= LENMAX && p2 <= 14 && t1 < 32 && p1 < 16, "harness: catalogue entry well-formed");
	for (i = 0; i < CB_CALLS; ++i) cb_short[i] = 1;      /* callback delivers one byte per call, so that no symbolic byte enters the
	                                                          bit buffer before the (byte-aligned, 13-byte) concrete table prefix is used up */
	len = c2 - 253;

	/* serialise */
	put(NLIT, 16);
	put(0, 5); put(t1, 5);
	put(0, 9); put(c1, 9);
	put(0, 4); put(p1, 4);
	put(NCOPY, 16);
	put(0, 5); put(t1, 5);
	put(0, 9); put(c2, 9);
	put(0, 4); put(p2, 4);
	for (c = 0; c < NCOPY; ++c) {
		if (p2 == 0) d[c] = 0;
		else {
			ASSUME(extra[c] < (1u << (p2 - 1)));
			put(extra[c], p2 - 1);
			d[c] = (1u << (p2 - 1)) | extra[c];
		}
	}
	cb_len = (wp + 7) / 8;
	CHECK(cb_len <= CB_N, "harness: stream fits");

	/* LZ77 expansion of the command list; positions before the start of the output read the
	 * initial window (all spaces after init) */
	t = 0;
	for (i = 0; i < NLIT; ++i) S[t++] = (u8) c1;
	for (c = 0; c < NCOPY; ++c) {
		for (i = 0; i < LENMAX; ++i) {
			if (i < len) {
				S[t] = t >= d[c] + 1 ? S[t - d[c] - 1] : WINDOW((RING_BUFFER_SIZE + t - d[c] - 1) % RING_BUFFER_SIZE);
				++t;
			}
		}
	}

#ifdef SPLIT_INIT
	/* the state lha_lh_new_init establishes, generalised: position 0, no block open, empty bit buffer; the window
	 * contents W are ARBITRARY here (the reference expansion reads W where a copy reaches before the start of the
	 * output) and so are the tree contents (the first block header overwrites what it needs).  harness_init shows
	 * on the real init that W is all spaces and the other fields are as set here. */
	dec = w0;
	dec.ringbuf_pos = 0;
	dec.block_remaining = 0;
	bit_stream_reader_init(&dec.bit_stream_reader, cb_read, 0);
#else
	CHECK(lha_lh5_decoder.init(&dec, cb_read, 0) == 1, "C01 H01.e2e: init succeeds");
#endif
	t = 0;
	for (i = 0; i < NLIT; ++i) {
		n = lha_lh5_decoder.read(&dec, out);
		CHECK(n == 1 && out[0] == S[t], "C01 H01.e2e: literal commands of block 1");
		t += 1;
	}
	for (c = 0; c < NCOPY; ++c) {
		n = lha_lh5_decoder.read(&dec, out);
		CHECK(n == len, "C01 H01.e2e: copy command yields its length");
		for (i = 0; i < LENMAX; ++i) {
			if (i < len) CHECK(out[i] == S[t + i], "C01 H01.e2e: copy output equals the LZ77 expansion over the space-filled window");
		}
		t += len;
	}
#if P2V == 3
	if (d[0] == 4 && len >= 6) WITNESS("copy mixes pre-filled window, literals and its own output");
#endif
#if P2V == 14
	if (d[NCOPY - 1] == 16383) WITNESS("largest distance the ring can address");
#endif
	WITNESS("end");
}

/* init alone, real memset: the window is all spaces (any cell), position 0, first read starts a block, bit buffer
 * empty, and every tree is in its initial all-leaves state */
void harness_init(void)
{
	INPUT(u32, probe); INPUT(u32, tprobe);
	ASSUME(probe < RING_BUFFER_SIZE && tprobe < NUM_CODES * 2);
	CHECK(lha_lh5_decoder.init(&dec, cb_read, 0) == 1, "C01 H01.e2e: init succeeds");
	CHECK(dec.ringbuf[probe] == ' ', "C01 H01.e2e: the window starts filled with spaces");
	CHECK(dec.ringbuf_pos == 0 && dec.block_remaining == 0, "C01 H01.e2e: write position 0; the first read starts a block");
	CHECK(dec.bit_stream_reader.bits == 0 && dec.bit_stream_reader.bit_buffer == 0 && dec.bit_stream_reader.callback == cb_read,
	      "C01 H01.e2e: empty bit buffer bound to the caller's callback");
	CHECK(dec.code_tree[tprobe] == TREE_NODE_LEAF, "C01 H01.e2e: code tree initialised");
	if (tprobe < MAX_OFFSET_CODES * 2) CHECK(dec.offset_tree[tprobe] == TREE_NODE_LEAF, "C01 H01.e2e: offset tree initialised");
	if (tprobe < MAX_TEMP_CODES * 2) CHECK(dec.temp_tree[tprobe] == TREE_NODE_LEAF, "C01 H01.e2e: temp tree initialised");
	if (probe == RING_BUFFER_SIZE - 1) WITNESS("last window cell");
	WITNESS("end");
}
