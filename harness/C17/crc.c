/* C17: lha_crc16_buf is CRC-16/ARC, and piecewise == whole. */
#include "verif.h"
#include "ref_crc16.h"
#include "lib/crc16.c"

#ifndef MAXLEN
#define MAXLEN 4
#endif

/* all 2^24 (state, byte) pairs in one query */
void harness_step(void)
{
	INPUT(u16, c0);
	INPUT(u8, b);
	uint16_t c = c0;
	uint8_t buf[1];
	buf[0] = b;
	lha_crc16_buf(&c, buf, 1);
	CHECK(c == ref_crc16_step(c0, b), "one step equals the bitwise CRC-16/ARC definition");
	/* length 0 leaves the state alone */
	uint16_t z = c0;
	lha_crc16_buf(&z, buf, 0);
	CHECK(z == c0, "empty buffer leaves the state unchanged");
	WITNESS("step");
}

/* buffers of symbolic length <= MAXLEN, symbolic split point */
void harness_split(void)
{
	INPUT(u16, c0);
	INPUT_ARRAY(u8, data, MAXLEN);
	INPUT(u32, len);
	INPUT(u32, cut);
	ASSUME(len <= MAXLEN);
	ASSUME(cut <= len);
	uint16_t whole = c0, parts = c0;
	lha_crc16_buf(&whole, data, len);
	lha_crc16_buf(&parts, data, cut);
	lha_crc16_buf(&parts, data + cut, len - cut);
	CHECK(whole == ref_crc16(c0, data, len), "whole buffer equals the bitwise reference");
	CHECK(parts == whole, "feeding in two pieces equals feeding whole");
	if (len == MAXLEN && cut > 0 && cut < len) WITNESS("full length, proper split");
}
