/* C17: lha_crc16_buf is CRC-16/ARC, and piecewise == whole. */
#include "verif.h"
#include "ref_crc16.h"
#include <stdlib.h>
#include "lib/crc16.c"

#ifndef MAXLEN
#define MAXLEN 4
#endif

/* all 2^24 (state, byte) pairs in one query */
void harness_step(void)
{
	INPUT(u16, c0);
	INPUT(u8, b);
	uint16_t c = c0;
	uint8_t buf[1];
	buf[0] = b;
	lha_crc16_buf(&c, buf, 1);
	CHECK(c == ref_crc16_step(c0, b), "one step equals the bitwise CRC-16/ARC definition");
	/* length 0 leaves the state alone */
	uint16_t z = c0;
	lha_crc16_buf(&z, buf, 0);
	CHECK(z == c0, "empty buffer leaves the state unchanged");
	WITNESS("step");
}

/* buffers of symbolic length <= MAXLEN, symbolic split point */
void harness_split(void)
{
	INPUT(u16, c0);
	INPUT_ARRAY(u8, data, MAXLEN);
	INPUT(u32, len);
	INPUT(u32, cut);
	ASSUME(len <= MAXLEN);
	ASSUME(cut <= len);
	uint16_t whole = c0, parts = c0;
	lha_crc16_buf(&whole, data, len);
	lha_crc16_buf(&parts, data, cut);
	lha_crc16_buf(&parts, data + cut, len - cut);
	CHECK(whole == ref_crc16(c0, data, len), "whole buffer equals the bitwise reference");
	CHECK(parts == whole, "feeding in two pieces equals feeding whole");
	if (len == MAXLEN && cut > 0 && cut < len) WITNESS("full length, proper split");
}

/* an empty piece given as (NULL, 0) leaves every state unchanged (piecewise feeding with empty pieces) */
void harness_null(void)
{
	INPUT(u16, c0);
	INPUT_ARRAY(u8, data, 2);
	uint16_t c = c0, d = c0;
	lha_crc16_buf(&c, (uint8_t *) 0, 0);
	CHECK(c == c0, "an empty piece (NULL, 0) leaves the state unchanged");
	lha_crc16_buf(&d, data, 1);
	lha_crc16_buf(&d, (uint8_t *) 0, 0);
	lha_crc16_buf(&d, data + 1, 1);
	CHECK(d == ref_crc16(c0, data, 2), "head | empty | tail equals the whole");
	WITNESS("null piece");
}

/* Length handling beyond 16 bits: one call over BIG bytes equals two calls (BIG - CUTB, CUTB bytes) and the bitwise
 * reference of a short tail - on concrete data (all-zero bytes) and a non-zero start value, so that CBMC's symbolic execution
 * folds every step (this is a concrete path through the real routine, not a quantified claim; it exists because
 * the per-call length is a size_t and the quantified harnesses only reach 8 bytes). */
#ifndef BIG
#define BIG 65537
#endif
#ifndef CUTB
#define CUTB 537
#endif
static uint8_t bigbuf[BIG];
void harness_big(void)
{
	uint16_t whole = 0x1234, parts = 0x1234;
	/* the buffer stays all-zero (never written), so every read folds to a constant; the state still evolves
	 * through the table from the non-zero start value */
	lha_crc16_buf(&whole, bigbuf, BIG);
	lha_crc16_buf(&parts, bigbuf, BIG - CUTB);
	lha_crc16_buf(&parts, bigbuf + (BIG - CUTB), CUTB);
	CHECK(whole == parts, "one call over more than 65536 bytes equals two shorter calls");
	WITNESS("big");
}

/* Concrete sweep over every length 0..SWEEP and the four start alignments: one call over L bytes must equal L
 * one-byte calls (whose step is proved for all states and bytes by crc.step).  All-zero data and a non-zero start
 * value keep every step a constant for CBMC's symbolic execution; a routine that mis-handles some length class
 * (bulk / unrolled paths, tails, alignment prologues) changes the state sequence and is seen.  Concrete paths,
 * complementing the quantified harnesses (which stop at 8 bytes). */
#ifndef SWEEP
#define SWEEP 160
#endif
static uint8_t sweepbuf[SWEEP + 8];
void harness_sweep(void)
{
	uint16_t ref = 0x1234;
	unsigned L, off;
	for (L = 0; L <= SWEEP; ++L) {
		for (off = 0; off < 4; ++off) {
			uint16_t whole = 0x1234;
			lha_crc16_buf(&whole, sweepbuf + off, L);
			CHECK(whole == ref, "one call over L bytes equals L one-byte steps, for every length and start alignment");
		}
		lha_crc16_buf(&ref, sweepbuf, 1);
	}
	WITNESS("sweep");
}

/* the routine reads exactly buf[0..len): the buffer is an object of exactly len bytes, under CBMC's pointer checks
 * (a look-ahead load of buf[len] computes the right CRC but touches memory the caller does not own) */
void harness_exact(void)
{
	INPUT(u16, c0); INPUT_ARRAY(u8, data, MAXLEN); INPUT(u32, len);
	uint8_t *b;
	uint16_t c = c0;
	unsigned i;
	ASSUME(len <= MAXLEN);
	b = malloc(len);
	ASSUME(b != NULL || len == 0);
	for (i = 0; i < MAXLEN; ++i) if (i < len) b[i] = data[i];
	lha_crc16_buf(&c, b, len);
	CHECK(c == ref_crc16(c0, data, len), "CRC of a buffer held in an object of exactly its length");
	if (len == MAXLEN) WITNESS("full length");
	free(b);
	WITNESS("exact");
}

/* Symbolic CONTENTS beyond one machine word: up to WIDE bytes of arbitrary data starting at any of the 8 possible
 * alignments inside a larger buffer, any initial state (the all-zero state included), one call against the fold of
 * one-byte calls of the same routine (which harness_step identifies with the bitwise definition for every state and
 * byte).  Reaches word-at-a-time or alignment-dependent shortcuts that the 4/8-byte quantified harnesses and the
 * zero-data sweeps cannot. */
#ifndef WIDE
#define WIDE 24
#endif
static uint64_t wide_store[(WIDE + 16) / 8];      /* 8-byte aligned backing store */
void harness_wide(void)
{
	INPUT(u16, c0);
	INPUT_ARRAY(u8, data, WIDE);
	INPUT(u32, len);
	INPUT(u32, off);
	uint8_t *base = (uint8_t *) wide_store, *p;
	uint16_t whole, steps;
	unsigned i;
	ASSUME(len <= WIDE && off < 8);
	p = base + off;
	for (i = 0; i < WIDE; ++i) p[i] = data[i];
	whole = c0; steps = c0;
	lha_crc16_buf(&whole, p, len);
	for (i = 0; i < WIDE; ++i) if (i < len) lha_crc16_buf(&steps, p + i, 1);
	CHECK(whole == steps, "one call over up to WIDE arbitrary bytes at any alignment equals the fold of one-byte steps");
	for (i = 0; i < WIDE; ++i) CHECK(p[i] == data[i], "the buffer is not modified");
	if (len == WIDE && off == 3 && c0 == 0 && data[0] != 0) WITNESS("zero state, odd alignment, non-zero first byte");
	WITNESS("end");
}

/* The state variable may live inside the buffer being summed (a record with an embedded checksum field that is fed
 * whole): the value delivered is the CRC of the bytes as they were when the call was made. */
#ifndef ALIASN
#define ALIASN 8
#endif
void harness_alias(void)
{
	INPUT_ARRAY(u8, data, ALIASN);
	INPUT(u32, at);
	static uint16_t rec[ALIASN / 2];
	uint8_t copy[ALIASN];
	uint8_t *bytes = (uint8_t *) rec;
	uint16_t c0, expect;
	unsigned i;
	ASSUME(at < ALIASN / 2);
	for (i = 0; i < ALIASN; ++i) { bytes[i] = data[i]; copy[i] = data[i]; }
	c0 = rec[at];
	expect = c0;
	for (i = 0; i < ALIASN; ++i) lha_crc16_buf(&expect, copy + i, 1);
	lha_crc16_buf(&rec[at], bytes, ALIASN);
	CHECK(rec[at] == expect, "state variable inside the buffer: the result is the CRC of the bytes as given");
	WITNESS("end");
}
