/* C07 (exit status): the REAL main() / do_command() of src/main.c together with the REAL command loops test_file_crc /
 * extract_archive of src/extract.c, over an archive of up to NM members whose per-member verdicts are arbitrary.
 * The per-member functions (test_archived_file_crc, extract_archived_file: exit.m3 and verdict.*) are replaced by
 * stubs (driver: rename_defs), so one loop iteration is a counter step and the member count can be large.
 * Claim: the exit status the operating system reports (the low 8 bits of main's return value) is 0 exactly when no
 * selected member failed - stated on main(), so it does not depend on the return conventions between the functions. */
#include "verif.h"
#include <stdio.h>
#include <stdlib.h>
#include <string.h>
#include <errno.h>
#ifndef NM
#define NM 260
#endif
#define main lha_main
#define exit verif_exit
static void verif_exit(int c) { (void) c; ASSUME(0); }
#define fopen verif_fopen
#define fclose verif_fclose
static char token_file;
static FILE *verif_fopen(const char *n, const char *m) { (void) n; (void) m; return (FILE *) &token_file; }
static int verif_fclose(FILE *f) { (void) f; return 0; }
int verif_printf_noop(const char *f, ...) { (void) f; return 0; }
#include "src/main.c"
#undef main
#include "src/extract.c"

static struct _LHAInputStream { int d; } the_stream;
static struct _LHAReader { int d; } the_reader;
LHAInputStream *lha_input_stream_from_FILE(FILE *f) { (void) f; return (LHAInputStream *) &the_stream; }
LHAReader *lha_reader_new(LHAInputStream *s) { (void) s; return (LHAReader *) &the_reader; }
void lha_reader_free(LHAReader *r) { (void) r; }
void lha_input_stream_free(LHAInputStream *s) { (void) s; }
void lha_filter_init(LHAFilter *f, LHAReader *r, char **filters, unsigned int n) { f->reader = r; f->filters = filters; f->num_filters = n; }
void list_file_basic(LHAFilter *f, LHAOptions *o, FILE *fs) { (void) f; (void) o; (void) fs; }
void list_file_verbose(LHAFilter *f, LHAOptions *o, FILE *fs) { (void) f; (void) o; (void) fs; }
int safe_printf(char *format, ...) { (void) format; return 0; }
int safe_fprintf(FILE *stream, char *format, ...) { (void) stream; (void) format; return 0; }

static LHAFileHeader one_header;
static unsigned served, nmembers, failed, decided;
SEQ_DECL(u8, verdict);
LHAFileHeader *lha_filter_next_file(LHAFilter *filter) { (void) filter; if (served >= nmembers) return NULL; ++served; return &one_header; }
#ifdef REAL_MEMBERS
/* small member count, REAL per-member functions: the reader's verdict (lha_reader_check / lha_reader_extract) is arbitrary */
static char one_name[2] = "a";
int lha_reader_check(LHAReader *r, LHADecoderProgressCallback cb, void *d)
{
	int ok = SEQ_NEXT(u8, verdict) & 1;
	(void) r;
	if (SEQ_NEXT(u8, verdict) & 1) cb(0, 1, d);       /* the progress callback is invoked or not (e.g. unsupported method) */
	++decided; if (!ok) ++failed;
	return ok;
}
int lha_reader_extract(LHAReader *r, char *f, LHADecoderProgressCallback cb, void *d)
{
	int ok = SEQ_NEXT(u8, verdict) & 1;
	(void) r; (void) f;
	if (SEQ_NEXT(u8, verdict) & 1) cb(0, 1, d);
	++decided; if (!ok) ++failed;
	return ok;
}
int lha_reader_current_is_fake(LHAReader *r) { (void) r; return 0; }
size_t lha_reader_read(LHAReader *r, void *b, size_t n) { (void) r; (void) b; (void) n; return 0; }
LHAFileType lha_arch_exists(char *f) { (void) f; return LHA_FILE_NONE; }
int lha_arch_mkdir(char *p, unsigned int m) { (void) p; (void) m; return 1; }
#else
/* replace the real per-member functions (renamed real_* by the driver) */
static int test_archived_file_crc(LHAReader *reader, LHAFileHeader *header, LHAOptions *options)
{
	int ok = SEQ_NEXT(u8, verdict) & 1;
	(void) reader; (void) header; (void) options;
	++decided; if (!ok) ++failed;
	return ok;
}
static int extract_archived_file(LHAReader *reader, LHAFileHeader *header, LHAOptions *options)
{
	int ok = SEQ_NEXT(u8, verdict) & 1;
	(void) reader; (void) header; (void) options;
	++decided; if (!ok) ++failed;
	return ok;
}
#endif

void harness(void)
{
	INPUT(u32, n);
	static char s_prog[] = "lha", s_cmd[] = CMDWORD, s_arc[] = "a";
	char *argv[4];
	int rc;
	ASSUME(n <= NM);
	nmembers = n;
#ifdef REAL_MEMBERS
	memset(&one_header, 0, sizeof(one_header));
	one_header.filename = one_name;
	memcpy(one_header.compress_method, "-lh5-", 6);
#endif
	argv[0] = s_prog; argv[1] = s_cmd; argv[2] = s_arc; argv[3] = NULL;
	rc = lha_main(3, argv);
	CHECK(decided == n, "every selected member is tested/extracted exactly once");
	CHECK(((rc & 0xff) == 0) == (failed == 0), "C07: the exit status (low 8 bits of main's return value) is 0 exactly when no selected member failed");
	if (failed == 256) WITNESS("256 members failed");
	if (n == NM && failed == 0) WITNESS("all of the members good");
	WITNESS("end");
}
