/* C07: lha_reader_check / lha_reader_extract report success  <=>  bytes produced == header.length
 * and CRC-16(bytes) == header.crc (and, for extract, every write completed).
 * Real: lib/lha_reader.c (this TU), lib/lha_basic_reader.c, lib/lha_decoder.c, lib/crc16.c,
 * lib/lha_file_header.c (free/add_ref/full_path).  Stubbed: the header parser (installs an arbitrary
 * header), the method table (scripted decoder), input stream, arch layer, stdio. */
#include "verif.h"
#include "ref_crc16.h"
#include <stdio.h>
#include <stdlib.h>
#include <string.h>
#include <limits.h>
#include "lib/lha_decoder.h"
#include "lib/lha_reader.c"

#ifndef CH
#define CH 2
#endif
#ifndef MAXCH
#define MAXCH 2
#endif
#define TOT (CH * MAXCH)

/* libc memcpy model: byte loop (lengths are bounded by the scripted decoder's max_read here) */
void *verif_memcpy(void *d, const void *s, size_t n)
{
	size_t i;
	for (i = 0; i < n; ++i) ((u8 *) d)[i] = ((const u8 *) s)[i];
	return d;
}

/* ---- scripted decoder (symbolic chunks; 0-length chunk = decoder failure / end of data) ---- */
static u8 sc_len[CH];
static u8 sc_data[CH][MAXCH];
typedef struct { unsigned next; } Script;
static size_t script_read(void *extra, uint8_t *buf)
{
	Script *s = extra;
	unsigned i, n;
	if (s->next >= CH) return 0;
	n = sc_len[s->next];
	for (i = 0; i < MAXCH; ++i) if (i < n) buf[i] = sc_data[s->next][i];
	++s->next;
	return n;
}
static int script_init(void *extra, LHADecoderCallback cb, void *cbd) { ((Script *) extra)->next = 0; (void) cb; (void) cbd; return 1; }
static LHADecoderType script_type = { script_init, NULL, script_read, sizeof(Script), MAXCH, 2 };
static int method_supported;
LHADecoderType *lha_decoder_for_name(char *name) { (void) name; return method_supported ? &script_type : NULL; }

/* ---- typed arena for the three calloc'ed objects (see DESIGN 3.3) ---- */
struct _LHABasicReaderShadow { LHAInputStream *stream; LHAFileHeader *curr_file; size_t curr_file_remaining; int eof; };
static LHAReader ar_reader;
static struct _LHABasicReaderShadow ar_basic;
static struct { struct _LHADecoder d; Script st; u8 out[MAXCH]; } ar_dec;
void *verif_calloc(size_t n, size_t sz)
{
	size_t t = n * sz;
	if (t == sizeof(LHAReader)) { memset(&ar_reader, 0, sizeof(ar_reader)); return &ar_reader; }
	if (t == sizeof(ar_basic)) { memset(&ar_basic, 0, sizeof(ar_basic)); return &ar_basic; }
	if (t == sizeof(struct _LHADecoder) + sizeof(Script) + MAXCH) { memset(&ar_dec, 0, sizeof(ar_dec)); return &ar_dec; }
	return NULL;
}

/* ---- header parser stub: one member with arbitrary recorded length / CRC ---- */
static LHAFileHeader hdr;
static char name_buf[2] = "f";
static unsigned hdr_served;
LHAFileHeader *lha_file_header_read(LHAInputStream *stream)
{
	(void) stream;
	if (hdr_served) return NULL;
	hdr_served = 1;
	return &hdr;
}
void lha_file_header_free(LHAFileHeader *h) { (void) h; }
void lha_file_header_add_ref(LHAFileHeader *h) { (void) h; }
char *lha_file_header_full_path(LHAFileHeader *h) { (void) h; return NULL; }

/* ---- input stream / arch / stdio stubs ---- */
int lha_input_stream_read(LHAInputStream *s, void *buf, size_t n) { (void) s; (void) buf; (void) n; return 0; }
int lha_input_stream_skip(LHAInputStream *s, size_t n) { (void) s; (void) n; return 1; }
LHADecoder *lha_macbinary_passthrough(LHADecoder *d, LHAFileHeader *h) { (void) d; (void) h; return NULL; }
static int fopen_ok, utime_called;
static FILE *fake_file = (FILE *) &fopen_ok;
FILE *lha_arch_fopen(char *f, int u, int g, int p) { (void) f; (void) u; (void) g; (void) p; return fopen_ok ? fake_file : NULL; }
int lha_arch_utime(char *f, unsigned int t) { (void) f; (void) t; utime_called = 1; return 1; }
int lha_arch_mkdir(char *p, unsigned int m) { (void) p; (void) m; return 1; }
int lha_arch_chown(char *f, int u, int g) { (void) f; (void) u; (void) g; return 1; }
int lha_arch_chmod(char *f, int p) { (void) f; (void) p; return 1; }
int lha_arch_symlink(char *p, char *t) { (void) p; (void) t; return 1; }
LHAFileType lha_arch_exists(char *f) { (void) f; return LHA_FILE_NONE; }
static u8 wr_short[4];           /* per fwrite call: 1 = short write */
static unsigned wr_calls, wr_bytes, wr_failed;
static u8 written[TOT + 2];
size_t verif_fwrite(const void *p, size_t sz, size_t n, FILE *f)
{
	size_t i, k = n;
	(void) f; (void) sz;
	if (wr_calls < 4 && wr_short[wr_calls] && n > 0) { k = n - 1; wr_failed = 1; }
	++wr_calls;
	for (i = 0; i < k; ++i) if (wr_bytes + i < TOT + 2) written[wr_bytes + i] = ((const u8 *) p)[i];
	wr_bytes += (unsigned) k;
	return k;
}
int verif_fclose(FILE *f) { (void) f; return 0; }

void harness(void)
{
	INPUT_ARRAY(u8, lens, CH);
	INPUT_ARRAY(u8, bytes, CH * MAXCH);
	INPUT_ARRAY(u8, wshort, 4);
	INPUT(u32, h_length);
	INPUT(u16, h_crc);
	INPUT(u8, mode);           /* 0 = check, 1 = extract */
	INPUT(u8, supported);
	INPUT(u8, fopen_succeeds);
	INPUT(u8, os_type);
	unsigned i, avail = 0, stopped = 0, produced;
	u8 flat[TOT];
	LHAReader *reader;
	LHAFileHeader *h;
	int verdict;

	for (i = 0; i < CH; ++i) { ASSUME(lens[i] <= MAXCH); sc_len[i] = lens[i]; }
	for (i = 0; i < CH * MAXCH; ++i) sc_data[i / MAXCH][i % MAXCH] = bytes[i];
	for (i = 0; i < 4; ++i) wr_short[i] = wshort[i] & 1;
	ASSUME(os_type != LHA_OS_TYPE_MACOS);          /* MacBinary pass-through: separate harness */
	method_supported = supported & 1;
	fopen_ok = fopen_succeeds & 1;
	memset(&hdr, 0, sizeof(hdr));
	hdr._refcount = 1;
	hdr.filename = name_buf;
	memcpy(hdr.compress_method, "-lh5-", 6);
	hdr.length = h_length;
	hdr.crc = h_crc;
	hdr.os_type = os_type;

	/* what the member decodes to, independent of the reader: chunks up to the first empty one,
	 * cut at the recorded length (the decoder is created with the header's length) */
	{
		unsigned k = 0, c, j;
		for (c = 0; c < CH; ++c) {
			if (!stopped) {
				if (sc_len[c] == 0) stopped = 1;
				else for (j = 0; j < MAXCH; ++j) if (j < sc_len[c]) { flat[k] = sc_data[c][j]; ++k; }
			}
		}
		avail = k;
	}
	produced = avail < h_length ? avail : h_length;

	reader = lha_reader_new(NULL);
	ASSUME(reader != NULL);
	h = lha_reader_next_file(reader);
	CHECK(h == &hdr, "first member is presented");
#ifdef PRE_OP
	/* an earlier operation on the same member (a check, or a partial read) must not lend its result to this one */
	{
		INPUT(u8, pre);
		if (pre & 1) (void) lha_reader_check(reader, NULL, NULL);
		else { u8 one[1]; (void) lha_reader_read(reader, one, 1); }
		wr_calls = 0; wr_bytes = 0; wr_failed = 0;
	}
#endif
	if (mode & 1) verdict = lha_reader_extract(reader, "out", NULL, NULL);
	else verdict = lha_reader_check(reader, NULL, NULL);

	{
		int good = method_supported && produced == h_length && ref_crc16(0, flat, produced) == h_crc;
		if (mode & 1) {
			good = good && fopen_ok && !wr_failed;
			CHECK(!verdict || good, "extract reports success only if length and CRC match and every write completed");
			CHECK(verdict || !good, "extract of a matching member with a writable output reports success");
			if (verdict) {
				CHECK(wr_bytes == produced, "extract wrote exactly the decoded bytes");
				for (i = 0; i < TOT; ++i) if (i < produced) CHECK(written[i] == flat[i], "extract wrote the decoded bytes in order");
			}
		} else {
			CHECK(!verdict || good, "check reports success only if length and CRC match");
			CHECK(verdict || !good, "check of a supported member whose length and CRC match reports success");
		}
	}
	if (verdict && (mode & 1) && produced == TOT) WITNESS("successful extract of a full-length member");
	if (!verdict && !(mode & 1) && produced == h_length && method_supported) WITNESS("check fails on CRC alone");
	if (!verdict && produced < h_length && method_supported) WITNESS("truncated member reported bad");
	WITNESS("end");
}
