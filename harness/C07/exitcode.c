/* C07: the test and extract commands return failure whenever any selected member fails
 * (real src/extract.c command loops and per-member functions; reader results are arbitrary). */
#include "verif.h"
#include <stdio.h>
#include <stdlib.h>
#include <string.h>
#include "src/extract.c"

#ifndef M
#define M 3
#endif
static LHAFileHeader hdrs[M];
static char names[M][2];
static unsigned served, nmembers;
static u8 results[M];
static unsigned any_failed, decided;

LHAFileHeader *lha_filter_next_file(LHAFilter *filter) { (void) filter; if (served >= nmembers) return NULL; return &hdrs[served++]; }
int lha_reader_check(LHAReader *r, LHADecoderProgressCallback cb, void *d) { (void) r; (void) cb; (void) d; ++decided; if (!results[served - 1]) any_failed = 1; return results[served - 1]; }
int lha_reader_extract(LHAReader *r, char *f, LHADecoderProgressCallback cb, void *d) { (void) r; (void) f; (void) cb; (void) d; ++decided; if (!results[served - 1]) any_failed = 1; return results[served - 1]; }
int lha_reader_current_is_fake(LHAReader *r) { (void) r; return 0; }
size_t lha_reader_read(LHAReader *r, void *b, size_t n) { (void) r; (void) b; (void) n; return 0; }
LHAFileType lha_arch_exists(char *f) { (void) f; return LHA_FILE_NONE; }
int lha_arch_mkdir(char *p, unsigned int m) { (void) p; (void) m; return 1; }
int safe_printf(char *format, ...) { (void) format; return 0; }
int safe_fprintf(FILE *stream, char *format, ...) { (void) stream; (void) format; return 0; }

void harness(void)
{
	INPUT_ARRAY(u8, res, M);
	INPUT(u32, n);
	INPUT(u8, cmd);
	INPUT(u8, quiet);
	LHAFilter filter;
	LHAOptions options;
	unsigned i;
	int result;
	ASSUME(n <= M && quiet <= 2);
	nmembers = n;
	for (i = 0; i < M; ++i) {
		results[i] = res[i] & 1;
		memset(&hdrs[i], 0, sizeof(hdrs[i]));
		names[i][0] = 'a'; names[i][1] = 0;
		hdrs[i].filename = names[i];
		hdrs[i].compress_method[0] = '-'; hdrs[i].compress_method[1] = 'l'; hdrs[i].compress_method[2] = 'h';
		hdrs[i].compress_method[3] = '5'; hdrs[i].compress_method[4] = '-'; hdrs[i].compress_method[5] = 0;
	}
	filter.reader = NULL; filter.filters = NULL; filter.num_filters = 0;
	options.overwrite_policy = LHA_OVERWRITE_ALL; options.quiet = quiet; options.verbose = 0;
	options.dry_run = 0; options.extract_path = NULL; options.use_path = 1;
	if (cmd & 1) result = test_file_crc(&filter, &options);
	else result = extract_archive(&filter, &options);
	CHECK(decided == n, "every selected member is tested/extracted exactly once");
	/* what the command loop's return value means to its caller is not asserted here (an internal convention): the exit status
	 * is decided on main() with these same loops in exit.many.* */
	(void) result;
	if (n == M && any_failed && results[M - 1]) WITNESS("early failure, later success");
	WITNESS("end");
}
