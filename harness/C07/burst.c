/* C07: any corruption confined to a burst of <= 16 bits changes the CRC-16 computed by the real routine. */
#include "verif.h"
#include "lib/crc16.c"
#ifndef N
#define N 4
#endif
void harness(void)
{
	INPUT_ARRAY(u8, data, N);
	INPUT(u16, pattern);
	INPUT(u32, off);
	INPUT(u32, len);
	u8 bad[N];
	unsigned i, changed = 0;
	uint16_t c1 = 0, c2 = 0;
	ASSUME(len >= 1 && len <= N);
	ASSUME(off < 8 * len);
	for (i = 0; i < N; ++i) bad[i] = data[i];
	/* flip the bits of 'pattern' starting at bit offset 'off'; bits are numbered in the CRC's own (reflected, serial) order:
	 * bit 0 = least significant bit of byte 0.  In most-significant-first numbering a run that crosses a byte boundary is
	 * not a burst for CRC-16/ARC (solver counterexample: masks 01 C1 C0 leave the CRC unchanged) - see DESIGN.md 4.7. */
	for (i = 0; i < 16; ++i) {
		if ((pattern >> (15 - i)) & 1) {
			unsigned q = off + i;
			ASSUME(q < 8 * len);
			bad[q >> 3] ^= (u8) (1u << (q & 7));
			changed = 1;
		}
	}
	ASSUME(changed);
	lha_crc16_buf(&c1, data, len);
	lha_crc16_buf(&c2, bad, len);
	CHECK(c1 != c2, "a burst of <= 16 flipped bits always changes the CRC");
	if (len == N && off == 8 * N - 16 && pattern == 0x8001) WITNESS("16-bit burst at the end");
	WITNESS("end");
}
