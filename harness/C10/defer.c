/* C10 / H10.defer, inductive steps on the real lib/lha_reader.c:
 *  entry harness_insert: extract_placeholder_symlink, started with an ARBITRARY deferred_symlinks list (<= 3
 *      entries) sorted by non-increasing header path length, creates an owner-only placeholder file at the
 *      caller's path and inserts the current header so that the list is again sorted by non-increasing path
 *      length, keeps all old entries in their order, and takes one reference; if the placeholder cannot be
 *      created nothing is queued.
 *  entry harness_next: lha_reader_next_file, started in an ARBITRARY reader state satisfying the invariant
 *        INV: type in {DEFERRED_SYMLINK, EOF} => basic reader exhausted and dir stack empty;
 *             type == EOF => no deferred link left;   type == START => nothing queued
 *      re-establishes INV and hands out a deferred link only when the basic reader has no current member and
 *      the directory stack is empty, namely the head (longest path) of the deferred list, unlinked from it. */
#include "verif.h"
#include <stdio.h>
#include <stdlib.h>
#include <string.h>

static FILE the_file;
static unsigned n_fclose;
static int verif_fclose(FILE *f) { (void) f; ++n_fclose; return 0; }
#define fclose verif_fclose
#include "lib/lha_reader.c"
#undef fclose

#ifndef SL
#define SL 2
#endif
#define K 3            /* entries already deferred (insert) */

/* independent path length of a header: bytes of path plus bytes of file name */
static unsigned ref_plen(const LHAFileHeader *h)
{
	unsigned n = 0, i;
	if (h->path != NULL) for (i = 0; h->path[i] != '\0'; ++i) ++n;
	if (h->filename != NULL) for (i = 0; h->filename[i] != '\0'; ++i) ++n;
	return n;
}

/* ---- environment ---- */
static char basic_token;
static LHAReader rd;
static char *fopen_path; static int fopen_uid, fopen_gid, fopen_perms; static unsigned n_fopen, n_other_arch;
static u8 fopen_ok;
FILE *lha_arch_fopen(char *f, int u, int g, int p) { fopen_path = f; fopen_uid = u; fopen_gid = g; fopen_perms = p; ++n_fopen; return (fopen_ok & 1) ? &the_file : NULL; }
int lha_arch_mkdir(char *p, unsigned int m) { (void) p; (void) m; ++n_other_arch; return 0; }
int lha_arch_symlink(char *p, char *t) { (void) p; (void) t; ++n_other_arch; return 0; }
int lha_arch_chmod(char *f, int p) { (void) f; (void) p; ++n_other_arch; return 0; }
int lha_arch_chown(char *f, int u, int g) { (void) f; (void) u; (void) g; ++n_other_arch; return 0; }
int lha_arch_utime(char *f, unsigned int t) { (void) f; (void) t; ++n_other_arch; return 0; }
LHAFileType lha_arch_exists(char *f) { (void) f; return LHA_FILE_NONE; }
static LHAFileHeader *ref_taken; static unsigned n_addref, n_free;
static LHAFileHeader *freed;
void lha_file_header_add_ref(LHAFileHeader *h) { ref_taken = h; ++n_addref; }
void lha_file_header_free(LHAFileHeader *h) { freed = h; ++n_free; }
char *lha_file_header_full_path(LHAFileHeader *h) { (void) h; return NULL; }
/* basic reader: current member or none; next_file moves to an arbitrary next state, but never back from
 * "exhausted" (contract of lha_basic_reader_next_file at end of input) */
static LHAFileHeader in_a, in_b;
static LHAFileHeader *bcur;
static u8 more;
static unsigned n_bnext;
LHAFileHeader *lha_basic_reader_next_file(LHABasicReader *r) { (void) r; ++n_bnext; bcur = (more & 1) ? &in_b : NULL; return bcur; }
LHAFileHeader *lha_basic_reader_curr_file(LHABasicReader *r) { (void) r; return bcur; }
void lha_basic_reader_free(LHABasicReader *r) { (void) r; }
LHADecoder *lha_basic_reader_decode(LHABasicReader *r) { (void) r; return NULL; }
LHADecoder *lha_macbinary_passthrough(LHADecoder *d, LHAFileHeader *h) { (void) d; (void) h; return NULL; }
void lha_decoder_free(LHADecoder *d) { (void) d; }
void lha_decoder_monitor(LHADecoder *d, LHADecoderProgressCallback cb, void *data) { (void) d; (void) cb; (void) data; }
size_t lha_decoder_read(LHADecoder *d, uint8_t *buf, size_t n) { (void) d; (void) buf; (void) n; return 0; }
size_t lha_decoder_get_length(LHADecoder *d) { (void) d; return 0; }
uint16_t lha_decoder_get_crc(LHADecoder *d) { (void) d; return 0; }

static void set_str(char *dst, const u8 *src) { unsigned i; for (i = 0; i <= SL; ++i) dst[i] = (char) src[i]; }

/* ------------------------------------------------------------------------------------------------ */
void harness_insert(void)
{
	INPUT_ARRAY(u8, lp, (K + 1) * (SL + 1)); INPUT_ARRAY(u8, lf, (K + 1) * (SL + 1));
	INPUT_ARRAY(u8, hasp, K + 1); INPUT_ARRAY(u8, hasf, K + 1);
	INPUT(u8, k); INPUT(u8, fo);
	static LHAFileHeader L[K], cur;
	static char sp[K + 1][SL + 1], sf[K + 1][SL + 1];
	static char out_name[4] = "o/n";
	LHAFileHeader *seq[K + 2], *p;
	unsigned i, j, n, seen_cur = 0;
	int r;

	ASSUME(k <= K);
	for (i = 0; i <= K; ++i) {
		LHAFileHeader *h = i < K ? &L[i] : &cur;
		set_str(sp[i], lp + i * (SL + 1)); set_str(sf[i], lf + i * (SL + 1));
		ASSUME(sp[i][SL] == 0 && sf[i][SL] == 0);
		h->path = (hasp[i] & 1) ? sp[i] : NULL;
		h->filename = (hasf[i] & 1) ? sf[i] : NULL;
		h->_next = NULL;
	}
	/* arbitrary sorted list of k entries */
	for (i = 0; i + 1 < k; ++i) { L[i]._next = &L[i + 1]; ASSUME(ref_plen(&L[i]) >= ref_plen(&L[i + 1])); }
	rd.reader = (LHABasicReader *) &basic_token;
	rd.deferred_symlinks = k > 0 ? &L[0] : NULL;
	rd.dir_stack = NULL; rd.decoder = NULL; rd.inner_decoder = NULL;
	rd.curr_file = &cur; rd.curr_file_type = CURR_FILE_NORMAL;
	fopen_ok = fo;

	r = extract_placeholder_symlink(&rd, out_name);

	CHECK(n_fopen == 1 && fopen_path == out_name, "C10: the placeholder is created at the caller's path through lha_arch_fopen (unlink + O_EXCL)");
	CHECK(fopen_uid == -1 && fopen_gid == -1 && (fopen_perms & 077) == 0, "C10: placeholder is an owner-only file");
	CHECK(n_other_arch == 0, "C10: deferring a link makes no other filesystem call (no symlink yet)");
	if (!(fo & 1)) {
		CHECK(r == 0, "C10: placeholder failure is reported");
		CHECK(rd.deferred_symlinks == (k > 0 ? &L[0] : NULL) && n_addref == 0 && cur._next == NULL, "C10: nothing is queued when the placeholder could not be created");
		for (i = 0; i + 1 < k; ++i) CHECK(L[i]._next == &L[i + 1], "C10: list untouched");
	} else {
		CHECK(r != 0 && n_fclose == 1, "C10: placeholder created and closed");
		CHECK(n_addref == 1 && ref_taken == &cur, "C20/C10: the queued header is kept alive by one reference");
		/* walk the result */
		n = 0;
		for (p = rd.deferred_symlinks; p != NULL && n < K + 2; p = p->_next) seq[n++] = p;
		CHECK(p == NULL && n == (unsigned) k + 1, "C10: the list has exactly one more entry and is NULL-terminated");
		j = 0;
		for (i = 0; i < n && i < K + 1; ++i) {
			if (seq[i] == &cur) { ++seen_cur; continue; }
			CHECK(j < k && seq[i] == &L[j], "C10: old entries are all kept, in their old order");
			++j;
		}
		CHECK(seen_cur == 1, "C10: the current header was inserted exactly once");
		for (i = 0; i + 1 < n && i < K; ++i) CHECK(ref_plen(seq[i]) >= ref_plen(seq[i + 1]), "C10: deferred list is sorted by non-increasing path length");
		if (k == K && seq[1] == &cur && ref_plen(&L[0]) > ref_plen(&cur) && ref_plen(&cur) == ref_plen(&L[1])) WITNESS("inserted in the middle, before an entry of equal length");
		if (k == K && seq[K] == &cur) WITNESS("appended at the tail of a full list");
		if (k == 0) WITNESS("first deferred link");
	}
	WITNESS("end");
}

/* ------------------------------------------------------------------------------------------------ */
void harness_next(void)
{
	INPUT_ARRAY(u8, dpath, 2 * (SL + 1)); INPUT_ARRAY(u8, ipath, 2 * (SL + 1)); INPUT_ARRAY(u8, ihasp, 2);
	INPUT(u8, type); INPUT(u8, ndirs); INPUT(u8, ndef); INPUT(u8, have_cur); INPUT(u8, v_more); INPUT(u8, policy);
	static LHAFileHeader D[2], S[2], fake;
	static char dp[2][SL + 1], ip[2][SL + 1];
	LHAFileHeader *old_dirs, *old_def, *old_def_next, *old_dir_next, *old_cur, *r;
	CurrFileType t0, t1;
	unsigned i;

	ASSUME(type <= CURR_FILE_EOF && ndirs <= 2 && ndef <= 2 && policy <= 2);
	for (i = 0; i < 2; ++i) {
		set_str(dp[i], dpath + i * (SL + 1)); set_str(ip[i], ipath + i * (SL + 1));
		ASSUME(dp[i][SL] == 0 && ip[i][SL] == 0);
		D[i].path = dp[i]; D[i].filename = NULL;          /* pushed by extract_directory: a directory header, path set */
		S[i]._next = NULL; D[i]._next = NULL;
	}
	in_a.path = (ihasp[0] & 1) ? ip[0] : NULL; in_b.path = (ihasp[1] & 1) ? ip[1] : NULL;
	if (ndirs == 2) D[0]._next = &D[1];
	if (ndef == 2) S[0]._next = &S[1];
	t0 = (CurrFileType) type;
	rd.reader = (LHABasicReader *) &basic_token;
	rd.dir_policy = (LHAReaderDirPolicy) policy;
	rd.dir_stack = ndirs ? &D[0] : NULL;
	rd.deferred_symlinks = ndef ? &S[0] : NULL;
	rd.decoder = NULL; rd.inner_decoder = NULL;
	rd.curr_file_type = t0;
	bcur = (have_cur & 1) ? &in_a : NULL;
	more = v_more;
	rd.curr_file = t0 == CURR_FILE_NORMAL ? bcur : (t0 == CURR_FILE_FAKE_DIR || t0 == CURR_FILE_DEFERRED_SYMLINK) ? &fake : NULL;
	/* INV (see top) */
	if (t0 == CURR_FILE_DEFERRED_SYMLINK || t0 == CURR_FILE_EOF) ASSUME(bcur == NULL && rd.dir_stack == NULL);
	if (t0 == CURR_FILE_EOF) ASSUME(rd.deferred_symlinks == NULL);
	if (t0 == CURR_FILE_START) ASSUME(bcur == NULL && rd.dir_stack == NULL && rd.deferred_symlinks == NULL);
	if (t0 == CURR_FILE_NORMAL) ASSUME(bcur != NULL);      /* NORMAL is only entered with a member from the basic reader */
	old_dirs = rd.dir_stack; old_def = rd.deferred_symlinks; old_cur = rd.curr_file;
	old_def_next = old_def ? old_def->_next : NULL; old_dir_next = old_dirs ? old_dirs->_next : NULL;

	r = lha_reader_next_file(&rd);

	t1 = rd.curr_file_type;
	CHECK(r == rd.curr_file, "returned header is the current file");
	CHECK(t1 != CURR_FILE_START, "never back to START");
	/* INV re-established */
	if (t1 == CURR_FILE_DEFERRED_SYMLINK || t1 == CURR_FILE_EOF) CHECK(bcur == NULL && rd.dir_stack == NULL, "C10 INV: deferred links / EOF only with basic reader exhausted and directory stack empty");
	if (t1 == CURR_FILE_EOF) CHECK(rd.deferred_symlinks == NULL && r == NULL, "C10 INV: EOF only when no deferred link is left");
	if (t1 == CURR_FILE_NORMAL) CHECK(r != NULL && r == bcur, "INV: NORMAL means a member of the basic reader");
	if (t1 != CURR_FILE_EOF) CHECK(r != NULL, "a non-EOF state has a current header");
	/* the basic reader advances only out of START/NORMAL (fake directories and deferred links do not consume input) */
	CHECK(n_bnext == ((t0 == CURR_FILE_START || t0 == CURR_FILE_NORMAL) ? 1u : 0u), "C06: input advances exactly when the previous entry came from the input");
	if (t0 == CURR_FILE_FAKE_DIR) CHECK(n_free == 1 && freed == old_cur, "C20: the fake directory handed out before is released"); else if (n_free != 0) CHECK(n_free == 1 && freed == old_cur && t0 == CURR_FILE_DEFERRED_SYMLINK, "C20: no queued or input header is released");
	if (t0 == CURR_FILE_EOF) {
		CHECK(t1 == CURR_FILE_EOF && r == NULL, "EOF is final");
	} else if (t1 == CURR_FILE_DEFERRED_SYMLINK) {
		CHECK(old_dirs == NULL, "C10: a deferred link is handed out only after every queued directory got its metadata");
		CHECK(r == old_def && rd.deferred_symlinks == old_def_next && r->_next == NULL, "C10: the head (longest path) of the deferred list is handed out and unlinked");
	} else if (t1 == CURR_FILE_FAKE_DIR) {
		CHECK(r == old_dirs && rd.dir_stack == old_dir_next && rd.deferred_symlinks == old_def, "C06: top of the directory stack is popped, deferred list untouched");
	} else if (t1 == CURR_FILE_NORMAL) {
		CHECK(rd.dir_stack == old_dirs && rd.deferred_symlinks == old_def, "C06/C10: a normal member leaves both queues untouched");
	} else {
		CHECK(old_dirs == NULL && old_def == NULL && bcur == NULL, "EOF only when everything is exhausted");
	}
	/* directory policies (C06): END_OF_FILE keeps directories until the input is exhausted */
	if (t1 == CURR_FILE_FAKE_DIR && bcur != NULL) CHECK(policy != LHA_READER_DIR_END_OF_FILE, "C06: END_OF_FILE policy pops directories only at end of input");

	if (t1 == CURR_FILE_DEFERRED_SYMLINK && t0 == CURR_FILE_NORMAL && ndef == 2) WITNESS("input just ended, first of two deferred links");
	if (t1 == CURR_FILE_FAKE_DIR && bcur != NULL && policy == LHA_READER_DIR_END_OF_DIR) WITNESS("directory popped because the next member lies outside it");
	if (t1 == CURR_FILE_NORMAL && old_dirs != NULL && policy == LHA_READER_DIR_END_OF_DIR) WITNESS("member inside the directory on top of the stack");
	if (t1 == CURR_FILE_EOF && t0 == CURR_FILE_DEFERRED_SYMLINK) WITNESS("EOF after the last deferred link");
	WITNESS("end");
}
