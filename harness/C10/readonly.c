/* C10 / H10.readonly: the list (l, v, lv, vv), test (t), print (p) and dry-run (xn, en, pn, tn) commands
 * create or modify no filesystem object.
 * Real tool code (src/list.c, src/extract.c, src/filter.c) on top of the real reader layer (lib/lha_reader.c)
 * in one program; the layers below the reader (basic reader / header parser, decoders, MacBinary wrapper)
 * are stubs with arbitrary results.  Every mutating function of the arch layer (the only place where the tool
 * and the library touch the filesystem for writing: lha_arch_mkdir/_fopen/_symlink/_chmod/_chown/_utime) is a
 * stub that fails the check when reached; lha_arch_exists (stat) is allowed and answers arbitrarily. */
#include "verif.h"
#include <stdio.h>
#include <stdlib.h>
#include <string.h>
#include <time.h>
#include <sys/stat.h>

#ifndef M
#define M 2           /* members delivered by the basic reader */
#endif
#ifndef SL
#define SL 2          /* bytes per header string */
#endif
#define RD 2          /* non-empty reads per member delivered by the stub decoder */

static struct tm the_tm;
static struct tm *verif_localtime(const time_t *t) { (void) t; return &the_tm; }
static u32 now_val, mtime_val;
static int fstat_res;
static time_t verif_time(time_t *t) { (void) t; return (time_t) now_val; }
static int verif_fstat(int fd, struct stat *st) { (void) fd; st->st_mtime = (time_t) mtime_val; return fstat_res; }
static u8 fw_short;
static size_t verif_fwrite(const void *p, size_t sz, size_t n, FILE *f) { (void) p; (void) sz; (void) f; return (fw_short & 1) && n > 0 ? n - 1 : n; }
static unsigned stream_writes;
/* file_full_path's result: typed static storage instead of a heap object of symbolic size */
static char path_buf[2 * SL + 8];
static unsigned path_live;
static void *verif_malloc(size_t n) { CHECK(path_live == 0 && n <= sizeof(path_buf), "harness: one output path alive at a time, within the modelled size"); path_live = 1; return path_buf; }
static void verif_free(void *p) { if (p == (void *) path_buf) path_live = 0; }
/* list.c pads its headings by the value printf returns */
#include <stdarg.h>
static int ro_printf(const char *fmt, ...)
{
	int r = 0;
	if (fmt[0] == '%' && fmt[1] == 's' && fmt[2] == '\0') {
		va_list ap; const char *s; va_start(ap, fmt); s = va_arg(ap, const char *); va_end(ap);
		while (s[r] != '\0') ++r;
	}
	return r;
}
#define printf ro_printf
static char dup_buf[2 * SL + 8];
static char *verif_strdup(const char *s) { unsigned i; for (i = 0; s[i] != '\0'; ++i) dup_buf[i] = s[i]; dup_buf[i] = '\0'; return dup_buf; }
#define strdup verif_strdup
#define malloc verif_malloc
#define free verif_free
#define localtime verif_localtime
#define time verif_time
#define fstat(fd, st) verif_fstat(0, st)
#define fwrite verif_fwrite
#include "src/list.c"
#include "src/extract.c"
#include "src/filter.c"
#include "lib/lha_reader.c"
#undef time
#undef printf
#undef malloc
#undef strdup
#undef free

/* ---- mutating arch layer: must be unreachable ---- */
int lha_arch_mkdir(char *p, unsigned int m) { (void) p; (void) m; CHECK(0, "C10: read-only command reached lha_arch_mkdir"); return 0; }
FILE *lha_arch_fopen(char *f, int u, int g, int p) { (void) f; (void) u; (void) g; (void) p; CHECK(0, "C10: read-only command reached lha_arch_fopen"); return NULL; }
int lha_arch_symlink(char *p, char *t) { (void) p; (void) t; CHECK(0, "C10: read-only command reached lha_arch_symlink"); return 0; }
int lha_arch_chmod(char *f, int p) { (void) f; (void) p; CHECK(0, "C10: read-only command reached lha_arch_chmod"); return 0; }
int lha_arch_chown(char *f, int u, int g) { (void) f; (void) u; (void) g; CHECK(0, "C10: read-only command reached lha_arch_chown"); return 0; }
int lha_arch_utime(char *f, unsigned int t) { (void) f; (void) t; CHECK(0, "C10: read-only command reached lha_arch_utime"); return 0; }
/* non-mutating */
static u8 exists_res[M + 1];
static unsigned n_exists;
LHAFileType lha_arch_exists(char *f) { u8 r = n_exists <= M ? exists_res[n_exists] : 0; (void) f; ++n_exists; return (LHAFileType) (r % 4); }
int safe_printf(char *format, ...) { (void) format; return 0; }
int safe_fprintf(FILE *stream, char *format, ...) { (void) stream; (void) format; return 0; }

/* ---- layers below the reader ---- */
static LHAFileHeader hdrs[M];
static char s_path[M][SL + 1], s_name[M][SL + 1], s_target[M][SL + 1];
static unsigned nmembers, cur;          /* cur: 0 = before first; k = k-th member current; > nmembers = end */
static char basic_token;
LHAFileHeader *lha_basic_reader_next_file(LHABasicReader *r) { (void) r; if (cur <= nmembers) ++cur; return (cur >= 1 && cur <= nmembers) ? &hdrs[cur - 1] : NULL; }
LHAFileHeader *lha_basic_reader_curr_file(LHABasicReader *r) { (void) r; return (cur >= 1 && cur <= nmembers) ? &hdrs[cur - 1] : NULL; }
void lha_basic_reader_free(LHABasicReader *r) { (void) r; }
void lha_file_header_free(LHAFileHeader *h) { (void) h; }
void lha_file_header_add_ref(LHAFileHeader *h) { (void) h; }
char *lha_file_header_full_path(LHAFileHeader *h) { (void) h; return NULL; }

static LHADecoder dec_inner, dec_outer;
static u8 dec_ok[M], mac_ok[M], rd_len[M][RD], cb_blocks[M];
static u32 dec_len[M]; static u16 dec_crc[M];
static unsigned reads_done, decodes, checks_decoded;
static LHADecoderProgressCallback mon_cb; static void *mon_data;
LHADecoder *lha_basic_reader_decode(LHABasicReader *r) { (void) r; reads_done = 0; mon_cb = NULL; ++decodes; return dec_ok[cur - 1] & 1 ? &dec_inner : NULL; }
LHADecoder *lha_macbinary_passthrough(LHADecoder *d, LHAFileHeader *h) { (void) d; (void) h; return mac_ok[cur - 1] & 1 ? &dec_outer : NULL; }
void lha_decoder_free(LHADecoder *d) { (void) d; }
void lha_decoder_monitor(LHADecoder *d, LHADecoderProgressCallback cb, void *data) { (void) d; mon_cb = cb; mon_data = data; }
size_t lha_decoder_read(LHADecoder *d, uint8_t *buf, size_t buf_len)
{
	size_t n;
	(void) d; (void) buf;
	if (mon_cb != NULL && reads_done == 0) mon_cb(0, cb_blocks[cur - 1] % 3, mon_data);      /* real decoder: first call announces the block count */
	else if (mon_cb != NULL && reads_done == 1) mon_cb(1, cb_blocks[cur - 1] % 3, mon_data);
	if (reads_done >= RD) return 0;
	n = rd_len[cur - 1][reads_done++];
	if (n > buf_len) n = buf_len;
	if (n == 0) reads_done = RD;
	return n;
}
size_t lha_decoder_get_length(LHADecoder *d) { (void) d; ++checks_decoded; return dec_len[cur - 1]; }
uint16_t lha_decoder_get_crc(LHADecoder *d) { (void) d; return dec_crc[cur - 1]; }

static char filt[3];
static char *filt_list[1] = { filt };

void harness(void)
{
	INPUT_ARRAY(u8, hpath, M * (SL + 1)); INPUT_ARRAY(u8, hname, M * (SL + 1)); INPUT_ARRAY(u8, htarget, M * (SL + 1));
	INPUT_ARRAY(u8, hflags, M); INPUT_ARRAY(u8, hkind, M); INPUT_ARRAY(u8, hos, M); INPUT_ARRAY(u32, hextra, M);
	INPUT_ARRAY(u32, hlen, M); INPUT_ARRAY(u16, hcrc, M); INPUT_ARRAY(u32, hts, M);
	INPUT_ARRAY(u8, v_dec_ok, M); INPUT_ARRAY(u8, v_mac_ok, M); INPUT_ARRAY(u8, v_rd, M * RD); INPUT_ARRAY(u8, v_cb, M);
	INPUT_ARRAY(u32, v_dlen, M); INPUT_ARRAY(u16, v_dcrc, M); INPUT_ARRAY(u8, v_exists, M + 1);
	INPUT(u8, n); INPUT(u8, cmd); INPUT(u8, quiet); INPUT(u8, verbose); INPUT(u8, dry); INPUT(u8, use_path); INPUT(u8, policy);
	INPUT(u8, have_ext); INPUT(u8, nfilt); INPUT(u8, f0); INPUT(u8, f1); INPUT(u32, now); INPUT(u32, mt); INPUT(u8, fst); INPUT(u8, fws);
	static LHAReader rd;
	static char ext[2] = "w";
	LHAFilter filter;
	LHAOptions options;
	unsigned i, j;

	/* exactly M members (a symbolic count would make the stub's cursor, hence every header access, symbolic);
	 * shorter archives are covered by the instance with a smaller M */
	ASSUME(n == M);
	nmembers = M;
	for (i = 0; i < M; ++i) {
		for (j = 0; j <= SL; ++j) { s_path[i][j] = (char) hpath[i * (SL + 1) + j]; s_name[i][j] = (char) hname[i * (SL + 1) + j]; s_target[i][j] = (char) htarget[i * (SL + 1) + j]; }
		ASSUME(s_path[i][SL] == 0 && s_name[i][SL] == 0 && s_target[i][SL] == 0);
		memset(&hdrs[i], 0, sizeof(hdrs[i]));
		hdrs[i].path = (hflags[i] & 1) ? s_path[i] : NULL;
		hdrs[i].filename = (hflags[i] & 2) ? s_name[i] : NULL;
		hdrs[i].symlink_target = (hflags[i] & 4) ? s_target[i] : NULL;
		hdrs[i].unix_username = (hflags[i] & 8) ? s_name[i] : NULL;
		hdrs[i].unix_group = (hflags[i] & 16) ? s_name[i] : NULL;
		/* directory/symlink entry, compressed file, or stored file */
		memcpy(hdrs[i].compress_method, (hkind[i] % 3) == 0 ? "-lhd-" : (hkind[i] % 3) == 1 ? "-lh5-" : "-lh0-", 6);
		hdrs[i].os_type = hos[i]; hdrs[i].extra_flags = hextra[i]; hdrs[i].length = hlen[i]; hdrs[i].compressed_length = hlen[i] / 2;
		hdrs[i].crc = hcrc[i]; hdrs[i].timestamp = hts[i]; hdrs[i].header_level = hos[i] & 3;
		hdrs[i].unix_perms = hextra[i] >> 8; hdrs[i].os9_perms = hextra[i] >> 4; hdrs[i].unix_uid = hcrc[i]; hdrs[i].unix_gid = hcrc[i];
		dec_ok[i] = v_dec_ok[i]; mac_ok[i] = v_mac_ok[i]; cb_blocks[i] = v_cb[i]; dec_len[i] = v_dlen[i]; dec_crc[i] = v_dcrc[i];
		for (j = 0; j < RD; ++j) rd_len[i][j] = v_rd[i * RD + j];
	}
	for (i = 0; i <= M; ++i) exists_res[i] = v_exists[i];
	the_tm.tm_mon = 3; the_tm.tm_mday = 1; now_val = now; mtime_val = mt; fstat_res = (fst & 1) ? -1 : 0; fw_short = fws;

	/* reader exactly as lha_reader_new leaves it; any directory policy */
	rd.reader = (LHABasicReader *) &basic_token;
	rd.curr_file = NULL; rd.curr_file_type = CURR_FILE_START; rd.decoder = NULL; rd.inner_decoder = NULL;
	rd.dir_stack = NULL; rd.deferred_symlinks = NULL;
	rd.dir_policy = (LHAReaderDirPolicy) (policy % 3);

	filt[0] = (char) f0; filt[1] = (char) f1; filt[2] = 0;
	lha_filter_init(&filter, &rd, filt_list, 0);      /* wildcard selection is H06.glob/H06.filter's subject */
	(void) nfilt;
	options.overwrite_policy = (LHAOverwritePolicy) (policy / 3 % 3); options.quiet = quiet % 3; options.verbose = verbose & 1;
	options.extract_path = (have_ext & 1) ? ext : NULL; options.use_path = use_path & 1;

	/* commands: 0 l  1 v  2 t  3 p  4 x/e; the dry-run flag n is arbitrary for l, v, t, p and set for x/e */
	ASSUME(cmd <= 4);
#ifdef CMD
	ASSUME(cmd == CMD);
	cmd = CMD;           /* one command per harness instance keeps symbolic execution small */
#endif
	options.dry_run = dry & 1;
	switch (cmd) {
	case 0: list_file_basic(&filter, &options, NULL); break;
	case 1: list_file_verbose(&filter, &options, NULL); break;
	case 2: test_file_crc(&filter, &options); break;
	case 3: print_archive(&filter, &options); break;
	case 4: options.dry_run = 1; extract_archive(&filter, &options); break;
	}
	CHECK(rd.dir_stack == NULL && rd.deferred_symlinks == NULL, "C10: read-only commands leave no pending directory/symlink work");
	if (!(cmd == 3 && (fws & 1))) CHECK(cur == M + 1, "the command consumed the whole archive");   /* p stops at a short write */
#if !defined(CMD) || CMD == 2
	if (cmd == 2 && !(dry & 1) && checks_decoded >= 2) WITNESS("t: two members decoded to the end");
#endif
#if !defined(CMD) || CMD == 3
	if (cmd == 3 && !(dry & 1) && decodes >= 1 && reads_done >= 1 && n == M) WITNESS("p: member contents read");
#endif
#if !defined(CMD) || CMD == 4
	if (cmd == 4 && n == M && n_exists >= 1 && (hflags[0] & 4)) WITNESS("xn: symlink member and existing-file probe");
#endif
#if !defined(CMD) || CMD <= 1
	if (cmd <= 1 && n == M && quiet == 0) WITNESS("l/v: two members listed");
#endif
	WITNESS("end");
}
