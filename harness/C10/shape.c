/* C10 / H10.shape (also C06 / H06.path): the output path the tool hands to the arch layer.
 * Real src/extract.c file_full_path + make_parent_directories (+ check_parent_directory).
 * Header strings are arbitrary within the library's guarantee (property C11: the file name has no '/';
 * in the path every '/'-terminated component is a real name - not empty, "." or ".." - after at most one
 * leading '/'); options use_path / extract_path arbitrary (the user's w=DIR text is arbitrary bytes).
 *   (a) full == [extract_path "/"] strip-leading-'/'(path if use_path) strip-leading-'/'(filename)
 *   (b) the part after the prefix is relative and has no empty, "." or ".." component before its last
 *       component  => resolving it never leaves the directory it is resolved in
 *   (c) every directory make_parent_directories probes/creates is a prefix of that path cut at a '/',
 *       is probed with lha_arch_exists first, and is only created when reported missing; on success all
 *       parents (and only parents: never the last component) were visited in increasing order. */
#include "verif.h"
#include <stdio.h>
#include <stdlib.h>
#include <string.h>

#ifndef SL
#define SL 4          /* max length of path, filename, extract_path */
#endif
#define FULLMAX (3 * SL + 2)

/* allocator: typed static storage; records the size asked for so that overruns of the result are seen */
static char buf_full[FULLMAX + 8], buf_dup[FULLMAX + 8];
static size_t asked_full;
static unsigned n_malloc;
static void *verif_malloc(size_t n) { ++n_malloc; asked_full = n; return buf_full; }
static char *verif_strdup(const char *s) { unsigned i; for (i = 0; s[i] != '\0'; ++i) buf_dup[i] = s[i]; buf_dup[i] = '\0'; return buf_dup; }
static void verif_free(void *p) { (void) p; }
#define malloc verif_malloc
#define strdup verif_strdup
#define free verif_free
#include "src/extract.c"
#undef malloc
#undef strdup
#undef free

/* ---- environment: recording arch layer ---- */
#define MAXV (FULLMAX)
static char *full;                       /* the path under test */
static unsigned visited[MAXV], nvisited; /* lengths of the prefixes probed */
static unsigned n_mkdir;
static int last_exists_len = -1;
static LHAFileType last_exists_res;
static unsigned prefix_len_of(const char *p)
{
	unsigned k;
	for (k = 0; p[k] != '\0'; ++k) CHECK(k < FULLMAX && p[k] == full[k], "C10: parent directory path is a prefix of the output path");
	return k;
}
static u8 ex_res[MAXV], mk_res[MAXV];      /* arbitrary result per call (copied from the inputs) */
LHAFileType lha_arch_exists(char *p)
{
	unsigned k = prefix_len_of(p);
	u8 r = nvisited < MAXV ? ex_res[nvisited] : 0;
	CHECK(k > 0 && full[k] == '/', "C10: parent prefix is non-empty and ends where the output path has a '/'");
	if (nvisited < MAXV) visited[nvisited] = k;
	++nvisited;
	last_exists_len = (int) k;
	last_exists_res = (LHAFileType) (r % 4);
	return last_exists_res;
}
int lha_arch_mkdir(char *p, unsigned int mode)
{
	unsigned k = prefix_len_of(p);
	u8 r = n_mkdir < MAXV ? mk_res[n_mkdir] : 0;
	CHECK((int) k == last_exists_len && last_exists_res == LHA_FILE_NONE, "C10: a parent is created only right after it was reported missing");
	CHECK(mode == 0755, "C06: parent directories are created with mode 0755");
	++n_mkdir;
	return r & 1;
}
int lha_reader_extract(LHAReader *r, char *f, LHADecoderProgressCallback cb, void *d) { (void) r; (void) f; (void) cb; (void) d; return 1; }
int lha_reader_check(LHAReader *r, LHADecoderProgressCallback cb, void *d) { (void) r; (void) cb; (void) d; return 1; }
int lha_reader_current_is_fake(LHAReader *r) { (void) r; return 0; }
size_t lha_reader_read(LHAReader *r, void *b, size_t n) { (void) r; (void) b; (void) n; return 0; }
LHAFileHeader *lha_filter_next_file(LHAFilter *filter) { (void) filter; return NULL; }
int safe_printf(char *format, ...) { (void) format; return 0; }
int safe_fprintf(FILE *stream, char *format, ...) { (void) stream; (void) format; return 0; }

/* ---- independent predicates ---- */
/* C11 guarantee for a path string */
static int c11_path_ok(const char *p)
{
	unsigned i = 0, start;
	if (p[0] == '/') i = 1;
	start = i;
	for (; p[i] != '\0'; ++i) {
		if (p[i] == '/') {
			unsigned len = i - start;
			if (len == 0) return 0;
			if (len == 1 && p[start] == '.') return 0;
			if (len == 2 && p[start] == '.' && p[start + 1] == '.') return 0;
			start = i + 1;
		}
	}
	return 1;
}
static int has_slash(const char *p) { unsigned i; for (i = 0; p[i] != '\0'; ++i) if (p[i] == '/') return 1; return 0; }

/* relative path whose non-final components are all real names */
static int stays_below(const char *r)
{
	unsigned i, start = 0;
	if (r[0] == '/') return 0;
	for (i = 0; r[i] != '\0'; ++i) {
		if (r[i] == '/') {
			unsigned len = i - start;
			if (len == 0) return 0;
			if (len == 1 && r[start] == '.') return 0;
			if (len == 2 && r[start] == '.' && r[start + 1] == '.') return 0;
			start = i + 1;
		}
	}
	return 1;
}

void harness(void)
{
	INPUT_ARRAY(u8, path, SL + 1); INPUT_ARRAY(u8, fname, SL + 1); INPUT_ARRAY(u8, ext, SL + 1);
	INPUT_ARRAY(u8, exr, MAXV); INPUT_ARRAY(u8, mkr, MAXV);
	INPUT(u8, have_path); INPUT(u8, have_name); INPUT(u8, have_ext); INPUT(u8, use_path);
	static char s_path[SL + 1], s_name[SL + 1], s_ext[SL + 1];
	static char want[FULLMAX + 2];
	static LHAFileHeader hdr;
	LHAOptions options;
	unsigned i, o = 0, rel0, n, nslash_parents, last_slash;
	int ok;
	ASSUME(path[SL] == 0 && fname[SL] == 0 && ext[SL] == 0);
	for (i = 0; i <= SL; ++i) { s_path[i] = (char) path[i]; s_name[i] = (char) fname[i]; s_ext[i] = (char) ext[i]; }
	for (i = 0; i < MAXV; ++i) { ex_res[i] = exr[i]; mk_res[i] = mkr[i]; }
	ASSUME(c11_path_ok(s_path));
	ASSUME(!has_slash(s_name));
	hdr.path = (have_path & 1) ? s_path : NULL;
	hdr.filename = (have_name & 1) ? s_name : NULL;
	options.overwrite_policy = LHA_OVERWRITE_ALL; options.quiet = 0; options.verbose = 0; options.dry_run = 0;
	options.extract_path = (have_ext & 1) ? s_ext : NULL;
	options.use_path = use_path & 1;

	/* (a) expected string, built from the statement */
	if (have_ext & 1) { for (i = 0; s_ext[i] != '\0'; ++i) want[o++] = s_ext[i]; want[o++] = '/'; }
	rel0 = o;
	if ((use_path & 1) && (have_path & 1)) { i = 0; while (s_path[i] == '/') ++i; for (; s_path[i] != '\0'; ++i) want[o++] = s_path[i]; }
	if (have_name & 1) { i = 0; while (s_name[i] == '/') ++i; for (; s_name[i] != '\0'; ++i) want[o++] = s_name[i]; }
	want[o] = '\0';

	full = file_full_path(&hdr, &options);
	CHECK(n_malloc == 1 && full == buf_full, "one allocation");
	for (n = 0; n <= FULLMAX && full[n] != '\0'; ++n) ;
	CHECK(n + 1 <= asked_full, "C06: result fits the allocation made for it");
	CHECK(n == o, "C06/C10: output path has the expected length");
	for (i = 0; i <= o; ++i) CHECK(full[i] == want[i], "C06/C10: output path = [extract_path '/'] + path without leading '/' + filename");
	/* (b) checked on the real result, independently of 'want' */
	CHECK(stays_below(full + rel0), "C10: part after the extract_path prefix is relative and has no empty/'.'/'..' component before its last one");
	if (!(use_path & 1)) CHECK(!has_slash(full + rel0), "C06: option i flattens - no directory part after the prefix");

	/* (c) parent directories.  Not run for an output path that is empty or consists of '/' only: there the
	 * real trailing-separator loop steps to path-1 and compares it with path (undefined pointer arithmetic,
	 * harmless with real compilers, but CBMC keeps reading before the buffer) - a UB note, not part of C10. */
	{
		unsigned nonsep = 0;
		for (i = 0; i < n; ++i) if (full[i] != '/') nonsep = 1;
		if (!nonsep) { WITNESS("separator-only output path (parent creation not exercised)"); return; }
	}
	ok = make_parent_directories(full);
	CHECK(nvisited <= MAXV, "recorder large enough");
	for (i = 1; i < nvisited && i < MAXV; ++i) CHECK(visited[i] > visited[i - 1], "C06: parents are visited outermost first");
	CHECK(n_mkdir <= nvisited, "C10: at most one mkdir per probed parent");
	/* number of parents = '/' positions k>0 with a non-'/' ... count separators that end a proper parent:
	 * positions k with full[k]=='/', k>0 (after leading slashes), and something other than '/' follows later */
	last_slash = 0; nslash_parents = 0;
	{
		unsigned lead = 0, end = n;
		while (full[lead] == '/') ++lead;
		while (end > 0 && full[end - 1] == '/') --end;       /* trailing separators do not name a further parent */
		for (i = lead; i < end; ++i) if (full[i] == '/') { ++nslash_parents; last_slash = i; }
	}
	if (ok) {
		CHECK(nvisited == nslash_parents, "C06: on success every parent directory of the output path was probed exactly once");
		if (nvisited > 0 && nvisited <= MAXV) CHECK(visited[nvisited - 1] == last_slash, "C06: the innermost parent is the path up to its last separator");
	}
	for (i = 0; i < nvisited && i < MAXV; ++i) CHECK(visited[i] < n, "C10: the last component itself is never created as a parent");

	if ((have_ext & 1) && (use_path & 1) && (have_path & 1) && s_path[0] == '/' && s_path[1] == 'a' && n_mkdir >= 2 && ok) WITNESS("absolute header path below w=DIR, two parents created");
	if (!(have_ext & 1) && n >= 2 && full[n - 2] == '.' && full[n - 1] == '.' && nvisited >= 1) WITNESS("'..' can only be (part of) the last component");
	if (!(use_path & 1) && (have_path & 1) && s_path[0] != '\0' && (have_name & 1)) WITNESS("flattened");
	if (!ok && nvisited >= 1) WITNESS("parent creation failed");
	WITNESS("end");
}
