/* C10 / H10.danger: lib/lha_reader.c is_dangerous_symlink(header) <=> the link target is absolute (starts
 * with '/') or has a path component equal to "..".  All NUL-terminated targets of <= N bytes (all 256 byte
 * values), plus the "not a symlink" case (target == NULL). */
#include "verif.h"
#include "lib/lha_reader.c"

#ifndef N
#define N 7
#endif

/* Independent statement: components are the maximal runs between '/' separators (or string ends).  A
 * component equal to ".." starts at a component start (index 0 or just after a '/'), consists of two dots
 * and is followed by a separator or the end of the string. */
static int ref_dangerous(const char *t)
{
	unsigned i;
	if (t[0] == '/') return 1;
	for (i = 0; t[i] != '\0'; ++i) {
		int at_start = (i == 0) || (t[i - 1] == '/');
		if (at_start && t[i] == '.' && t[i + 1] == '.' && (t[i + 2] == '/' || t[i + 2] == '\0')) return 1;
	}
	return 0;
}

void harness(void)
{
	INPUT_ARRAY(u8, tgt, N + 1);
	INPUT(u8, is_link);
	static LHAFileHeader hdr;
	static char s[N + 1];
	unsigned i, n;
	int got;
	ASSUME(tgt[N] == 0);
	for (i = 0; i <= N; ++i) s[i] = (char) tgt[i];
	for (n = 0; s[n] != '\0'; ++n) ;
	hdr.symlink_target = (is_link & 1) ? s : NULL;
	got = is_dangerous_symlink(&hdr);
	if (!(is_link & 1)) {
		CHECK(got == 0, "C10: an entry without link target is not a dangerous symlink");
	} else {
		CHECK((got != 0) == (ref_dangerous(s) != 0), "C10: is_dangerous_symlink <=> target absolute or has a '..' component");
		if (n == N && s[N - 2] == '.' && s[N - 1] == '.' && s[N - 3] == '/' && s[0] != '/' && s[0] != '.') WITNESS("full-length target ending in /..");
		if (n >= 5 && s[0] == 'a' && s[1] == '/' && s[2] == '.' && s[3] == '.' && s[4] == '/') WITNESS("'..' component in the middle");
		if (n >= 3 && s[0] == '.' && s[1] == '.' && s[2] == '.' && !got) WITNESS("'...' is a real name, not dangerous");
	}
	WITNESS("end");
}
