/* C10 / H10.defer (whole run): real lha_reader_next_file / lha_reader_extract driven the way the tool drives
 * them (next, [extract], next, ...) from the initial reader state over M abstract members (directory, file,
 * symlink with arbitrary short target), against a recording arch layer.  Trace property:
 *   - a symlink whose target is absolute or has a ".." component (independent predicate) is created only when
 *     the input is exhausted and no directory metadata is pending, replacing its own earlier placeholder;
 *   - once the first such link exists NO other mutating call follows, except further such links, and these
 *     come in non-increasing order of header path length (longest first);
 *   - until then such members only produce an owner-only placeholder file (lha_arch_fopen = unlink + O_EXCL);
 *   - every queued link is created before end of file; the only path handed to the arch layer for a member is
 *     the caller's output path for that member. */
#include "verif.h"
#include "C10/run_env.h"

#ifndef PL
#define PL 2      /* bytes of header path */
#endif
#ifndef TL
#define TL 3      /* bytes of link target */
#endif
#define MAXIT (3 * M + 1)

static char s_path0[PL + 1], s_path1[PL + 1], s_path2[PL + 1], s_path3[PL + 1];
static char s_target0[TL + 1], s_target1[TL + 1], s_target2[TL + 1], s_target3[TL + 1];
static char s_name0[2], s_name1[2], s_name2[2], s_name3[2];
static char *const s_path[4] = { s_path0, s_path1, s_path2, s_path3 };
static char *const s_target[4] = { s_target0, s_target1, s_target2, s_target3 };
static char *const s_name[4] = { s_name0, s_name1, s_name2, s_name3 };

static int ref_dangerous(const char *t)
{
	unsigned i;
	if (t[0] == '/') return 1;
	for (i = 0; t[i] != '\0'; ++i) {
		int at_start = (i == 0) || (t[i - 1] == '/');
		if (at_start && t[i] == '.' && t[i + 1] == '.' && (t[i + 2] == '/' || t[i + 2] == '\0')) return 1;
	}
	return 0;
}
static unsigned ref_plen(const LHAFileHeader *h)
{
	unsigned n = 0, i;
	if (h->path != NULL) for (i = 0; h->path[i] != '\0'; ++i) ++n;
	if (h->filename != NULL) for (i = 0; h->filename[i] != '\0'; ++i) ++n;
	return n;
}

/* ---- recording arch layer ---- */
static unsigned dangerous_made, last_dangerous_len = 0xffffffffu, n_dangerous_made;
static u8 placeholder[M], link_made[M], arch_ok[MAXIT * 4];
static unsigned n_arch;
static int cur_idx(char *path)
{
	int i = env_index(rd.curr_file);
	CHECK(i >= 0 && path == out_name[i], "C10: the arch layer is handed exactly the caller's output path of the current member");
	return i;
}
static int arch_result(void) { u8 r = n_arch < MAXIT * 4 ? arch_ok[n_arch] : 0; ++n_arch; return r & 1; }
static void ordinary_op(void) { CHECK(!dangerous_made, "C10: no other filesystem operation after the first dangerous symlink came into existence"); }

int lha_arch_mkdir(char *p, unsigned int m) { (void) m; (void) cur_idx(p); ordinary_op(); return arch_result(); }
/* chmod / chown / utime FOLLOW symbolic links: applied to a path on which this run has just made a link they would change the
 * link's target, which may lie anywhere */
static u8 is_link[M];
static void meta_op(int i) { if (i >= 0) CHECK(!is_link[i], "C10: no mode / owner / time call on a path where this run created a symbolic link (such calls follow the link)"); }
int lha_arch_chmod(char *p, int m) { (void) m; meta_op(cur_idx(p)); ordinary_op(); return arch_result(); }
int lha_arch_chown(char *p, int u, int g) { (void) u; (void) g; meta_op(cur_idx(p)); ordinary_op(); return arch_result(); }
int lha_arch_utime(char *p, unsigned int t) { (void) t; meta_op(cur_idx(p)); ordinary_op(); return arch_result(); }
LHAFileType lha_arch_exists(char *p) { (void) cur_idx(p); return (LHAFileType) (arch_result() ? LHA_FILE_DIRECTORY : LHA_FILE_NONE); }
FILE *lha_arch_fopen(char *p, int u, int g, int perms)
{
	int i = cur_idx(p), ok = arch_result();
	ordinary_op();
	if (i >= 0 && rd.curr_file->symlink_target != NULL) {
		CHECK(ref_dangerous(rd.curr_file->symlink_target), "C06: only dangerous links are replaced by a placeholder file");
		CHECK(rd.curr_file_type == CURR_FILE_NORMAL, "C10: placeholders are made when the member is met in the input");
		CHECK(u == -1 && g == -1 && (perms & 077) == 0, "C10: placeholder is owner-only");
		if (ok) placeholder[i] = 1;
	}
	if (ok) ++env_open_streams;
	return ok ? &env_file : NULL;
}
int lha_arch_symlink(char *p, char *target)
{
	int i = cur_idx(p), ok = arch_result();
	if (i < 0) return 0;
	CHECK(target == rd.curr_file->symlink_target && target != NULL, "C06: link is created with its recorded target");
	if (ok) is_link[i] = 1;
	if (ref_dangerous(target)) {
		CHECK(env_exhausted(), "C10: dangerous symlink created only after every member of the input was processed");
		CHECK(rd.dir_stack == NULL, "C10: dangerous symlink created only after all directory metadata was applied");
		CHECK(rd.curr_file_type == CURR_FILE_DEFERRED_SYMLINK, "C10: dangerous symlinks are created in the deferred phase");
		CHECK(placeholder[i] && !link_made[i], "C10: it replaces its own placeholder, once");
		CHECK(ref_plen(rd.curr_file) <= last_dangerous_len, "C10: deferred links are created longest path first");
		last_dangerous_len = ref_plen(rd.curr_file);
		dangerous_made = 1; ++n_dangerous_made; link_made[i] = 1;
	} else {
		ordinary_op();
		CHECK(rd.curr_file_type == CURR_FILE_NORMAL, "C06: safe links are created at once");
	}
	return ok;
}

static void copy_bytes(u8 *d, const u8 *s, unsigned n) { unsigned i; for (i = 0; i < n; ++i) d[i] = s[i]; }

void harness(void)
{
	INPUT_ARRAY(u8, hpath, M * (PL + 1)); INPUT_ARRAY(u8, htarget, M * (TL + 1)); INPUT_ARRAY(u8, hname, M);
	INPUT_ARRAY(u8, kind, M); INPUT_ARRAY(u8, hasname, M); INPUT_ARRAY(u32, hextra, M); INPUT_ARRAY(u32, hts, M);
	INPUT_ARRAY(u8, skip, M); INPUT_ARRAY(u8, v_arch, MAXIT * 4); INPUT_ARRAY(u8, v_dec, M);
	INPUT(u8, policy); INPUT(u8, fws);
	unsigned i, j, it, n_placeholders = 0;
	LHAFileHeader *h = NULL;

	ASSUME(policy <= 2);
	for (i = 0; i < M; ++i) {
		for (j = 0; j <= PL; ++j) s_path[i][j] = (char) hpath[i * (PL + 1) + j];
		for (j = 0; j <= TL; ++j) s_target[i][j] = (char) htarget[i * (TL + 1) + j];
		ASSUME(s_path[i][PL] == 0 && s_target[i][TL] == 0);
		s_name[i][0] = (char) hname[i]; s_name[i][1] = 0;
		hdrs[i]->path = s_path[i];
		hdrs[i]->filename = (hasname[i] & 1) ? s_name[i] : NULL;
		ASSUME(kind[i] <= 2);        /* 0 directory, 1 file, 2 symlink */
		memcpy(hdrs[i]->compress_method, kind[i] == 1 ? "-lh5-" : "-lhd-", 6);
		hdrs[i]->symlink_target = kind[i] == 2 ? s_target[i] : NULL;
		hdrs[i]->extra_flags = hextra[i]; hdrs[i]->timestamp = hts[i]; hdrs[i]->unix_perms = hextra[i] >> 8;
		env_dec_ok[i] = v_dec[i]; env_rd_len[i] = v_dec[i] >> 1; env_dec_len[i] = 0; env_dec_crc[i] = 0;
	}
	copy_bytes(arch_ok, v_arch, MAXIT * 4);
	env_fwrite_short = fws;
	env_reader_init(policy);

	for (it = 0; it < MAXIT; ++it) {
		int idx;
		h = lha_reader_next_file(&rd);
		if (h == NULL) break;
		idx = env_index(h);
		CHECK(idx >= 0, "the reader returns one of the archive's headers");
		/* the tool extracts every entry its filter selects; fake directories and deferred links are copies of
		 * entries selected before, so they are always extracted; members may be skipped arbitrarily */
		if (lha_reader_current_is_fake(&rd) || !(skip[idx] & 1)) (void) lha_reader_extract(&rd, out_name[idx], NULL, NULL);
	}
	CHECK(h == NULL && rd.curr_file_type == CURR_FILE_EOF, "C13: the run ends within 3M+1 entries");
	CHECK(rd.dir_stack == NULL && rd.deferred_symlinks == NULL, "C10: nothing is left queued at end of file");
	CHECK(env_open_streams == 0, "C20: every output stream was closed");
	for (i = 0; i < M; ++i) {
		CHECK(placeholder[i] == link_made[i], "C10: every placeholder is replaced by its link before end of file, and only placeholders are");
		n_placeholders += placeholder[i];
	}
	if (n_placeholders == 2 && ref_plen(hdrs[0]) < ref_plen(hdrs[1]) && placeholder[0] && placeholder[1]) WITNESS("two deferred links, created in the opposite of archive order");
#if M >= 3
	if (n_placeholders == 1 && kind[0] == 0 && kind[1] == 2 && kind[2] == 1 && policy != 0 && !(skip[0] & 1) && !(skip[2] & 1)) WITNESS("directory, dangerous link, file");
#else
	if (n_placeholders == 1 && kind[0] == 0 && kind[1] == 2 && policy != 0 && !(skip[0] & 1)) WITNESS("directory, dangerous link");
#endif
	if (n_placeholders == 0 && kind[0] == 2 && !(skip[0] & 1) && s_target[0][0] == '.' && s_target[0][1] == '.' && s_target[0][2] == '.') WITNESS("safe link '...' made at once");
	WITNESS("end");
}
