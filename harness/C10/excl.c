/* C10 / H10.excl: lib/lha_arch_unix.c as a call trace over recording libc stubs with arbitrary results.
 *   lha_arch_fopen(p, uid, gid, perms) = unlink(p); fd = open(p, O_CREAT|O_WRONLY|O_EXCL, owner-only mode);
 *       [fchown(fd)] [fchmod(fd)] fdopen(fd) - ownership/permissions are applied through the descriptor, never
 *       through a path; on every failure after open the descriptor is closed and p removed;
 *   lha_arch_symlink(p, t) = unlink(p); symlink(t, p).
 * So an object already present at the final path component (e.g. a symlink planted earlier) is removed and the
 * new object is created exclusively: it is replaced, never followed.  What unlink/open(O_EXCL) do in the real
 * kernel is outside the check. */
#define _GNU_SOURCE
#include "verif.h"
#include <stdio.h>
#include <stdarg.h>
#include <errno.h>
#include <fcntl.h>
#include <unistd.h>
#include <utime.h>
#include <sys/stat.h>
#include <sys/types.h>

enum { EV_UNLINK = 1, EV_OPEN, EV_FCHOWN, EV_FCHMOD, EV_FDOPEN, EV_CLOSE, EV_REMOVE, EV_SYMLINK, EV_MKDIR,
       EV_CHOWN, EV_CHMOD, EV_UTIME, EV_STAT, EV_OTHER };
#define MAXEV 10
typedef struct { int op; const char *path; const char *path2; long a, b; } Ev;
static Ev ev[MAXEV];
static unsigned nev;
static void rec(int op, const char *path, const char *path2, long a, long b)
{
	if (nev < MAXEV) { ev[nev].op = op; ev[nev].path = path; ev[nev].path2 = path2; ev[nev].a = a; ev[nev].b = b; }
	++nev;
}

/* arbitrary results, fixed per run */
static int r_unlink, r_open, r_fchown, r_fchmod, r_close, r_remove, r_symlink, r_mkdir, r_chown, r_chmod, r_utime, r_stat;
static int fdopen_ok, stat_errno;
static unsigned stat_mode;
static FILE the_stream;
static const char *fdopen_mode;

static int verif_unlink(const char *p) { rec(EV_UNLINK, p, 0, 0, 0); return r_unlink; }
static int verif_open(const char *p, int flags, ...)
{
	va_list ap; int mode;
	va_start(ap, flags); mode = va_arg(ap, int); va_end(ap);
	rec(EV_OPEN, p, 0, flags, mode);
	return r_open;
}
static int verif_fchown(int fd, uid_t u, gid_t g) { rec(EV_FCHOWN, 0, 0, fd, ((long) u << 32) | (long) (unsigned) g); return r_fchown; }
static int verif_fchmod(int fd, mode_t m) { rec(EV_FCHMOD, 0, 0, fd, (long) m); return r_fchmod; }
static FILE *verif_fdopen(int fd, const char *mode) { rec(EV_FDOPEN, 0, 0, fd, 0); fdopen_mode = mode; return fdopen_ok ? &the_stream : NULL; }
static int verif_close(int fd) { rec(EV_CLOSE, 0, 0, fd, 0); return r_close; }
static int verif_remove(const char *p) { rec(EV_REMOVE, p, 0, 0, 0); return r_remove; }
static int verif_symlink(const char *target, const char *linkpath) { rec(EV_SYMLINK, linkpath, target, 0, 0); return r_symlink; }
static int verif_mkdir(const char *p, mode_t m) { rec(EV_MKDIR, p, 0, (long) m, 0); return r_mkdir; }
static int verif_chown(const char *p, uid_t u, gid_t g) { rec(EV_CHOWN, p, 0, (long) u, (long) g); return r_chown; }
static int verif_chmod(const char *p, mode_t m) { rec(EV_CHMOD, p, 0, (long) m, 0); return r_chmod; }
static int verif_utime(const char *p, const struct utimbuf *t) { rec(EV_UTIME, p, 0, (long) t->actime, (long) t->modtime); return r_utime; }
static int verif_stat(const char *p, struct stat *st) { rec(EV_STAT, p, 0, 0, 0); st->st_mode = stat_mode; if (r_stat != 0) errno = stat_errno; return r_stat; }
/* anything else that takes a path and could mutate or follow links must not be used at all */
static int verif_forbidden(void) { rec(EV_OTHER, 0, 0, 0, 0); return -1; }

#define unlink  verif_unlink
#define open    verif_open
#define fchown  verif_fchown
#define fchmod  verif_fchmod
#define fdopen  verif_fdopen
#define close   verif_close
#define remove  verif_remove
#define symlink verif_symlink
#define mkdir   verif_mkdir
#define chown   verif_chown
#define chmod   verif_chmod
#define utime   verif_utime
#define stat(p, st) verif_stat(p, st)
#define fopen(...)    ((FILE *) (long) verif_forbidden())
#define creat(...)    verif_forbidden()
#define rename(...)   verif_forbidden()
#define lchown(...)   verif_forbidden()
#define truncate(...) verif_forbidden()
#define link(...)     verif_forbidden()
#define rmdir(...)    verif_forbidden()
#define openat(...)   verif_forbidden()
#include "lib/lha_arch_unix.c"
#undef stat

static char the_path[4] = "p/x";
static char the_target[4] = "/t";

void harness(void)
{
	INPUT(u8, which);
	INPUT(i32, uid); INPUT(i32, gid); INPUT(i32, perms); INPUT(u32, mode); INPUT(u32, ts);
	INPUT(i32, v_unlink); INPUT(i32, v_open); INPUT(i32, v_fchown); INPUT(i32, v_fchmod); INPUT(i32, v_close);
	INPUT(i32, v_remove); INPUT(i32, v_symlink); INPUT(i32, v_mkdir); INPUT(i32, v_chown); INPUT(i32, v_chmod);
	INPUT(i32, v_utime); INPUT(i32, v_stat); INPUT(u8, v_fdopen); INPUT(i32, v_errno); INPUT(u32, v_stmode);
	unsigned i, k;
	r_unlink = v_unlink; r_open = v_open; r_fchown = v_fchown; r_fchmod = v_fchmod; r_close = v_close;
	r_remove = v_remove; r_symlink = v_symlink; r_mkdir = v_mkdir; r_chown = v_chown; r_chmod = v_chmod;
	r_utime = v_utime; r_stat = v_stat; fdopen_ok = v_fdopen & 1; stat_errno = v_errno; stat_mode = v_stmode;
	/* libc contract: these return 0 or -1; open returns a descriptor >= 0 or -1 */
	ASSUME(v_unlink == 0 || v_unlink == -1); ASSUME(v_open >= -1);
	ASSUME(v_fchown == 0 || v_fchown == -1); ASSUME(v_fchmod == 0 || v_fchmod == -1);
	ASSUME(v_symlink == 0 || v_symlink == -1); ASSUME(v_mkdir == 0 || v_mkdir == -1);
	ASSUME(v_chown == 0 || v_chown == -1); ASSUME(v_chmod == 0 || v_chmod == -1);
	ASSUME(v_utime == 0 || v_utime == -1); ASSUME(v_stat == 0 || v_stat == -1);

	if (which % 7 == 0) {
		FILE *f = lha_arch_fopen(the_path, uid, gid, perms);
		int opened = v_open >= 0;
		int want_chown = opened && uid >= 0;
		int chmod_tried = opened && perms >= 0;
		int chmod_failed = chmod_tried && v_fchmod != 0;
		int fdopen_tried = opened && !chmod_failed;
		int ok = fdopen_tried && (v_fdopen & 1);
		unsigned closes = 0, removes = 0;
		CHECK(nev <= MAXEV, "C10: trace fits the recorder");
		/* 1. the existing object at the final component is removed first, by unlink (which never follows a link) */
		CHECK(nev >= 2 && ev[0].op == EV_UNLINK && ev[0].path == the_path, "C10: lha_arch_fopen starts with unlink(path)");
		/* 2. exclusive creation: O_CREAT|O_EXCL fails instead of following/opening whatever is there */
		CHECK(ev[1].op == EV_OPEN && ev[1].path == the_path, "C10: then open(path, ...)");
		CHECK((ev[1].a & O_CREAT) && (ev[1].a & O_EXCL), "C10: open uses O_CREAT|O_EXCL (an existing link is never followed)");
		CHECK((ev[1].a & O_ACCMODE) == O_WRONLY, "C10: open for writing only");
		CHECK((ev[1].a & ~(O_CREAT | O_EXCL | O_WRONLY | O_NOFOLLOW | O_CLOEXEC)) == 0, "C10: no other open flags (no O_TRUNC/O_APPEND on a followed object)");
		CHECK((ev[1].b & 077) == 0 && (ev[1].b & 0600) == 0600 && (ev[1].b & ~0777L) == 0, "C06/C10: file is created accessible to the owner only (0600)");
		/* 3. what follows */
		k = 2;
		if (!opened) {
			CHECK(f == NULL && nev == 2, "C10: open failure -> NULL, nothing else is touched");
		} else {
			if (want_chown) {
				CHECK(nev > k && ev[k].op == EV_FCHOWN && ev[k].a == v_open && ev[k].b == (((long) (uid_t) uid << 32) | (long) (unsigned) gid),
				      "C06: owner/group applied through the new descriptor (fchown), before the permissions");
				++k;
			}
			if (chmod_tried) {
				CHECK(nev > k && ev[k].op == EV_FCHMOD && ev[k].a == v_open && ev[k].b == (long) (mode_t) perms,
				      "C06: recorded permissions applied through the new descriptor (fchmod)");
				++k;
			}
			if (fdopen_tried) {
				CHECK(nev > k && ev[k].op == EV_FDOPEN && ev[k].a == v_open, "C06: stream is made from the same descriptor");
				CHECK(fdopen_mode[0] == 'w', "C06: stream opened for writing");
				++k;
			}
			if (ok) {
				CHECK(f == &the_stream && nev == k, "C06: success returns the stream; descriptor stays open, nothing removed");
			} else {
				CHECK(f == NULL, "C10: failure after open returns NULL");
				CHECK(nev == k + 2 && ev[k].op == EV_CLOSE && ev[k].a == v_open, "C10: cleanup closes the descriptor exactly once");
				CHECK(ev[k + 1].op == EV_REMOVE && ev[k + 1].path == the_path, "C10: cleanup removes the file it created (same path)");
			}
		}
		for (i = 0; i < nev && i < MAXEV; ++i) {
			CHECK(ev[i].op != EV_CHOWN && ev[i].op != EV_CHMOD && ev[i].op != EV_UTIME && ev[i].op != EV_OTHER
			      && ev[i].op != EV_SYMLINK && ev[i].op != EV_MKDIR,
			      "C10: lha_arch_fopen uses no path-based metadata call and no other path-taking call");
			if (ev[i].path) CHECK(ev[i].path == the_path, "C10: every path handed to libc is the caller's path");
			if (ev[i].op == EV_CLOSE) ++closes;
			if (ev[i].op == EV_REMOVE) ++removes;
		}
		CHECK(closes == ((opened && !ok) ? 1u : 0u) && removes == closes, "C10: descriptor closed iff creation failed after open");
		if (opened && uid >= 0 && v_fchown != 0 && ok) WITNESS("fchown failure is tolerated");
		if (chmod_failed) WITNESS("fchmod failure cleanup");
		if (fdopen_tried && !ok) WITNESS("fdopen failure cleanup");
		if (v_unlink == -1 && ok) WITNESS("nothing to unlink, creation succeeds");
	} else if (which % 7 == 1) {
		int r = lha_arch_symlink(the_path, the_target);
		CHECK(nev == 2, "C10: lha_arch_symlink makes exactly two libc calls");
		CHECK(ev[0].op == EV_UNLINK && ev[0].path == the_path, "C10: lha_arch_symlink removes whatever is at the link path first");
		CHECK(ev[1].op == EV_SYMLINK && ev[1].path == the_path && ev[1].path2 == the_target, "C10: then symlink(target, path)");
		CHECK((r != 0) == (v_symlink == 0), "C10: result reports symlink()'s success");
		if (v_unlink == -1 && r) WITNESS("symlink created where nothing existed");
	} else if (which % 7 == 2) {
		int r = lha_arch_mkdir(the_path, mode);
		CHECK(nev == 1 && ev[0].op == EV_MKDIR && ev[0].path == the_path && ev[0].a == (long) (mode_t) mode, "C06: lha_arch_mkdir = mkdir(path, mode)");
		CHECK((r != 0) == (v_mkdir == 0), "C06: mkdir result");
	} else if (which % 7 == 3) {
		int r = lha_arch_chmod(the_path, perms);
		CHECK(nev == 1 && ev[0].op == EV_CHMOD && ev[0].path == the_path && ev[0].a == (long) (mode_t) perms, "C06: lha_arch_chmod = chmod(path, perms)");
		CHECK((r != 0) == (v_chmod == 0), "C06: chmod result");
	} else if (which % 7 == 4) {
		int r = lha_arch_chown(the_path, uid, gid);
		CHECK(nev == 1 && ev[0].op == EV_CHOWN && ev[0].path == the_path && ev[0].a == (long) (uid_t) uid && ev[0].b == (long) (gid_t) gid, "C06: lha_arch_chown = chown(path, uid, gid)");
		CHECK((r != 0) == (v_chown == 0), "C06: chown result");
	} else if (which % 7 == 5) {
		int r = lha_arch_utime(the_path, ts);
		CHECK(nev == 1 && ev[0].op == EV_UTIME && ev[0].path == the_path && ev[0].a == (long) ts && ev[0].b == (long) ts, "C06: lha_arch_utime sets access and modification time to the recorded stamp");
		CHECK((r != 0) == (v_utime == 0), "C06: utime result");
	} else {
		LHAFileType t = lha_arch_exists(the_path);
		CHECK(nev == 1 && ev[0].op == EV_STAT && ev[0].path == the_path, "C10: lha_arch_exists only stats the path (no mutation)");
		if (v_stat != 0) CHECK(t == ((v_errno == ENOENT) ? LHA_FILE_NONE : LHA_FILE_ERROR), "C06: missing object vs. error");
		else CHECK(t == (S_ISDIR(v_stmode) ? LHA_FILE_DIRECTORY : LHA_FILE_FILE), "C06: directory vs. other object");
		if (v_stat == 0 && t == LHA_FILE_DIRECTORY) WITNESS("exists: directory");
	}
	WITNESS("end");
}
