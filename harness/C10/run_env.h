/* Shared environment for whole-run harnesses of the real reader layer (lib/lha_reader.c):
 * M abstract members served by a stubbed basic reader, stub decoders, static reader object.
 * The including harness defines the arch layer (lha_arch_*) itself.  Include AFTER verif.h. */
#ifndef RUN_ENV_H
#define RUN_ENV_H
#include <stdio.h>
#include <stdlib.h>
#include <string.h>

#ifndef M
#define M 3
#endif

static FILE env_file;
static unsigned env_open_streams;       /* streams handed out by lha_arch_fopen and not yet closed */
static u8 env_fwrite_short;
static int env_fclose(FILE *f) { (void) f; CHECK(env_open_streams > 0, "C20: only open streams are closed"); --env_open_streams; return 0; }
static size_t env_fwrite(const void *p, size_t sz, size_t n, FILE *f) { (void) p; (void) sz; (void) f; return (env_fwrite_short & 1) && n > 0 ? n - 1 : n; }
#define fclose env_fclose
#define fwrite env_fwrite
#include "lib/lha_reader.c"
#undef fclose
#undef fwrite

/* one object per member (NOT an array of structs: pointers into an array get a symbolic offset and every
 * header access turns into a byte-extract over the whole array) */
static LHAFileHeader env_h0, env_h1, env_h2, env_h3;
static LHAFileHeader *const hdrs[4] = { &env_h0, &env_h1, &env_h2, &env_h3 };
static char out_name[M][2];             /* the caller's output path per member: only its identity matters */
static unsigned env_cur;                /* 0 before the first member, k = k-th member current, M+1 = exhausted */
static char env_basic_token;
static LHAReader rd;

static LHAFileHeader *env_member(unsigned k)
{
	unsigned i;
	for (i = 0; i < M; ++i) if (k == i + 1) return hdrs[i];    /* case split keeps pointers simple */
	return NULL;
}
static int env_index(const LHAFileHeader *h)
{
	unsigned i;
	for (i = 0; i < M; ++i) if (h == hdrs[i]) return (int) i;
	return -1;
}
#define env_exhausted() (env_cur > M)

LHAFileHeader *lha_basic_reader_next_file(LHABasicReader *r) { (void) r; if (env_cur <= M) ++env_cur; return env_member(env_cur); }
LHAFileHeader *lha_basic_reader_curr_file(LHABasicReader *r) { (void) r; return env_member(env_cur); }
void lha_basic_reader_free(LHABasicReader *r) { (void) r; }
static unsigned env_refs[M];            /* references taken by the reader on top of the basic reader's own */
void lha_file_header_add_ref(LHAFileHeader *h) { int i = env_index(h); if (i >= 0) ++env_refs[i]; }
void lha_file_header_free(LHAFileHeader *h) { int i = env_index(h); if (i >= 0) { CHECK(env_refs[i] > 0, "C20: the reader releases only references it took"); --env_refs[i]; } }
char *lha_file_header_full_path(LHAFileHeader *h) { (void) h; CHECK(0, "harness: the caller always passes an output path"); return NULL; }

static LHADecoder env_dec;
static u8 env_dec_ok[M], env_rd_len[M];
static u32 env_dec_len[M]; static u16 env_dec_crc[M];
static unsigned env_reads;
LHADecoder *lha_basic_reader_decode(LHABasicReader *r) { (void) r; env_reads = 0; return (env_cur >= 1 && env_cur <= M && (env_dec_ok[env_cur - 1] & 1)) ? &env_dec : NULL; }
LHADecoder *lha_macbinary_passthrough(LHADecoder *d, LHAFileHeader *h) { (void) h; return d; }
void lha_decoder_free(LHADecoder *d) { (void) d; }
void lha_decoder_monitor(LHADecoder *d, LHADecoderProgressCallback cb, void *data) { (void) d; (void) cb; (void) data; }
size_t lha_decoder_read(LHADecoder *d, uint8_t *buf, size_t buf_len)
{
	size_t n;
	(void) d; (void) buf;
	if (env_reads >= 1 || env_cur < 1 || env_cur > M) return 0;
	++env_reads;
	n = env_rd_len[env_cur - 1];
	return n > buf_len ? buf_len : n;
}
size_t lha_decoder_get_length(LHADecoder *d) { (void) d; return (env_cur >= 1 && env_cur <= M) ? env_dec_len[env_cur - 1] : 0; }
uint16_t lha_decoder_get_crc(LHADecoder *d) { (void) d; return (env_cur >= 1 && env_cur <= M) ? env_dec_crc[env_cur - 1] : 0; }

static void env_reader_init(unsigned policy)
{
	rd.reader = (LHABasicReader *) &env_basic_token;       /* exactly the state lha_reader_new leaves */
	rd.curr_file = NULL; rd.curr_file_type = CURR_FILE_START; rd.decoder = NULL; rd.inner_decoder = NULL;
	rd.dir_stack = NULL; rd.deferred_symlinks = NULL;
	lha_reader_set_dir_policy(&rd, (LHAReaderDirPolicy) policy);
}
#endif
