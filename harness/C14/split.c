/* C14: lha_decoder_read is split-invariant, stops exactly at the declared length, reports length and CRC of
 * exactly the bytes returned; progress monitor sees blocks rising by one.
 * Scripted decoder: its read() hands out CH chunks of symbolic size (0..MAXCH, 0 = failure/end) and content. */
#include "verif.h"
#include "ref_crc16.h"
#include <string.h>
/* libc memcpy model: byte loop (n is bounded by the decoder's max_read here) */
static void *verif_memcpy(void *d, const void *s, size_t n)
{
	size_t i;
	for (i = 0; i < n; ++i) ((u8 *) d)[i] = ((const u8 *) s)[i];
	return d;
}
#define memcpy verif_memcpy
#include "lib/crc16.c"
#include "lib/lha_decoder.c"
#undef memcpy

#ifndef CH
#define CH 3          /* chunks in the script */
#endif
#ifndef MAXCH
#define MAXCH 3       /* bytes per chunk */
#endif
#ifndef RD
#define RD 3          /* reads in the split schedule */
#endif
#define TOT (CH * MAXCH)

static u8 sc_len[CH];
static u8 sc_data[CH][MAXCH];

typedef struct { unsigned next; } Script;
static size_t script_read(void *extra, uint8_t *buf)
{
	Script *s = extra;
	unsigned i, n;
	if (s->next >= CH) return 0;
	n = sc_len[s->next];
	for (i = 0; i < MAXCH; ++i) if (i < n) buf[i] = sc_data[s->next][i];
	++s->next;
	return n;
}
static LHADecoderType script_type = { NULL, NULL, script_read, sizeof(Script), MAXCH, 1 };

typedef struct { LHADecoder d; Script st; u8 outbuf[MAXCH]; } Box;

static void box_init(Box *b, size_t stream_length)
{
	/* exactly the state lha_decoder_new leaves behind (checked by harness_new) */
	b->d.dtype = &script_type;
	b->d.progress_callback = NULL;
	b->d.last_block = UINT_MAX;
	b->d.outbuf_pos = 0;
	b->d.outbuf_len = 0;
	b->d.stream_pos = 0;
	b->d.stream_length = stream_length;
	b->d.decoder_failed = 0;
	b->d.crc = 0;
	b->d.outbuf = b->outbuf;
	b->st.next = 0;
}

static Box A, B;

/* monitor */
static unsigned mon_calls, mon_last, mon_total, mon_ok;
static void monitor(unsigned int num, unsigned int total, void *data)
{
	(void) data;
	if (mon_calls == 0) { if (num != mon_last) mon_ok = 0; }
	else if (num != mon_last + 1) mon_ok = 0;
	if (mon_calls > 0 && total != mon_total) mon_ok = 0;
	mon_last = num;
	mon_total = total;
	++mon_calls;
}

void harness(void)
{
	INPUT_ARRAY(u8, lens, CH);
	INPUT_ARRAY(u8, bytes, CH * MAXCH);
	INPUT_ARRAY(u8, sizes, RD);
	INPUT(u32, declared);
	INPUT(u32, attach_at);
	INPUT(u32, bsize);
	unsigned i, r, na = 0, nb, avail = 0, expect_total, stopped = 0;
	u8 outA[TOT + 4], outB[TOT + 4];

	ASSUME(declared <= TOT + 2);
	ASSUME(attach_at <= RD);
	ASSUME(bsize >= 1 && bsize <= 4);
	script_type.block_size = bsize;
	for (i = 0; i < CH; ++i) {
		ASSUME(lens[i] <= MAXCH);
		sc_len[i] = lens[i];
	}
	for (i = 0; i < CH * MAXCH; ++i) sc_data[i / MAXCH][i % MAXCH] = bytes[i];
	/* bytes the script can deliver before its first empty chunk */
	for (i = 0; i < CH; ++i) {
		if (!stopped) { if (sc_len[i] == 0) stopped = 1; else avail += sc_len[i]; }
	}
	expect_total = avail < declared ? avail : declared;

	/* run B: one maximal read */
	box_init(&B, declared);
	nb = (unsigned) lha_decoder_read(&B.d, outB, TOT + 4);
	CHECK(nb == expect_total, "a maximal read returns min(declared length, bytes the stream decodes to)");
	CHECK(lha_decoder_get_length(&B.d) == nb, "reported length equals bytes returned (single read)");
	CHECK(lha_decoder_get_crc(&B.d) == ref_crc16(0, outB, nb), "reported CRC is CRC-16 of exactly the bytes returned (single read)");
	{
		/* content: byte k of the output is byte k of the concatenated chunks */
		INPUT(u32, k);
		unsigned c, off = 0;
		ASSUME(k < TOT);
		if (k < nb) {
			u8 e = 0;
			for (c = 0; c < CH; ++c) {
				if (k >= off && k < off + sc_len[c]) e = sc_data[c][k - off];
				off += sc_len[c];
			}
			CHECK(outB[k] == e, "output is the concatenation of the decoder's chunks");
		}
	}
	CHECK(lha_decoder_read(&B.d, outB, 4) == 0, "after the end every further read returns 0");

	/* run A: arbitrary schedule of reads, monitor attached at an arbitrary point */
	box_init(&A, declared);
	mon_ok = 1; mon_calls = 0; mon_last = 0;
	for (r = 0; r < RD; ++r) {
		unsigned want = sizes[r], got;
		ASSUME(want <= TOT + 3);
		if (r == attach_at) {
			/* wherever the monitor is attached, the block counts it sees start at 0 and rise by one (the blocks
			 * already decoded are announced in a burst at attach time) */
			mon_last = 0;
			lha_decoder_monitor(&A.d, monitor, 0);
		}
		ASSUME(na + want <= TOT + 4);
		got = (unsigned) lha_decoder_read(&A.d, outA + na, want);
		CHECK(got <= want, "no read returns more than was asked for");
		na += got;
		CHECK(lha_decoder_get_length(&A.d) == na, "reported length equals bytes returned so far");
	}
	CHECK(na <= nb, "split reads never yield more than the single read");
	for (i = 0; i < TOT; ++i) {
		if (i < na) CHECK(outA[i] == outB[i], "split reads yield the same bytes as a single read");
	}
	CHECK(lha_decoder_get_crc(&A.d) == ref_crc16(0, outA, na), "reported CRC is CRC-16 of exactly the bytes returned (split reads)");
	{
		unsigned asked = 0;
		for (r = 0; r < RD; ++r) asked += sizes[r];
		if (asked >= nb) CHECK(na == nb, "reading at least the total in pieces yields everything");
		else CHECK(na == asked || A.d.decoder_failed, "reads are filled completely while data remains");
	}
	if (attach_at < RD) {
		CHECK(mon_ok, "monitor: block counts start at 0 and rise by exactly one, constant total");
		CHECK(mon_total == (declared + bsize - 1) / bsize, "monitor: announced total = ceil(declared / block size)");
		if (na == declared) CHECK(mon_last == mon_total, "monitor: reaches the announced total when the stream decodes completely");
	}
	if (nb == TOT && sizes[0] == 1 && sizes[RD - 1] == 0) WITNESS("full-length stream, 1-byte and 0-byte reads");
	if (declared < avail && nb == declared && na == nb) WITNESS("declared length cuts the stream short");
	WITNESS("end");
}

/* lha_decoder_new leaves exactly the state box_init builds */
static int init_called;
static u8 init_result;
static int t_init(void *extra, LHADecoderCallback cb, void *cbdata) { (void) extra; (void) cb; (void) cbdata; init_called = 1; return init_result & 1; }
void harness_new(void)
{
	INPUT(u32, declared); INPUT(u8, init_ok);
	LHADecoder *d;
	script_type.init = t_init;
	init_result = init_ok;
	d = lha_decoder_new(&script_type, 0, 0, declared);
	/* C20: a method whose init fails (the MacBinary pass-through on a short member) yields no decoder and leaves nothing
	 * allocated; checked by CBMC's memory-leak instrumentation at the end of this function (leak=True in the plan) */
	if (!(init_ok & 1)) CHECK(d == NULL, "C20/C14: no decoder is returned when the method's init fails");
	if (d == NULL && !(init_ok & 1)) WITNESS("init failed");
	if (d != NULL) {
		CHECK(d->dtype == &script_type && d->progress_callback == NULL && d->last_block == UINT_MAX
		      && d->outbuf_pos == 0 && d->outbuf_len == 0 && d->stream_pos == 0 && d->stream_length == declared
		      && d->decoder_failed == 0 && d->crc == 0, "lha_decoder_new initial bookkeeping");
		CHECK(d->outbuf == (uint8_t *) (d + 1) + sizeof(Script), "output buffer follows the private area");
		CHECK(init_called, "init callback invoked");
		CHECK(lha_decoder_get_length(d) == 0 && lha_decoder_get_crc(d) == 0, "accessors at start");
		lha_decoder_free(d);
		WITNESS("new");
	}
}
