/* C13 (every call returns; truncated data ends the member): lib/macbinary.c read_macbinary_header over an inner
 * decoder that delivers arbitrary piece sizes (any count 0..asked per call: short reads, end of data anywhere).
 * The header collection loop must end: after at most 128 calls that deliver >= 1 byte, or at the first call that
 * delivers nothing (the stream ended inside the 128-byte envelope => failure, not a retry).  The loop bound is the
 * property (unwind_is_property): with pieces of >= PMIN bytes it needs at most ceil(128/PMIN)+1 iterations. */
#include "verif.h"
#include "libc_models.h"
#include <stdlib.h>
#include <string.h>
#define memcpy verif_memcpy
#define memcmp verif_memcmp
#include "lib/macbinary.c"
#undef memcpy
#undef memcmp

#ifndef PMIN
#define PMIN 32               /* smallest non-empty piece the inner decoder delivers in this instance */
#endif
SEQ_DECL(u8, piece);
static unsigned inner_calls, delivered, ended;
size_t lha_decoder_read(LHADecoder *d, uint8_t *buf, size_t n)
{
	unsigned k = SEQ_NEXT(u8, piece);
	(void) d; (void) buf;
	++inner_calls;
	CHECK(!ended, "C13: the inner decoder is not asked again after it reported the end of its data");
	if (k > n) k = (unsigned) n;
	if (k != 0 && k < PMIN && k < n) k = PMIN < n ? PMIN : (unsigned) n;      /* pieces of at least PMIN bytes (or the rest) */
	if (k == 0) ended = 1;
	delivered += k;
	return k;
}
LHADecoder *lha_decoder_new(LHADecoderType *t, LHADecoderCallback cb, void *cbd, size_t len) { (void) t; (void) cb; (void) cbd; (void) len; return NULL; }
uint32_t lha_decode_be_uint32(uint8_t *buf) { return ((uint32_t) buf[0] << 24) | ((uint32_t) buf[1] << 16) | ((uint32_t) buf[2] << 8) | buf[3]; }

void harness(void)
{
	static MacBinaryDecoder dec;
	static LHAFileHeader hdr;
	static char nm[2] = "f";
	int r;
	hdr.filename = nm; hdr.length = 200;
	dec.decoder = (LHADecoder *) &dec;        /* opaque to the stub */
	r = read_macbinary_header(&dec, &hdr);
	CHECK(inner_calls <= 128 / PMIN + 1, "C13: collecting the 128-byte envelope takes at most ceil(128/piece)+1 calls of the inner decoder");
	if (ended) CHECK(r == 0, "C13: a member that ends inside its MacBinary envelope is a failure, reported at once");
	else CHECK(delivered == 128 && r != 0, "exactly the 128 envelope bytes are collected");
	if (ended && delivered > 0) WITNESS("data ended after a partial envelope");
	if (!ended && inner_calls == 128 / PMIN) WITNESS("envelope collected from the smallest pieces");
	WITNESS("end");
}
