/* C13: skipping a member's data through the read callback (streams without a skip function)
 * terminates within a step budget, also when the data is truncated; success means exactly
 * 'bytes' were consumed. */
#define SRC_N 24
#define SRC_CALLS 3
#define SRC_NOCOPY
#include "src_model.h"
#include "lib/lha_input_stream.c"

static const LHAInputStreamType cb_type = { src_read, NULL, NULL };

void harness(void)
{
	INPUT_ARRAY(u8, shorts, SRC_CALLS);
	INPUT(u32, slen);
	INPUT(u32, bytes);
	LHAInputStream st;
	unsigned i;
	int r;
	ASSUME(slen <= 100 && bytes <= 70);
	for (i = 0; i < SRC_CALLS; ++i) src_short[i] = shorts[i];
	src_len = slen;
	st.type = &cb_type; st.handle = 0; st.state = LHA_INPUT_STREAM_READING; st.leadin_len = 0;
	/* at most SRC_CALLS short reads, then full 32-byte reads, plus the read that sees the end */
	src_budget = (bytes + 31) / 32 + SRC_CALLS + 1;
	r = lha_input_stream_skip(&st, bytes);
	if (bytes <= slen) {
		CHECK(r != 0, "skip succeeds when the data is present");
		CHECK(src_pos == bytes, "skip consumes exactly the requested number of bytes");
	} else {
		CHECK(r == 0, "skipping past the end of a truncated stream reports failure (and returns)");
	}
	if (bytes == 70 && slen == 10) WITNESS("truncated");
	if (bytes == 33 && slen == 50 && shorts[0] == 1) WITNESS("two buffers, short read");
	WITNESS("end");
}
