/* C13 (heap bound) / C09 (declared buffer sizes): the method table of lib/lha_decoder.c, all 14 names, with the
 * real decoder types linked in.  Concrete facts the heap bound rests on:
 *   - every method name of the property maps to a decoder type; unknown names map to none;
 *   - one decoder costs sizeof(LHADecoder) + extra_size + max_read bytes, allocated once (lha_decoder_new: C14
 *     decoder.new), and that is at most 2 MiB + 64 KiB for the largest (-lhx-), i.e. "about 2 MiB";
 *   - max_read > 0 and block_size as declared. */
#include "verif.h"
#include <string.h>
#include "lib/lha_decoder.c"

void harness(void)
{
	static const char *const names[14] = { "-lz4-", "-lz5-", "-lzs-", "-lh0-", "-lh1-", "-lh4-", "-lh5-", "-lh6-", "-lh7-", "-lhx-", "-lk7-", "-pm0-", "-pm1-", "-pm2-" };
	unsigned i;
	size_t worst = 0;
	INPUT_ARRAY(u8, other, 6);
	CHECK(sizeof(decoders) / sizeof(*decoders) == 14, "method table has the 14 supported names");
	for (i = 0; i < 14; ++i) {
		LHADecoderType *t = lha_decoder_for_name((char *) names[i]);
		size_t total;
		CHECK(t != NULL, "C09/C13: every supported method name maps to a decoder");
		if (t == NULL) continue;
		total = sizeof(LHADecoder) + t->extra_size + t->max_read;
		CHECK(t->max_read > 0 && t->read != NULL, "decoder declares a non-empty output buffer and a read function");
		CHECK(total <= 2u * 1024 * 1024 + 64 * 1024, "C13: one decoder's state and output buffer together stay within about 2 MiB");
		if (total > worst) worst = total;
	}
	CHECK(worst >= 1024 * 1024, "the largest decoder (-lhx-, 1 MiB window) is in the table");
	/* any other 5-character name has no decoder */
	other[5] = 0;
	{
		unsigned known = 0;
		for (i = 0; i < 14; ++i) if (memcmp(other, names[i], 6) == 0) known = 1;
		if (!known) CHECK(lha_decoder_for_name((char *) other) == NULL, "C09: an unknown method name has no decoder");
	}
	WITNESS("end");
}
