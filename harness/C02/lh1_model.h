/* C02 / C09(lh1): shared pieces for the -lh1- adaptive-tree harnesses.  Included AFTER "lib/lh1_decoder.c".
 *
 *  1. LZHUF reference (Okumura/Yoshizaki LZHUF.C: StartHuff, reconst, update, DecodeChar), transcribed on its
 *     own freq[]/son[]/prnt[] arrays.  N_CHAR and MAX_FREQ are taken from the harness parameters
 *     (LZ_N / LZ_MAX_FREQ), not from the macros of the code under test.
 *  2. The correspondence  lhasa node i  <->  LZHUF node R-i  (child_index <-> son, bit 0 <-> son, bit 1 <-> son+1;
 *     leaf with code c <-> son = c + T;  leaf_nodes[c] <-> prnt[c + T]).
 *  3. The explicit state invariant of LHALH1Decoder's tree and group bookkeeping (inv_*), used as the
 *     assumption of the inductive harnesses and asserted after every step.
 *  4. Loading an arbitrary decoder tree state from INPUT arrays (so that counterexamples replay). */
#ifndef LH1_MODEL_H
#define LH1_MODEL_H
#include "verif.h"

#ifndef LZ_N
#error "LZ_N (LZHUF N_CHAR) must be given by the harness"
#endif
#ifndef LZ_MAX_FREQ
#error "LZ_MAX_FREQ must be given by the harness"
#endif
/* PARTS selects which post-conditions a harness instance asserts (the solver cost of all of them in one query is
 * several times the sum of the separate queries): 1 lock-step with LZHUF, 2 tree/count/leaf-map consistency,
 * (= 64 tree shape + 128 counts + 256 leaf map), 4 group consistency (= 16 membership + 32 leaders/count),
 * 8 free-group list.  Every part is asserted by some instance in the plan. */
#ifndef PARTS
#define PARTS 15
#endif

#define LZ_T   (LZ_N * 2 - 1)      /* size of table */
#define LZ_R   (LZ_T - 1)          /* position of root */

/* ------------------------------------------------------------------------------------------------
 * 1. LZHUF reference */

static unsigned lz_freq[LZ_T + 1];      /* frequency table; freq[T] is the 0xffff sentinel */
static int lz_prnt[LZ_T + LZ_N];        /* parents; prnt[T..T+N_CHAR-1] are the pointers to the leaves of the characters */
static int lz_son[LZ_T];                /* children (son[], son[]+1); son >= T: leaf of character son-T */
static unsigned lz_exchanges;           /* ghost: node exchanges done by update() */
static unsigned lz_reconsts;            /* ghost: calls of reconst() */

static void lz_StartHuff(void)
{
	int i, j;

	for (i = 0; i < LZ_N; i++) {
		lz_freq[i] = 1;
		lz_son[i] = i + LZ_T;
		lz_prnt[i + LZ_T] = i;
	}
	i = 0; j = LZ_N;
	while (j <= LZ_R) {
		lz_freq[j] = lz_freq[i] + lz_freq[i + 1];
		lz_son[j] = i;
		lz_prnt[i] = lz_prnt[i + 1] = j;
		i += 2; j++;
	}
	lz_freq[LZ_T] = 0xffff;
	lz_prnt[LZ_R] = 0;
}

static void lz_reconst(void)
{
	int i, j, k, m;
	unsigned f;

	++lz_reconsts;
	/* collect leaf nodes in the first half of the table and replace the freq by (freq + 1) / 2 */
	j = 0;
	for (i = 0; i < LZ_T; i++) {
		if (lz_son[i] >= LZ_T) {
			lz_freq[j] = (lz_freq[i] + 1) / 2;
			lz_son[j] = lz_son[i];
			j++;
		}
	}
	/* begin constructing tree by connecting sons */
	for (i = 0, j = LZ_N; j < LZ_T; i += 2, j++) {
		k = i + 1;
		f = lz_freq[j] = lz_freq[i] + lz_freq[k];
		for (k = j - 1; f < lz_freq[k]; k--);
		k++;
		/* memmove(&freq[k + 1], &freq[k], (j - k) elements); same for son */
		for (m = j; m > k; m--) {
			lz_freq[m] = lz_freq[m - 1];
			lz_son[m] = lz_son[m - 1];
		}
		lz_freq[k] = f;
		lz_son[k] = i;
	}
	/* connect prnt */
	for (i = 0; i < LZ_T; i++) {
		if ((k = lz_son[i]) >= LZ_T) {
			lz_prnt[k] = i;
		} else {
			lz_prnt[k] = lz_prnt[k + 1] = i;
		}
	}
}

/* body of update()'s do-while loop for node c: count it, exchange nodes if the order is disturbed; returns the
 * next node (the parent), 0 after the root */
static int lz_update_node(int c)
{
	int i, j, l;
	unsigned k;

	k = ++lz_freq[c];

	/* if the order is disturbed, exchange nodes */
	if (k > lz_freq[l = c + 1]) {
		while (k > lz_freq[++l]);
		l--;
		lz_freq[c] = lz_freq[l];
		lz_freq[l] = k;

		i = lz_son[c];
		lz_prnt[i] = l;
		if (i < LZ_T) lz_prnt[i + 1] = l;

		j = lz_son[l];
		lz_son[l] = i;

		lz_prnt[j] = c;
		if (j < LZ_T) lz_prnt[j + 1] = c;
		lz_son[c] = j;

		c = l;
		++lz_exchanges;
	}
	return lz_prnt[c];
}

/* increment frequency of given code by one, and update tree */
static void lz_update(int c)
{
	if (lz_freq[LZ_R] == LZ_MAX_FREQ) {
#ifdef LZ_RECONST_EXCLUDED
		CHECK(0, "C02 reference: the rebuild is outside this harness (root count below the limit)");
#else
		lz_reconst();
#endif
	}
	c = lz_prnt[c + LZ_T];
	do {
		c = lz_update_node(c);
	} while (c != 0);    /* repeat up to root */
}

/* ------------------------------------------------------------------------------------------------
 * 2. correspondence */

/* LZHUF arrays := image of the decoder's tree (only meaningful for a state satisfying inv_tree) */
static void lz_from_lhasa(const LHALH1Decoder *d)
{
	unsigned i, c;

	for (i = 0; i < NUM_TREE_NODES; ++i) {
		unsigned j = LZ_R - i;
		lz_freq[j] = d->nodes[i].freq;
		lz_son[j] = d->nodes[i].leaf ? (int) (LZ_T + d->nodes[i].child_index)
		                             : (int) LZ_R - (int) d->nodes[i].child_index;
		lz_prnt[j] = i == 0 ? 0 : (int) LZ_R - (int) d->nodes[i].parent;
	}
	for (c = 0; c < NUM_CODES; ++c) {
		lz_prnt[LZ_T + c] = (int) LZ_R - (int) d->leaf_nodes[c];
	}
	lz_freq[LZ_T] = 0xffff;
}

/* node-for-node comparison of the real tree with the LZHUF arrays */
static void check_lockstep(const LHALH1Decoder *d)
{
	unsigned i, c;

#if !(PARTS & 1)
	(void) d; (void) i; (void) c;
	return;
#endif
	for (i = 0; i < NUM_TREE_NODES; ++i) {
		unsigned j = LZ_R - i;
		CHECK(d->nodes[i].freq == lz_freq[j], "C02: count of node i equals LZHUF freq[R-i]");
		if (lz_son[j] >= LZ_T) {
			CHECK(d->nodes[i].leaf && d->nodes[i].child_index == (unsigned) (lz_son[j] - LZ_T),
			      "C02: node i is the leaf of the same symbol as LZHUF node R-i");
		} else {
			CHECK(!d->nodes[i].leaf && (int) d->nodes[i].child_index == LZ_R - lz_son[j],
			      "C02: children of branch node i are the images of son[R-i], son[R-i]+1");
		}
		if (i != 0) {
			CHECK((int) d->nodes[i].parent == LZ_R - lz_prnt[j], "C02: parent of node i is the image of prnt[R-i]");
		}
	}
	for (c = 0; c < NUM_CODES; ++c) {
		CHECK((int) d->leaf_nodes[c] == LZ_R - lz_prnt[LZ_T + c], "C02: leaf_nodes[c] is the image of prnt[c+T]");
	}
}

/* ------------------------------------------------------------------------------------------------
 * 3. state invariant */

/* shape: node 0 is the root; every branch node has its two children at higher indices (c, c-1) and they point
 * back; the child pairs of different branch nodes are disjoint; exactly NUM_CODES leaves with distinct codes */
static int inv_tree(const LHALH1Decoder *d)
{
	unsigned i, j, leaves = 0;
	int ok = 1;

	if (d->nodes[0].leaf) ok = 0;
	for (i = 0; i < NUM_TREE_NODES; ++i) {
		unsigned c = d->nodes[i].child_index;
		if (d->nodes[i].leaf) {
			++leaves;
			if (c >= NUM_CODES) ok = 0;
		} else if (c < i + 2 || c >= NUM_TREE_NODES) {
			ok = 0;
		} else if (d->nodes[c].parent != i || d->nodes[c - 1].parent != i) {
			ok = 0;
		}
	}
	if (leaves != NUM_CODES) ok = 0;
	for (i = 0; i < NUM_TREE_NODES; ++i) {
		for (j = i + 1; j < NUM_TREE_NODES; ++j) {
			unsigned ci = d->nodes[i].child_index, cj = d->nodes[j].child_index;
			if (d->nodes[i].leaf && d->nodes[j].leaf) {
				if (ci == cj) ok = 0;
			} else if (!d->nodes[i].leaf && !d->nodes[j].leaf) {
				if (!(ci + 2 <= cj || cj + 2 <= ci)) ok = 0;
			}
		}
	}
	return ok;
}

/* counts: table sorted by non-increasing count, leaves >= 1, branch = sum of its children, root <= limit.
 * Requires inv_tree (child indices in range).
 * pending != 0 describes the state inside increment_for_code's loop when node `pending` is the next to be counted:
 * the root has already been counted (one more than its children), and `pending`, if a branch, not yet (one less than
 * its children, one of which has just been counted). */
static int inv_freq_mid(const LHALH1Decoder *d, unsigned pending, unsigned limit)
{
	unsigned i;
	int ok = 1;

	for (i = 0; i < NUM_TREE_NODES; ++i) {
		if (i + 1 < NUM_TREE_NODES && d->nodes[i].freq < d->nodes[i + 1].freq) ok = 0;
		if (d->nodes[i].leaf) {
			if (d->nodes[i].freq < 1) ok = 0;
		} else {
			unsigned c = d->nodes[i].child_index;
			if (c >= 1 && c < NUM_TREE_NODES) {
				unsigned sum = (unsigned) d->nodes[c].freq + (unsigned) d->nodes[c - 1].freq;
				if (pending != 0 && i == 0) sum += 1;
				if (pending != 0 && i == pending) sum -= 1;
				if ((unsigned) d->nodes[i].freq != sum) ok = 0;
			} else {
				ok = 0;
			}
		}
	}
	if (d->nodes[0].freq > limit) ok = 0;
	return ok;
}

static int inv_freq(const LHALH1Decoder *d, unsigned limit)
{
	return inv_freq_mid(d, 0, limit);
}

/* leaf_nodes[] is the inverse of "leaf i carries code c" */
static int inv_leafmap(const LHALH1Decoder *d)
{
	unsigned c;
	int ok = 1;

	for (c = 0; c < NUM_CODES; ++c) {
		unsigned i = d->leaf_nodes[c];
		if (i >= NUM_TREE_NODES) ok = 0;
		else if (!d->nodes[i].leaf || d->nodes[i].child_index != c) ok = 0;
	}
	return ok;
}

/* groups: two nodes are in the same group exactly if they have the same count (the groups are the runs of the
 * sorted table); group_leader[g] is the left-most node of the run; num_groups = number of runs */
static int inv_groups_member(const LHALH1Decoder *d)
{
	unsigned i, j;
	int ok = 1;

	for (i = 0; i < NUM_TREE_NODES; ++i) {
		if (d->nodes[i].group >= NUM_TREE_NODES) ok = 0;
		for (j = i + 1; j < NUM_TREE_NODES; ++j) {
			if ((d->nodes[i].group == d->nodes[j].group) != (d->nodes[i].freq == d->nodes[j].freq)) ok = 0;
		}
	}
	return ok;
}

static int inv_groups_leader(const LHALH1Decoder *d)
{
	unsigned i, runs = 0;
	int ok = 1;

	for (i = 0; i < NUM_TREE_NODES; ++i) {
		unsigned g = d->nodes[i].group;
		if (g >= NUM_TREE_NODES) {
			ok = 0;
		} else if (i == 0 || d->nodes[i - 1].freq != d->nodes[i].freq) {
			++runs;
			if (d->group_leader[g] != i) ok = 0;
		}
	}
	if (d->num_groups != runs) ok = 0;
	return ok;
}

static int inv_groups(const LHALH1Decoder *d)
{
	return inv_groups_member(d) && inv_groups_leader(d);
}

/* free list: groups[num_groups .. NUM_TREE_NODES) are distinct group numbers, none of them in use */
static int inv_free(const LHALH1Decoder *d)
{
	unsigned k, l, i;
	int ok = 1;

	if (d->num_groups > NUM_TREE_NODES) ok = 0;
	for (k = 0; k < NUM_TREE_NODES; ++k) {
		if (k >= d->num_groups) {
			if (d->groups[k] >= NUM_TREE_NODES) ok = 0;
			for (i = 0; i < NUM_TREE_NODES; ++i) {
				if (d->nodes[i].group == d->groups[k]) ok = 0;
			}
			for (l = k + 1; l < NUM_TREE_NODES; ++l) {
				if (d->groups[l] == d->groups[k]) ok = 0;
			}
		}
	}
	return ok;
}

static int lh1_inv(const LHALH1Decoder *d, unsigned limit)
{
	return inv_tree(d) && inv_freq(d, limit) && inv_leafmap(d) && inv_groups(d) && inv_free(d);
}

static void check_inv_mid(const LHALH1Decoder *d, unsigned pending, unsigned limit)
{
#if PARTS & (2 | 64)
	CHECK(inv_tree(d), "C02 consistency: proper binary tree, children above their parent, parent links, one leaf per symbol");
#endif
#if PARTS & (2 | 128)
	CHECK(inv_freq_mid(d, pending, limit), "C02 consistency: table sorted by count, branch count = sum of children, root count <= limit");
#endif
#if PARTS & (2 | 256)
	CHECK(inv_leafmap(d), "C02 consistency: leaf_nodes[] is the inverse of the leaves' symbols");
#endif
#if PARTS & 4
	CHECK(inv_groups(d), "C02 consistency: groups are exactly the equal-count runs, group_leader is each run's left-most node, num_groups counts them");
#endif
#if PARTS & 16
	CHECK(inv_groups_member(d), "C02 consistency: two nodes are in the same group exactly if they have the same count");
#endif
#if PARTS & 32
	CHECK(inv_groups_leader(d), "C02 consistency: group_leader is each run's left-most node, num_groups counts the runs");
#endif
#if PARTS & 8
	CHECK(inv_free(d), "C02 consistency: the free part of groups[] lists each unused group number exactly once");
#endif
	(void) d; (void) limit; (void) pending;
}

static void check_inv(const LHALH1Decoder *d, unsigned limit)
{
	check_inv_mid(d, 0, limit);
}

/* ------------------------------------------------------------------------------------------------
 * 4. arbitrary state */

#define LH1_STATE_INPUTS \
	INPUT_ARRAY(u8, in_leaf, NUM_TREE_NODES); INPUT_ARRAY(u16, in_child, NUM_TREE_NODES); \
	INPUT_ARRAY(u16, in_parent, NUM_TREE_NODES); INPUT_ARRAY(u16, in_freq, NUM_TREE_NODES); \
	INPUT_ARRAY(u16, in_group, NUM_TREE_NODES); INPUT_ARRAY(u16, in_leafnodes, NUM_CODES); \
	INPUT_ARRAY(u16, in_groups, NUM_TREE_NODES); INPUT_ARRAY(u16, in_leader, NUM_TREE_NODES); \
	INPUT(u32, in_numgroups)
#define LH1_STATE_LOAD(d) \
	lh1_load((d), in_leaf, in_child, in_parent, in_freq, in_group, in_leafnodes, in_groups, in_leader, in_numgroups)

static void lh1_load(LHALH1Decoder *d, const u8 *leaf, const u16 *child, const u16 *parent, const u16 *freq,
                     const u16 *group, const u16 *leafnodes, const u16 *groups, const u16 *leader, u32 numgroups)
{
	unsigned i;

	for (i = 0; i < NUM_TREE_NODES; ++i) {
		d->nodes[i].leaf = leaf[i] & 1u;
		d->nodes[i].child_index = child[i] & 0x7fffu;
		d->nodes[i].parent = parent[i];
		d->nodes[i].freq = freq[i];
		d->nodes[i].group = group[i];
		d->groups[i] = groups[i];
		d->group_leader[i] = leader[i];
	}
	for (i = 0; i < NUM_CODES; ++i) {
		d->leaf_nodes[i] = leafnodes[i];
	}
	d->num_groups = numgroups;
}

#endif
