/* C02 H02.inv (inductive step), H02.threshold, H02.walk - all on a scaled NUM_CODES, from an ARBITRARY tree/group
 * state that satisfies the explicit invariant of lh1_model.h (which step.c shows to hold after init and which
 * harness_inv shows to be preserved).
 *
 *  harness_inv       one real increment_for_code(code), arbitrary code, root count below the limit:
 *                    the invariant holds again and the tree equals the image of one LZHUF update(code).
 *                    reconstruct_tree is a stub that records the call (it must not be called here).
 *  harness_threshold same state space but root count anywhere up to the limit: the rebuild is invoked exactly when
 *                    LZHUF's `freq[R] == MAX_FREQ` holds, and before anything else is changed.
 *  harness_walk      real read_code over a symbolic bit string (bit reader = BITS_SPEC stub), increment_for_code a
 *                    recording stub: the symbol, the number of bits consumed and the failure behaviour equal
 *                    LZHUF DecodeChar's walk  c = son[R]; while (c < T) c = son[c + GetBit()]. */
#define LZ_N         LHASA_VERIF_LH1_NUM_CODES
#define LZ_MAX_FREQ  LHASA_VERIF_LH1_REORDER_LIMIT
#define LZ_RECONST_EXCLUDED
#define BS_N 2
#include "lib/lh1_decoder.c"
#include "C02/lh1_model.h"

static LHALH1Decoder dec;

#ifdef WALK_HARNESS
#include "bits_stub.h"
static unsigned incr_calls;
static uint16_t incr_code;
static void increment_for_code(LHALH1Decoder *decoder, uint16_t code)
{
	(void) decoder;
	++incr_calls;
	incr_code = code;
}

void harness_walk(void)
{
	LH1_STATE_INPUTS;
	INPUT_ARRAY(u8, bits, BS_N);
	INPUT(u32, nbits);
	INPUT(u32, pos0);
	uint16_t code = 0xffff;
	unsigned n = 0, i;
	int c, ok, ref_ok = 1;

	LH1_STATE_LOAD(&dec);
	ASSUME(lh1_inv(&dec, LZ_MAX_FREQ));
	ASSUME(nbits <= 8 * BS_N && pos0 <= nbits);
	for (i = 0; i < BS_N; ++i) bs_data[i] = bits[i];
	bs_bits = nbits;
	bs_pos = pos0;
	lz_from_lhasa(&dec);

	ok = read_code(&dec, &code);

	/* LZHUF DecodeChar */
	c = lz_son[LZ_R];
	while (c < LZ_T) {
		if (pos0 + n >= nbits) { ref_ok = 0; break; }
		c += (int) bs_ref(pos0 + n, 1);
		c = lz_son[c];
		++n;
	}
	if (ref_ok) {
		CHECK(ok == 1, "C02: read_code succeeds when the stream holds the whole code");
		CHECK(code == c - LZ_T, "C02: symbol = the leaf LZHUF's walk reaches (bit 0 -> son, bit 1 -> son+1)");
		CHECK(bs_pos == pos0 + n, "C02: exactly the code's bits are consumed");
		CHECK(incr_calls == 1 && incr_code == code, "C02: the tree is updated once, for the decoded symbol");
		if (n == LZ_N - 1) WITNESS("deepest possible leaf");
		if (n == 1) WITNESS("leaf directly below the root");
	} else {
		CHECK(ok == 0, "C02: read_code fails when the stream ends inside a code");
		CHECK(incr_calls == 0, "C02: no tree update on failure");
		WITNESS("truncated code");
	}
	WITNESS("end");
}

#else

static unsigned rebuild_calls;
static unsigned root_at_rebuild;
static void reconstruct_tree(LHALH1Decoder *decoder)
{
	++rebuild_calls;
	root_at_rebuild = decoder->nodes[0].freq;
}

void harness_inv(void)
{
	LH1_STATE_INPUTS;
	INPUT(u16, code);

	LH1_STATE_LOAD(&dec);
	ASSUME(lh1_inv(&dec, LZ_MAX_FREQ));
	ASSUME(dec.nodes[0].freq < LZ_MAX_FREQ);
	ASSUME(code < LZ_N);
	lz_from_lhasa(&dec);

	increment_for_code(&dec, code);
	lz_update(code);

	CHECK(rebuild_calls == 0, "C02: no rebuild below the limit");
	check_lockstep(&dec);
	check_inv(&dec, LZ_MAX_FREQ);
#if PARTS & 1
	if (lz_exchanges >= 2) WITNESS("two node exchanges in one update");
	if (lz_exchanges == 0) WITNESS("update without exchange");
#endif
#if PARTS & (4 | 16)
	if (dec.num_groups == NUM_TREE_NODES) WITNESS("all counts distinct afterwards");
#endif
	WITNESS("end");
}

void harness_threshold(void)
{
	LH1_STATE_INPUTS;
	INPUT(u16, code);
	unsigned root0;

	LH1_STATE_LOAD(&dec);
	ASSUME(lh1_inv(&dec, LZ_MAX_FREQ));
	ASSUME(code < LZ_N);
	root0 = dec.nodes[0].freq;

	increment_for_code(&dec, code);

	CHECK(rebuild_calls == (root0 == LZ_MAX_FREQ ? 1u : 0u), "C02: the tree is rebuilt exactly when the root count has reached the limit (LZHUF: freq[R] == MAX_FREQ)");
	if (rebuild_calls) {
		CHECK(root_at_rebuild == root0, "C02: the rebuild happens before the count of the new symbol is added");
		WITNESS("at the limit");
	}
	if (root0 == LZ_MAX_FREQ - 1) WITNESS("one below the limit");
	WITNESS("end");
}
#endif
