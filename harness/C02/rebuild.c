/* C02 H02.rebuild (scaled): the periodic halving/rebuild of the tree.
 *
 *  harness_rebuild       real reconstruct_tree once, on an ARBITRARY state satisfying the invariant of lh1_model.h
 *                        whose root count equals the limit (the only states in which increment_for_code calls it,
 *                        see inv.c harness_threshold), against LZHUF reconst() run on the image of that state:
 *                        halved counts (f+1)/2, leaves kept in table order, each new branch placed after all
 *                        entries with a count <= its own (leaf/branch order on ties), parents reconnected;
 *                        afterwards the invariant holds again with a root count strictly below the limit.
 *  harness_rebuild_step  the real increment_for_code at the limit with the real reconstruct_tree inlined,
 *                        against LZHUF update() including its reconst() call (composition cross-check). */
#define LZ_N         LHASA_VERIF_LH1_NUM_CODES
#define LZ_MAX_FREQ  LHASA_VERIF_LH1_REORDER_LIMIT
#include "lib/lh1_decoder.c"
#include "C02/lh1_model.h"

static LHALH1Decoder dec;

void harness_rebuild(void)
{
	LH1_STATE_INPUTS;
	unsigned i, ties = 0;

	LH1_STATE_LOAD(&dec);
	ASSUME(lh1_inv(&dec, LZ_MAX_FREQ));
	ASSUME(dec.nodes[0].freq == LZ_MAX_FREQ);
	lz_from_lhasa(&dec);

	reconstruct_tree(&dec);
	lz_reconst();

	check_lockstep(&dec);
	check_inv(&dec, LZ_MAX_FREQ);
#if PARTS & 2
	CHECK(dec.nodes[0].freq < LZ_MAX_FREQ, "C02: after the rebuild the root count is below the limit again");
#endif
	for (i = 1; i + 1 < NUM_TREE_NODES; ++i) {
		if (dec.nodes[i].freq == dec.nodes[i + 1].freq && dec.nodes[i].leaf != dec.nodes[i + 1].leaf) ++ties;
	}
	if (ties >= 1) WITNESS("leaf/branch tie in the rebuilt table");
	if (!dec.nodes[NUM_TREE_NODES - 3].leaf) WITNESS("a branch node among the last three entries");
	WITNESS("end");
}

/* what reconstruct_tree actually depends on: which entries are leaves, and the leaves' symbols and counts in table
 * order.  Implied by the invariant with root count == limit (harness_rebuild_pre). */
static int pre_rebuild(const LHALH1Decoder *d)
{
	unsigned i, j, leaves = 0, sum = 0, last = 0xffff;
	int ok = 1;

	for (i = 0; i < NUM_TREE_NODES; ++i) {
		if (d->nodes[i].leaf) {
			++leaves;
			sum += d->nodes[i].freq;
			if (d->nodes[i].freq < 1 || d->nodes[i].freq > last) ok = 0;
			last = d->nodes[i].freq;
			if (d->nodes[i].child_index >= NUM_CODES) ok = 0;
			for (j = i + 1; j < NUM_TREE_NODES; ++j) {
				if (d->nodes[j].leaf && d->nodes[j].child_index == d->nodes[i].child_index) ok = 0;
			}
		}
	}
	return ok && leaves == NUM_CODES && sum == LZ_MAX_FREQ;
}

void harness_rebuild_weak(void)
{
	LH1_STATE_INPUTS;
	unsigned i, ties = 0;

	LH1_STATE_LOAD(&dec);
	ASSUME(pre_rebuild(&dec));
	lz_from_lhasa(&dec);

	reconstruct_tree(&dec);
	lz_reconst();

	check_lockstep(&dec);
	check_inv(&dec, LZ_MAX_FREQ);
#if PARTS & 2
	CHECK(dec.nodes[0].freq < LZ_MAX_FREQ, "C02: after the rebuild the root count is below the limit again");
#endif
	for (i = 1; i + 1 < NUM_TREE_NODES; ++i) {
		if (dec.nodes[i].freq == dec.nodes[i + 1].freq && dec.nodes[i].leaf != dec.nodes[i + 1].leaf) ++ties;
	}
	if (ties >= 1) WITNESS("leaf/branch tie in the rebuilt table");
	if (!dec.nodes[NUM_TREE_NODES - 3].leaf) WITNESS("a branch node among the last three entries");
	WITNESS("end");
}

void harness_rebuild_pre(void)
{
	LH1_STATE_INPUTS;

	LH1_STATE_LOAD(&dec);
	ASSUME(lh1_inv(&dec, LZ_MAX_FREQ));
	ASSUME(dec.nodes[0].freq == LZ_MAX_FREQ);
	CHECK(pre_rebuild(&dec), "C02: invariant with root count == limit implies the precondition used for the rebuild harness");
	WITNESS("end");
}

void harness_rebuild_step(void)
{
	LH1_STATE_INPUTS;
	INPUT(u16, code);

	LH1_STATE_LOAD(&dec);
	ASSUME(lh1_inv(&dec, LZ_MAX_FREQ));
	ASSUME(dec.nodes[0].freq == LZ_MAX_FREQ);
	ASSUME(code < LZ_N);
	lz_from_lhasa(&dec);

	increment_for_code(&dec, code);
	lz_update(code);

	CHECK(lz_reconsts == 1, "reference rebuilt once");
	check_lockstep(&dec);
	check_inv(&dec, LZ_MAX_FREQ);
	if (lz_exchanges >= 1) WITNESS("exchange right after a rebuild");
	WITNESS("end");
}
