/* C02 H02.copy (real constants): one command through the real lha_lh1_read / output_byte from an ARBITRARY 4 KiB ring
 * and write position, with read_code and read_offset replaced by stubs that deliver an arbitrary symbol 0..313 /
 * an arbitrary 12-bit distance field or failure (their own harnesses: walk/inv and offset).
 * Oracle = LZHUF Decode: symbol < 256 is a literal; otherwise  j = c - 255 + THRESHOLD(2)  bytes (3..60) are copied
 * from  i = (r - DecodePosition() - 1) & 4095,  byte by byte through the ring (so a copy may read what it has just
 * written); every output byte is also stored at r, r = (r + 1) & 4095.
 * MAXCOUNT bounds the copy length of an instance (the cost grows steeply with the number of symbolic ring writes).
 * harness_init: the ring starts as 4096 spaces (lhasa's write position 0; the window is addressed relatively). */
#ifndef MAXCOUNT
#define MAXCOUNT 60
#endif
#include <string.h>
#include "verif.h"
#include "lib/lh1_decoder.c"

static LHALH1Decoder dec;

static unsigned code_calls, off_calls;
static int code_ok, off_ok;
static uint16_t code_val;
static unsigned off_val;

static int read_code(LHALH1Decoder *decoder, uint16_t *result)
{
	(void) decoder;
	++code_calls;
	if (!code_ok) return 0;
	*result = code_val;
	return 1;
}

static int read_offset(LHALH1Decoder *decoder, unsigned int *result)
{
	(void) decoder;
	++off_calls;
	if (!off_ok) return 0;
	*result = off_val;
	return 1;
}

void harness(void)
{
	INPUT(u32, pos0);
	INPUT(u16, code);
	INPUT(u32, dist);
	INPUT(u8, codefail);
	INPUT(u8, offfail);
	INPUT(u32, idx);
	INPUT(u32, probe);
	static u8 out[OUTPUT_BUFFER_SIZE];
	LHALH1Decoder d0;                     /* arbitrary initial ring (uninitialised = nondet) */
	size_t n;

	ASSUME(pos0 < 4096 && probe < 4096 && code < 314 && dist < 4096 && idx < 60);
#if MAXCOUNT < 60
	ASSUME(code < 256 || code - 256u + 3u <= MAXCOUNT);
#endif
	dec = d0;
	dec.ringbuf_pos = pos0;
	code_ok = !(codefail & 1); code_val = code;
	off_ok = !(offfail & 1); off_val = dist;

	n = lha_lh1_read(&dec, out);

	CHECK(code_calls == 1, "C02: one symbol is read per command");
	if (!code_ok) {
		CHECK(n == 0 && off_calls == 0, "C02: end of data at the symbol: nothing is produced");
		CHECK(dec.ringbuf_pos == pos0 && dec.ringbuf[probe] == d0.ringbuf[probe], "C02: window untouched on failure");
	} else if (code < 256) {
		CHECK(n == 1 && out[0] == code, "C02: symbol < 256 is one literal byte");
		CHECK(off_calls == 0, "C02: a literal has no distance field");
		CHECK(dec.ringbuf_pos == (pos0 + 1) % 4096, "C02: write position advances by one modulo 4 KiB");
		CHECK(dec.ringbuf[probe] == (probe == pos0 ? (u8) code : d0.ringbuf[probe]), "C02: window after a literal");
		WITNESS("literal");
	} else if (!off_ok) {
		CHECK(off_calls == 1 && n == 0, "C02: end of data in the distance field: nothing is produced");
		CHECK(dec.ringbuf_pos == pos0 && dec.ringbuf[probe] == d0.ringbuf[probe], "C02: window untouched on failure");
	} else {
		unsigned count = code - 253u;          /* c - 255 + THRESHOLD */
		unsigned back = dist + 1;              /* source starts at r - DecodePosition() - 1 */
		CHECK(off_calls == 1, "C02: one distance field per copy");
		CHECK(count >= 3 && count <= 60, "oracle: copy lengths are 3..60");
		CHECK(n == count, "C02: copy symbol c yields c - 256 + 3 bytes");
		if (idx < count) {
			/* byte idx comes from `back` positions behind its own destination: a byte of this copy if
			 * idx >= back, the old window content otherwise */
			u8 expect = idx >= back ? out[idx - back] : d0.ringbuf[(pos0 + 4096 - back + idx) % 4096];
			CHECK(out[idx] == expect, "C02: copied byte = window content `distance+1` behind the write position (self-overlap allowed)");
		}
		CHECK(dec.ringbuf_pos == (pos0 + count) % 4096, "C02: write position advances by the copy length modulo 4 KiB");
		{
			unsigned e = (probe + 4096 - pos0) % 4096;
			CHECK(dec.ringbuf[probe] == (e < count ? out[e] : d0.ringbuf[probe]), "C02: window after a copy = old window overwritten by the output");
		}
		if (count == MAXCOUNT && back == 1) WITNESS("longest copy repeating the last byte");
		if (back == 4096 && pos0 + count > 4096) WITNESS("oldest bytes, copy crosses the ring seam");
	}
	WITNESS("end");
}

/* the whole length range 3..60 on the SCALED window (hook LHASA_VERIF_RING_BUFFER_SIZE in lib/lh1_decoder.c: same ring
 * arithmetic), against the sequential LZHUF definition: byte i is the window content `distance+1` behind the write
 * position at the moment it is copied; concrete write position per variant (KPOS), distance and window arbitrary */
#ifdef KPOS
#define RINGS LHASA_VERIF_RING_BUFFER_SIZE
void harness_seq(void)
{
	INPUT(u16, code);
	INPUT(u32, dist);
	static u8 out[OUTPUT_BUFFER_SIZE];
	u8 r[RINGS];
	LHALH1Decoder d0;
	size_t n;
	unsigned i, rp = KPOS, count;
	ASSUME(code >= 256 && code < 314 && dist < 4096);
	dec = d0;
	dec.ringbuf_pos = KPOS;
	for (i = 0; i < RINGS; ++i) r[i] = d0.ringbuf[i];
	code_ok = 1; code_val = code; off_ok = 1; off_val = dist;
	n = lha_lh1_read(&dec, out);
	count = code - 253u;
	CHECK(n == count, "C02: copy symbol c yields c - 256 + 3 bytes");
	for (i = 0; i < 60; ++i) if (i < count) {
		u8 b = r[(rp + RINGS - 1 - dist % RINGS) % RINGS];     /* DecodePosition()+1 behind the write position, modulo the window */
		CHECK(out[i] == b, "C02: copied byte = window content `distance+1` behind the write position when it is copied (sequential LZHUF semantics)");
		r[rp] = b; rp = (rp + 1) % RINGS;
	}
	CHECK(dec.ringbuf_pos == rp, "C02: write position advances by the copy length modulo the window size");
	for (i = 0; i < RINGS; ++i) CHECK(dec.ringbuf[i] == r[i], "C02: window after a copy = window with the copied bytes appended");
	if (count == 60 && dist == 0) WITNESS("longest copy repeating the last byte");
	if (count == 60 && dist % RINGS == RINGS - 1) WITNESS("longest copy of the oldest bytes");
	WITNESS("end");
}
#endif

void harness_init(void)
{
	INPUT(u32, probe);
	ASSUME(probe < 4096);
	init_ring_buffer(&dec);
	CHECK(dec.ringbuf[probe] == ' ', "C02: window initially all spaces");
	CHECK(dec.ringbuf_pos == 0, "C02: initial write position");
	WITNESS("end");
}
