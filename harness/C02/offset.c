/* C02 H02.offset (real constants): the real init_offset_table + read_offset against LZHUF's DecodePosition with
 * the d_code[] / d_len[] tables.  The tables are not copied from anywhere: they are generated here from the published
 * length distribution of the 64 codes for the upper six distance bits (1 code of 3 bits, 3 of 4, 8 of 5, 12 of 6,
 * 24 of 7, 16 of 8), as the canonical prefix code in order of the value: d_len[b] / d_code[b] = length / value of
 * the unique code that is a prefix of the byte b.  A few literal entries of the printed LZHUF.C tables anchor the
 * generator.  Bit reader = BITS_SPEC stub over a symbolic 3-byte string with symbolic alignment and end.
 *
 * LZHUF DecodePosition: i = next 8 bits; c = d_code[i] << 6; j = d_len[i] - 2; read j more bits into i (shifting);
 * return c | (i & 0x3f)  ==  the six bits that follow the d_len[i]-bit code, i.e. d_len[i] + 6 bits are consumed. */
#define BS_N 3
#include "lib/lh1_decoder.c"
#include "bits_stub.h"

static LHALH1Decoder dec;

static u8 d_code[256], d_len[256];
static const unsigned published_lengths[6][2] = { {1, 3}, {3, 4}, {8, 5}, {12, 6}, {24, 7}, {16, 8} };  /* {how many, bits} */

static void gen_tables(void)
{
	unsigned len_of[64], canon[64];
	unsigned v = 0, k, n, b;

	for (k = 0; k < 6; ++k) {
		for (n = 0; n < published_lengths[k][0]; ++n) {
			len_of[v++] = published_lengths[k][1];
		}
	}
	CHECK(v == 64, "oracle: the published distribution describes 64 codes");
	/* canonical code: first code all zeros, each next code = previous + 1, extended with zeros to its length */
	canon[0] = 0;
	for (v = 1; v < 64; ++v) {
		canon[v] = (canon[v - 1] + 1) << (len_of[v] - len_of[v - 1]);
	}
	CHECK(canon[63] == 0xff && len_of[63] == 8, "oracle: the code is complete (last code is all ones)");
	for (b = 0; b < 256; ++b) {
		unsigned hits = 0;
		for (v = 0; v < 64; ++v) {
			if ((b >> (8 - len_of[v])) == canon[v]) {
				d_code[b] = (u8) v;
				d_len[b] = (u8) len_of[v];
				++hits;
			}
		}
		CHECK(hits == 1, "oracle: every byte has exactly one code as its prefix");
	}
	/* anchors from the tables printed in LZHUF.C */
	CHECK(d_code[0x00] == 0x00 && d_code[0x1f] == 0x00 && d_code[0x20] == 0x01 && d_code[0x4f] == 0x03
	      && d_code[0x50] == 0x04 && d_code[0x8f] == 0x0b && d_code[0x90] == 0x0c && d_code[0xbf] == 0x17
	      && d_code[0xc0] == 0x18 && d_code[0xef] == 0x2f && d_code[0xf0] == 0x30 && d_code[0xff] == 0x3f,
	      "oracle: generated d_code[] agrees with the printed table at the block boundaries");
	CHECK(d_len[0x00] == 3 && d_len[0x1f] == 3 && d_len[0x20] == 4 && d_len[0x4f] == 4 && d_len[0x50] == 5
	      && d_len[0x8f] == 5 && d_len[0x90] == 6 && d_len[0xbf] == 6 && d_len[0xc0] == 7 && d_len[0xef] == 7
	      && d_len[0xf0] == 8 && d_len[0xff] == 8, "oracle: generated d_len[] agrees with the printed table at the block boundaries");
}

void harness(void)
{
	INPUT_ARRAY(u8, bits, BS_N);
	INPUT(u32, nbits);
	INPUT(u32, pos0);
	unsigned i, b, result = 0xffffffffu;
	int ok;

	gen_tables();
	init_offset_table(&dec);

	ASSUME(nbits <= 8 * BS_N && pos0 <= 7 && pos0 <= nbits);
	for (i = 0; i < BS_N; ++i) bs_data[i] = bits[i];
	bs_bits = nbits;
	bs_pos = pos0;

	ok = read_offset(&dec, &result);

	if (pos0 + 8 <= nbits && pos0 + d_len[b = bs_ref(pos0, 8)] + 6 <= nbits) {
		unsigned len = d_len[b];
		CHECK(ok == 1, "C02: read_offset succeeds when the stream holds the code and six more bits");
		CHECK(result == (((unsigned) d_code[b] << 6) | bs_ref(pos0 + len, 6)),
		      "C02: distance = d_code[next 8 bits] << 6 | the six bits after the d_len-bit code (LZHUF DecodePosition)");
		CHECK(bs_pos == pos0 + len + 6, "C02: exactly d_len + 6 bits are consumed");
		CHECK(result < 4096, "C02: distance field is 12 bits");
		if (len == 3) WITNESS("shortest code");
		if (len == 8 && result == 4095) WITNESS("largest distance");
	} else {
		CHECK(ok == 0, "C02: read_offset fails when the stream ends inside the distance field");
		WITNESS("truncated distance field");
	}
	WITNESS("end");
}
