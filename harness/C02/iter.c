/* C02 H02.iter (scaled): the inductive step of inv.c cut down to ONE iteration of increment_for_code's loop, so that it
 * still fits at NUM_CODES = 6.  Three pieces that together give "one increment_for_code = one LZHUF update()":
 *
 *  harness_skeleton  the real increment_for_code with make_group_leader / increment_node_freq / reconstruct_tree
 *                    replaced by recording stubs, from an arbitrary state: below the limit it does exactly
 *                        ++nodes[0].freq;  x = leaf_nodes[code];
 *                        while (x != 0) { l = make_group_leader(x); increment_node_freq(l); x = nodes[l].parent; }
 *                    (call sequence and arguments compared for up to SK iterations).
 *  harness_entry     invariant (lh1_model.h) and root count < limit  =>  after the two statements before the loop the
 *                    loop invariant Inv'(x) holds (Inv with "root already counted, x not yet", inv_freq_mid) and
 *                    LZHUF's update() starts at the image of x.
 *  harness_iter      ARBITRARY state satisfying Inv'(x), x != 0: the REAL make_group_leader + increment_node_freq in
 *                    the order shown by harness_skeleton, against one pass of the body of LZHUF update()'s do-while
 *                    (lz_update_node) on the image: same tree node-for-node, next node = image of the parent,
 *                    Inv'(parent) holds again; if the parent is the root, LZHUF's last pass (the root) makes the
 *                    images equal and the full invariant holds.
 * LZHUF counts the root in the last pass of its loop, lhasa before its loop: between the passes the images differ
 * by one in the root count, which the harness accounts for explicitly. */
#define LZ_N         LHASA_VERIF_LH1_NUM_CODES
#define LZ_MAX_FREQ  LHASA_VERIF_LH1_REORDER_LIMIT
#define LZ_RECONST_EXCLUDED
#include "lib/lh1_decoder.c"
#include "C02/lh1_model.h"

static LHALH1Decoder dec;

static int inv_mid(const LHALH1Decoder *d, unsigned x, unsigned limit)
{
	return x < NUM_TREE_NODES && inv_tree(d) && inv_freq_mid(d, x, limit) && inv_leafmap(d) && inv_groups(d) && inv_free(d);
}

#ifdef SKELETON
#ifndef SK
#define SK 3
#endif
static unsigned n_mgl, n_inf, rebuilds, root_at_first;
static u16 mgl_arg[SK], inf_arg[SK], mgl_choice[SK];

static uint16_t make_group_leader(LHALH1Decoder *decoder, uint16_t node_index)
{
	uint16_t r = 0;
	if (n_mgl == 0) root_at_first = decoder->nodes[0].freq;
	if (n_mgl < SK) {
		mgl_arg[n_mgl] = node_index;
		r = mgl_choice[n_mgl];
	}
	++n_mgl;
	return r;
}

static void increment_node_freq(LHALH1Decoder *decoder, uint16_t node_index)
{
	(void) decoder;
	if (n_inf < SK) inf_arg[n_inf] = node_index;
	CHECK(n_inf + 1 == n_mgl, "C02 skeleton: increment_node_freq follows each make_group_leader");
	++n_inf;
}

static void reconstruct_tree(LHALH1Decoder *decoder)
{
	(void) decoder;
	++rebuilds;
}

void harness_skeleton(void)
{
	LH1_STATE_INPUTS;
	INPUT(u16, code);
	INPUT_ARRAY(u16, choice, SK);
	unsigned k, m = 0, x, root0;
	unsigned xs[SK + 1];

	LH1_STATE_LOAD(&dec);
	ASSUME(code < LZ_N);
	root0 = dec.nodes[0].freq;
	ASSUME(root0 < LZ_MAX_FREQ);
	/* expected trace of the loop, for the values the stubbed make_group_leader is going to return */
	x = dec.leaf_nodes[code];
	for (k = 0; k < SK; ++k) {
		ASSUME(choice[k] < NUM_TREE_NODES);
		mgl_choice[k] = choice[k];
		xs[k] = x;
		if (x != 0) {
			++m;
			x = dec.nodes[choice[k]].parent;
		}
	}
	ASSUME(x == 0);                       /* the walk reaches the root within SK iterations */

	increment_for_code(&dec, code);

	CHECK(rebuilds == 0, "C02 skeleton: no rebuild below the limit");
	CHECK(dec.nodes[0].freq == root0 + 1, "C02 skeleton: the root is counted once, outside the loop");
	CHECK(n_mgl == m && n_inf == m, "C02 skeleton: one make_group_leader + one increment_node_freq per node on the way up");
	for (k = 0; k < SK; ++k) {
		if (k < m) {
			CHECK(mgl_arg[k] == xs[k], "C02 skeleton: starts at leaf_nodes[code], continues with the parent of the node just counted");
			CHECK(inf_arg[k] == choice[k], "C02 skeleton: the node counted is the one make_group_leader returned");
		}
	}
	if (m >= 1) CHECK(root_at_first == root0 + 1, "C02 skeleton: the root is counted before the loop");
	if (m == SK) WITNESS("longest walk");
	if (m == 0) WITNESS("leaf_nodes[code] == 0: empty loop");
	WITNESS("end");
}

#else

void harness_entry(void)
{
	LH1_STATE_INPUTS;
	INPUT(u16, code);
	unsigned x;

	LH1_STATE_LOAD(&dec);
	ASSUME(lh1_inv(&dec, LZ_MAX_FREQ));
	ASSUME(dec.nodes[0].freq < LZ_MAX_FREQ);
	ASSUME(code < LZ_N);
	lz_from_lhasa(&dec);

	/* the two statements before the loop (harness_skeleton) */
	++dec.nodes[0].freq;
	x = dec.leaf_nodes[code];

	CHECK(x >= 1 && inv_mid(&dec, x, LZ_MAX_FREQ), "C02 iter: the loop invariant holds on entry, for the leaf of the symbol");
	CHECK(lz_prnt[code + LZ_T] == (int) LZ_R - (int) x, "C02 iter: LZHUF update() starts at the image of that leaf");
	CHECK(lz_freq[LZ_R] + 1 == dec.nodes[0].freq, "C02 iter: images differ by the root count only");
	WITNESS("end");
}

void harness_iter(void)
{
	LH1_STATE_INPUTS;
	INPUT(u16, x);
	unsigned l, p;
	int c;

	LH1_STATE_LOAD(&dec);
	ASSUME(x >= 1 && x < NUM_TREE_NODES);
	ASSUME(inv_mid(&dec, x, LZ_MAX_FREQ));
	lz_from_lhasa(&dec);
	lz_freq[LZ_R] -= 1;                    /* LZHUF has not counted the root yet */
	c = (int) LZ_R - (int) x;

	/* loop body (harness_skeleton) */
	l = make_group_leader(&dec, x);
	increment_node_freq(&dec, (uint16_t) l);
	p = dec.nodes[l].parent;

	c = lz_update_node(c);

	if (p != 0) {
		CHECK(c == (int) LZ_R - (int) p, "C02 iter: next node = image of LZHUF's next node");
		lz_freq[LZ_R] += 1;                /* compare modulo the root count */
		check_lockstep(&dec);
		check_inv_mid(&dec, p, LZ_MAX_FREQ);
#if PARTS & 1
		if (lz_exchanges == 1 && l + 1 < x) WITNESS("exchange over a run of three or more");
#endif
		WITNESS("continues with a branch node");
	} else {
		CHECK(c == LZ_R, "C02 iter: LZHUF continues with the root");
		c = lz_update_node(c);
		CHECK(c == 0, "C02 iter: LZHUF's loop ends after the root");
		check_lockstep(&dec);
		check_inv(&dec, LZ_MAX_FREQ);
		WITNESS("child of the root: update complete");
	}
	WITNESS("end");
}
#endif
