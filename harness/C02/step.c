/* C02 H02.step: the real init_groups + init_tree at a scaled NUM_CODES, then STEPS symbolic symbols through the real
 * increment_for_code, compared after every step node-for-node with LZHUF's StartHuff()/update() run on its own
 * arrays; plus the decoder's internal consistency (lh1_model.h inv_*).
 * The rebuild is not part of this harness: reconstruct_tree is replaced by a stub that asserts it is never called
 * (root count = NUM_CODES + steps stays below the limit), and so is the reference's reconst(). */
#ifndef STEPS
#define STEPS 3
#endif
#define LZ_N         LHASA_VERIF_LH1_NUM_CODES
#define LZ_MAX_FREQ  LHASA_VERIF_LH1_REORDER_LIMIT
#define LZ_RECONST_EXCLUDED
#include "lib/lh1_decoder.c"
#include "C02/lh1_model.h"

static LHALH1Decoder dec;

static void reconstruct_tree(LHALH1Decoder *decoder)
{
	(void) decoder;
	CHECK(0, "C02.step: the rebuild branch is not taken while the root count is below the limit");
}

void harness(void)
{
	INPUT_ARRAY(u16, codes, STEPS);
	unsigned s;

	init_groups(&dec);
	init_tree(&dec);
	lz_StartHuff();
	check_lockstep(&dec);
	check_inv(&dec, LZ_MAX_FREQ);
	CHECK(dec.nodes[0].freq == LZ_N, "C02: initial root count = number of symbols");

	for (s = 0; s < STEPS; ++s) {
		ASSUME(codes[s] < LZ_N);
		increment_for_code(&dec, codes[s]);
		lz_update(codes[s]);
		check_lockstep(&dec);
		check_inv(&dec, LZ_MAX_FREQ);
	}
	if (lz_exchanges >= 2) WITNESS("two node exchanges");
	if (codes[0] == codes[1] && codes[1] == codes[STEPS - 1]) WITNESS("same symbol repeated");
	WITNESS("end");
}
