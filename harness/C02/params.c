/* C02 H02.params: without the verification hook macros lib/lh1_decoder.c is compiled with the real -lh1- / LZHUF
 * parameters (the scaled harnesses exercise the same source text at small NUM_CODES / TREE_REORDER_LIMIT; this pins
 * what the real build uses), and the real-size initial tree is LZHUF's StartHuff() (concrete, no symbolic step).
 * LZHUF.C:  N 4096, F 60, THRESHOLD 2, N_CHAR = 256 - THRESHOLD + F = 314, T = 627, R = 626, MAX_FREQ 0x8000. */
#if defined(LHASA_VERIF_LH1_NUM_CODES) || defined(LHASA_VERIF_LH1_REORDER_LIMIT)
#error "params harness must be built without the scaling hook"
#endif
#define LZ_N         (256 - 2 + 60)
#define LZ_MAX_FREQ  0x8000
#define LZ_RECONST_EXCLUDED
#include <string.h>
#include "lib/lh1_decoder.c"
#include "lib/crc16.c"
#include "lib/lha_decoder.c"
#include "C02/lh1_model.h"

static LHALH1Decoder dec;

static size_t no_data(void *buf, size_t buf_len, void *user_data)
{
	(void) buf; (void) buf_len; (void) user_data;
	return 0;
}

void harness(void)
{
	unsigned total = 0, i;

	CHECK(NUM_CODES == 314 && NUM_CODES == LZ_N, "C02 params: 314 symbols (256 literals + copy lengths 3..60)");
	CHECK(NUM_TREE_NODES == 627, "C02 params: 627 tree nodes");
	CHECK((TREE_REORDER_LIMIT) == 0x8000, "C02 params: rebuild when the root count reaches 32768");
	CHECK(RING_BUFFER_SIZE == 4096, "C02 params: 4 KiB window");
	CHECK(COPY_THRESHOLD == 3 && NUM_CODES - 256 + COPY_THRESHOLD - 1 == 60, "C02 params: copy lengths 3..60");
	CHECK(NUM_OFFSETS == 64 && MIN_OFFSET_LENGTH == 3, "C02 params: 64 codes for the upper distance bits, shortest 3 bits");
	CHECK(sizeof(offset_fdist) / sizeof(*offset_fdist) == 6 && offset_fdist[0] == 1 && offset_fdist[1] == 3 && offset_fdist[2] == 8
	      && offset_fdist[3] == 12 && offset_fdist[4] == 24 && offset_fdist[5] == 16, "C02 params: published length distribution 1,3,8,12,24,16");
	for (i = 0; i < 6; ++i) total += offset_fdist[i];
	CHECK(total == NUM_OFFSETS, "C02 params: distribution covers the 64 codes");
	CHECK(sizeof(dec.nodes) / sizeof(dec.nodes[0]) == 627 && sizeof(dec.leaf_nodes) / sizeof(dec.leaf_nodes[0]) == 314
	      && sizeof(dec.groups) / sizeof(dec.groups[0]) == 627 && sizeof(dec.group_leader) / sizeof(dec.group_leader[0]) == 627
	      && sizeof(dec.ringbuf) == 4096 && sizeof(dec.offset_lookup) == 256 && sizeof(dec.offset_lengths) == 64, "C02 params: table sizes");
	CHECK(lha_lh1_decoder.init == lha_lh1_init && lha_lh1_decoder.read == lha_lh1_read && lha_lh1_decoder.free == NULL
	      && lha_lh1_decoder.extra_size == sizeof(LHALH1Decoder) && lha_lh1_decoder.max_read >= 60
	      && lha_lh1_decoder.max_read == OUTPUT_BUFFER_SIZE && lha_lh1_decoder.block_size == 4096, "C02 params: decoder type record");
	CHECK(lha_decoder_for_name("-lh1-") == &lha_lh1_decoder, "C02 params: method -lh1- selects this decoder");

#ifdef INIT_REAL
	CHECK(lha_lh1_init(&dec, no_data, 0) == 1, "init succeeds");
	lz_StartHuff();
	check_lockstep(&dec);
	CHECK(dec.nodes[0].freq == 314 && dec.num_groups >= 1, "C02 params: real-size initial tree has root count 314");
	CHECK(dec.ringbuf_pos == 0 && dec.ringbuf[0] == ' ' && dec.ringbuf[4095] == ' ', "C02 params: initial window");
#endif
	WITNESS("end");
}
