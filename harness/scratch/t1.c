#define CB_N 6
#define CB_CALLS 6
#include "stream_cb.h"
#include "lib/lzs_decoder.c"
static LHALZSDecoder dec;
void harness(void)
{
	INPUT_ARRAY(u8, data, CB_N);
	INPUT(u32, pos0);
	INPUT(u32, probe);
	unsigned i;
	u8 out[OUTPUT_BUFFER_SIZE];
	LHALZSDecoder d0;
	ASSUME(pos0 < 2048 && probe < 2048);
	for (i = 0; i < CB_N; ++i) cb_data[i] = data[i];
	cb_len = CB_N;
	dec = d0;
	bit_stream_reader_init(&dec.bit_stream_reader, cb_read, 0);
	dec.ringbuf_pos = pos0;
	size_t n = lha_lzs_read(&dec, out);
	unsigned flag = ref_bits(0, 1);
	if (!flag) {
		unsigned p = ref_bits(1, 11);
		unsigned len = ref_bits(12, 4) + 2;
		CHECK(n == len, "len");
		CHECK(out[0] == d0.ringbuf[p], "first byte");
	}
	WITNESS("x");
}
