/* C09: -pm2-.  Modular inductive safety argument, CBMC memory checks on in every harness:
 *   harness_read     real lha_pm2_decoder_read from an arbitrary state satisfying INV, with output_byte and
 *                    rebuild_tree replaced by contract stubs (output_byte: asserts the output index is
 *                    < max_read, advances it, may leave any INV state behind because it can rebuild);
 *   harness_outbyte  real output_byte (ring, move-to-front list, rebuild countdown) from arbitrary INV state;
 *   harness_rebuild  real rebuild_tree / read_code_tree / read_offset_tree / build_tree (real sizes 65/17,
 *                    <= 31 / 8 codes) from arbitrary INV state and arbitrary bits: INV re-established.
 * INV: ringbuf_pos < 8192, bits <= 32, every tree entry is a leaf or a forward pointer v with v+1 < len,
 *      code-tree leaves <= 127 (what read_code_tree can install), offset-tree leaves <= 7, tree_state in 0..4. */
#define ACB_BYTES 40
#define ACB_CALLS 24
#include "any_cb.h"
#include <string.h>
#include "lib/pm2_decoder.c"
#include "bits_stub.h"

static int tree_ok(const uint8_t *t, unsigned len, unsigned maxleaf)
{
	unsigned i;
	for (i = 0; i < len; ++i) {
		if (t[i] & 0x80) { if ((t[i] & 0x7fu) > maxleaf) return 0; }
		else if (!(t[i] > i && t[i] + 1u < len)) return 0;
	}
	return 1;
}
static int inv(const LHAPM2Decoder *d)
{
	return d->ringbuf_pos < RING_BUFFER_SIZE && d->bit_stream_reader.bits <= 32
	    && (unsigned) d->tree_state <= 4
	    && tree_ok(d->code_tree, CODE_TREE_ELEMENTS, 127) && tree_ok(d->offset_tree, OFFSET_TREE_ELEMENTS, 7);
}

static LHAPM2Decoder dec;

static void setup(const u8 *ct, const u8 *ot, u32 pos, u32 bits, u32 bitbuf, u32 tstate, u32 remaining, u32 need)
{
	unsigned i;
	for (i = 0; i < CODE_TREE_ELEMENTS; ++i) dec.code_tree[i] = ct[i];
	for (i = 0; i < OFFSET_TREE_ELEMENTS; ++i) dec.offset_tree[i] = ot[i];
	dec.ringbuf_pos = pos;
	dec.bit_stream_reader.bits = bits; dec.bit_stream_reader.bit_buffer = bitbuf;
	dec.bit_stream_reader.callback = any_cb; dec.bit_stream_reader.callback_data = 0;
	dec.tree_state = (PM2RebuildState) tstate; dec.tree_rebuild_remaining = remaining; dec.need_offset_tree = (int) need;
}

#if defined(READ_HARNESS) || defined(OUTB_HARNESS) || defined(REBUILD_HARNESS)
static u8 hv_ct[CODE_TREE_ELEMENTS], hv_ot[OFFSET_TREE_ELEMENTS];
static void havoc_trees(LHAPM2Decoder *d)
{
	unsigned i;
	for (i = 0; i < CODE_TREE_ELEMENTS; ++i) d->code_tree[i] = hv_ct[i];
	for (i = 0; i < OFFSET_TREE_ELEMENTS; ++i) d->offset_tree[i] = hv_ot[i];
}
#endif
#ifdef REBUILD_HARNESS
/* contract of build_tree as established by tree.expand / tree.add: reads num_code_lengths lengths, writes only
 * inside tree[0..tree_len), leaves the tree in T with leaf values < num_code_lengths */
static void build_tree(TreeElement *tree, size_t tree_len, uint8_t *code_lengths, unsigned int num_code_lengths)
{
	unsigned i;
#ifdef __CPROVER__
	CHECK(__CPROVER_r_ok(code_lengths, num_code_lengths), "build_tree: the code-length array holds num_code_lengths entries");
	CHECK(__CPROVER_w_ok(tree, tree_len), "build_tree: the tree array holds tree_len entries");
#endif
	CHECK((tree == dec.code_tree && tree_len == CODE_TREE_ELEMENTS && num_code_lengths <= 31)
	   || (tree == dec.offset_tree && tree_len == OFFSET_TREE_ELEMENTS && num_code_lengths <= 8), "build_tree called with the matching array size and code count");
	if (tree == dec.code_tree) { for (i = 0; i < CODE_TREE_ELEMENTS; ++i) tree[i] = hv_ct[i]; }
	else { for (i = 0; i < OFFSET_TREE_ELEMENTS; ++i) tree[i] = hv_ot[i]; }
}
#endif
#ifdef READ_HARNESS
static void output_byte(LHAPM2Decoder *decoder, uint8_t *buf, size_t *buf_len, uint8_t b)
{
	(void) buf; (void) b;
	CHECK(*buf_len < OUTPUT_BUFFER_SIZE, "every output_byte call has room in the max_read-sized buffer");
	++*buf_len;
	decoder->ringbuf_pos = (decoder->ringbuf_pos + 1) % RING_BUFFER_SIZE;
	/* the real output_byte may rebuild the trees; they are not read again during this read() (they are
	 * consulted only before the first output), and harness_outbyte shows the rebuilt trees satisfy INV */
}
#endif
#if defined(READ_HARNESS) || defined(OUTB_HARNESS)
/* contract of rebuild_tree as established by pm2.rebuild */
static void rebuild_tree(LHAPM2Decoder *decoder)
{
	havoc_trees(decoder);
	decoder->tree_state = PM2_REBUILD_BUILD1;
	decoder->tree_rebuild_remaining = 1024;
}
#endif
#ifdef READ_HARNESS
void harness_read(void)
{
	INPUT_ARRAY(u8, ct, CODE_TREE_ELEMENTS);
	INPUT_ARRAY(u8, ot, OFFSET_TREE_ELEMENTS);
	INPUT_ARRAY(u8, ct2, CODE_TREE_ELEMENTS);
	INPUT_ARRAY(u8, ot2, OFFSET_TREE_ELEMENTS);
	INPUT(u32, pos); INPUT(u32, bits); INPUT(u32, bitbuf); INPUT(u32, tstate); INPUT(u32, remaining); INPUT(u32, need);
	u8 out[OUTPUT_BUFFER_SIZE];
	unsigned i;
	size_t n;
	setup(ct, ot, pos, bits, bitbuf, tstate, remaining, need);
	for (i = 0; i < CODE_TREE_ELEMENTS; ++i) hv_ct[i] = ct2[i];
	for (i = 0; i < OFFSET_TREE_ELEMENTS; ++i) hv_ot[i] = ot2[i];
	ASSUME(inv(&dec));
	ASSUME(tree_ok(hv_ct, CODE_TREE_ELEMENTS, 127) && tree_ok(hv_ot, OFFSET_TREE_ELEMENTS, 7));
	CHECK(lha_pm2_decoder.max_read == OUTPUT_BUFFER_SIZE, "harness buffer is exactly max_read bytes");
	n = lha_pm2_decoder_read(&dec, out);
	CHECK(n <= OUTPUT_BUFFER_SIZE, "read returns at most max_read");
	CHECK(inv(&dec), "state invariant re-established");
	if (n == 256) WITNESS("maximal copy");
	if (n == 1) WITNESS("single byte");
	WITNESS("end");
}
#endif
#ifdef OUTB_HARNESS
void harness_outbyte(void)
{
	INPUT_ARRAY(u8, ct, CODE_TREE_ELEMENTS);
	INPUT_ARRAY(u8, ot, OFFSET_TREE_ELEMENTS);
	INPUT(u32, pos); INPUT(u32, bits); INPUT(u32, bitbuf); INPUT(u32, tstate); INPUT(u32, remaining); INPUT(u32, need);
	INPUT(u32, fill); INPUT(u8, b); INPUT(u8, head);
	INPUT_ARRAY(u8, ct2, CODE_TREE_ELEMENTS);
	INPUT_ARRAY(u8, ot2, OFFSET_TREE_ELEMENTS);
	u8 out[OUTPUT_BUFFER_SIZE];
	size_t n;
	unsigned i;
	for (i = 0; i < CODE_TREE_ELEMENTS; ++i) hv_ct[i] = ct2[i];
	for (i = 0; i < OFFSET_TREE_ELEMENTS; ++i) hv_ot[i] = ot2[i];
	ASSUME(tree_ok(hv_ct, CODE_TREE_ELEMENTS, 127) && tree_ok(hv_ot, OFFSET_TREE_ELEMENTS, 7));
	setup(ct, ot, pos, bits, bitbuf, tstate, remaining, need);
	dec.history_list.history_head = head;         /* list links are bytes: any content indexes history[256] */
	ASSUME(inv(&dec));
	ASSUME(fill < OUTPUT_BUFFER_SIZE);
	n = fill;
	output_byte(&dec, out, &n, b);
	CHECK(n == fill + 1, "output index advances by one");
	CHECK(inv(&dec), "state invariant re-established (including after a table rebuild)");
	if (remaining == 1 && tstate == 3) WITNESS("rebuild in the middle of output");
	WITNESS("end");
}
#endif
#ifdef REBUILD_HARNESS
void harness_rebuild(void)
{
	INPUT_ARRAY(u8, ct, CODE_TREE_ELEMENTS);
	INPUT_ARRAY(u8, ot, OFFSET_TREE_ELEMENTS);
	INPUT(u32, pos); INPUT(u32, bits); INPUT(u32, bitbuf); INPUT(u32, tstate); INPUT(u32, remaining); INPUT(u32, need);
	INPUT_ARRAY(u8, ct2, CODE_TREE_ELEMENTS);
	INPUT_ARRAY(u8, ot2, OFFSET_TREE_ELEMENTS);
	unsigned i;
	for (i = 0; i < CODE_TREE_ELEMENTS; ++i) hv_ct[i] = ct2[i];
	for (i = 0; i < OFFSET_TREE_ELEMENTS; ++i) hv_ot[i] = ot2[i];
	/* what build_tree can leave behind: T with leaves < 31 resp. < 8 */
	ASSUME(tree_ok(hv_ct, CODE_TREE_ELEMENTS, 30) && tree_ok(hv_ot, OFFSET_TREE_ELEMENTS, 7));
	setup(ct, ot, pos, bits, bitbuf, tstate, remaining, need);
	ASSUME(inv(&dec));
	rebuild_tree(&dec);
	CHECK(inv(&dec), "rebuild_tree re-establishes the invariant for arbitrary table bits");
	CHECK(dec.tree_rebuild_remaining >= 1024, "next rebuild is at least 1024 bytes away (at most one rebuild per read)");
	{
		static LHAPM2Decoder e;
		lha_pm2_decoder_init(&e, any_cb, 0);
		CHECK(inv(&e), "init establishes the invariant");
	}
	if (tstate == 0 && dec.code_tree[0] == 30) WITNESS("initial build with a branching code tree");
	WITNESS("end");
}
#endif
