/* C09: stored methods. */
#define ACB_BYTES 20
#define ACB_CALLS 4
#include "any_cb.h"
#include "lib/null_decoder.c"
void harness_null(void)
{
	INPUT_ARRAY(u8, bytes, ACB_BYTES);
	INPUT_ARRAY(u8, counts, ACB_CALLS);
	LHANullDecoder d;
	u8 out[1024];
	size_t n;
	ACB_SETUP(bytes, counts);
	CHECK(lha_null_decoder.max_read == 1024, "harness buffer is exactly max_read bytes");
	lha_null_init(&d, any_cb, 0);
	n = lha_null_read(&d, out);
	CHECK(n <= 1024, "read returns at most max_read");
	WITNESS("end");
}
