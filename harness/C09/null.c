/* C09: stored methods. */
#define ACB_BYTES 20
#define ACB_CALLS 4
#include "any_cb.h"
#include "lib/null_decoder.c"
void harness_null(void)
{
	INPUT_ARRAY(u8, bytes, ACB_BYTES);
	INPUT_ARRAY(u8, counts, ACB_CALLS);
	LHANullDecoder d;
	u8 *out = malloc(lha_null_decoder.max_read);      /* an object of exactly the declared max_read bytes */
	size_t n;
	ACB_SETUP(bytes, counts);
	ASSUME(out != NULL);
	lha_null_init(&d, any_cb, 0);
	n = lha_null_read(&d, out);
	CHECK(n <= lha_null_decoder.max_read, "read returns at most max_read");
	WITNESS("end");
}
