/* C09: -lz5-.  Same decomposition as lzs.c (state invariant: ringbuf_pos < 4096). */
#define ACB_BYTES 20
#define ACB_CALLS 20
#include "any_cb.h"
#include <string.h>
#include "lib/lz5_decoder.c"
#define MAXREAD (18 * 8)

#ifdef READ_HARNESS
static void output_byte(LHALZ5Decoder *decoder, uint8_t *buf, size_t *buf_len, uint8_t b)
{
	(void) buf; (void) b;
	CHECK(*buf_len < lha_lz5_decoder.max_read, "every output_byte call has room in the max_read-sized buffer");
	++*buf_len;
	decoder->ringbuf_pos = (decoder->ringbuf_pos + 1) % RING_BUFFER_SIZE;
}
static void output_block(LHALZ5Decoder *decoder, uint8_t *buf, size_t *buf_len, unsigned int start, unsigned int len)
{
	(void) buf; (void) start;
	CHECK(len <= 18 && *buf_len + len <= lha_lz5_decoder.max_read, "every output_block call has room for its whole copy in the max_read-sized buffer");
	*buf_len += len;
	decoder->ringbuf_pos = (decoder->ringbuf_pos + len) % RING_BUFFER_SIZE;
}
void harness_read(void)
{
	INPUT_ARRAY(u8, bytes, ACB_BYTES);
	INPUT_ARRAY(u8, counts, ACB_CALLS);
	INPUT(u32, pos);
	LHALZ5Decoder d;
	u8 out[MAXREAD];
	size_t n;
	ACB_SETUP(bytes, counts);
	/* room is measured against the DECLARED max_read, whatever its value */
	ASSUME(pos < 4096);
	d.ringbuf_pos = pos; d.callback = any_cb; d.callback_data = 0;
	n = lha_lz5_read(&d, out);
	CHECK(n <= lha_lz5_decoder.max_read, "read returns at most max_read");
	CHECK(d.ringbuf_pos < 4096, "state invariant re-established");
	if (n == MAXREAD) WITNESS("maximal run");
	WITNESS("end");
}
#else
void harness_outbyte(void)
{
	INPUT(u32, pos); INPUT(u32, fill); INPUT(u8, b); INPUT(u32, start); INPUT(u32, len);
	LHALZ5Decoder d;
	u8 out[MAXREAD];
	size_t n;
	ASSUME(pos < 4096 && fill < MAXREAD);
	d.ringbuf_pos = pos;
	n = fill;
	output_byte(&d, out, &n, b);
	CHECK(n == fill + 1 && d.ringbuf_pos < 4096, "output index advances by one; write position stays inside the ring");
	ASSUME(len <= 18 && n + len <= MAXREAD);       /* the contract the read harness asserts at every call */
	output_block(&d, out, &n, start, len);         /* any start value: the index is reduced modulo the ring */
	CHECK(n == fill + 1 + len && d.ringbuf_pos < 4096, "copy advances the output by len; write position stays inside the ring");
	WITNESS("end");
}
void harness_init(void)
{
	static LHALZ5Decoder e;
	lha_lz5_init(&e, any_cb, 0);
	CHECK(e.ringbuf_pos < 4096, "init establishes the invariant");
	WITNESS("end");
}
#endif
