/* C09 (no read returns more than asked; output buffer never overrun), C13 (the read loop ends), C14 (never beyond
 * the declared length): ONE lha_decoder_read from an ARBITRARY decoder bookkeeping state satisfying
 *   Inv: outbuf_pos <= outbuf_len <= max_read, stream_pos <= stream_length
 * with a method read() that returns any count <= max_read each time it is called (its own contract: C09 per-decoder
 * harnesses), into a caller buffer that is an object of EXACTLY buf_len bytes (BUFLEN concrete per variant).
 * Inductive: Inv is re-established, so the claims hold after any number of reads of any sizes. */
#include "verif.h"
#include <stdlib.h>
#include <string.h>
#include <limits.h>
#include "libc_models.h"
#define memcpy verif_memcpy
#include "lib/lha_decoder.c"

#ifndef MAXR
#define MAXR 3
#endif
#ifndef BUFLEN
#define BUFLEN 4
#endif
SEQ_DECL(u8, rd);
static unsigned read_calls;
static size_t any_read(void *extra, uint8_t *buf)
{
	u8 n = SEQ_NEXT(u8, rd);
	unsigned i;
	(void) extra;
	++read_calls;
	if (n > MAXR) n = MAXR;
	for (i = 0; i < MAXR; ++i) if (i < n) buf[i] = (uint8_t) (0x40 + i);       /* writes stay inside max_read by the method's contract */
	return n;
}
static LHADecoderType any_type = { NULL, NULL, any_read, 1, MAXR, 2 };
static struct { LHADecoder d; uint8_t extra[1]; uint8_t out[MAXR]; } obj;

void harness(void)
{
	INPUT(u32, opos); INPUT(u32, olen); INPUT(usz, spos); INPUT(usz, slen); INPUT(u8, failed); INPUT(u16, crc0);
	uint8_t *buf;
	size_t n;
	ASSUME(opos <= olen && olen <= MAXR && spos <= slen);
	ASSUME(slen <= (usz) -1 - BUFLEN);  /* position + request does not wrap size_t (declared lengths come from 32-bit header fields; the API takes a size_t) */
	memset(&obj, 0, sizeof(obj));
	obj.d.dtype = &any_type; obj.d.outbuf = obj.out; obj.d.outbuf_pos = opos; obj.d.outbuf_len = olen;
	obj.d.stream_pos = spos; obj.d.stream_length = slen; obj.d.decoder_failed = failed & 1; obj.d.crc = crc0;
	obj.d.progress_callback = NULL;
	buf = malloc(BUFLEN);
	ASSUME(buf != NULL || BUFLEN == 0);
	n = lha_decoder_read(&obj.d, buf, BUFLEN);
	CHECK(n <= BUFLEN, "C09: a read of k bytes returns at most k");
	CHECK(n <= slen - spos, "C13/C14: the bytes returned never pass the declared length");
	CHECK(obj.d.stream_pos == spos + n && obj.d.stream_pos <= obj.d.stream_length, "C14: reported length advances by exactly the bytes returned");
	CHECK(obj.d.outbuf_pos <= obj.d.outbuf_len && obj.d.outbuf_len <= MAXR, "Inv re-established (internal buffer cursor within the method's max_read)");
	if (n < BUFLEN) CHECK(n == slen - spos || obj.d.decoder_failed, "C14: a read comes back short only at the declared end or after the method ran dry");
	CHECK(read_calls <= BUFLEN + 1u, "C13: the read loop calls the method at most once per byte asked, plus once");
	if ((failed & 1)) CHECK(read_calls == 0, "C13: a failed decoder is not called again");
	if (n == BUFLEN && BUFLEN > 0 && read_calls >= 2) WITNESS("request filled over several method calls");
	if (n < BUFLEN && n == slen - spos && slen - spos > 0) WITNESS("cut at the declared length");
	free(buf);
	WITNESS("end");
}
