/* C09: -lzs-.  harness_read: real lha_lzs_read/output_block from an arbitrary state (ringbuf_pos < 2048,
 * bits <= 32) with output_byte replaced by a contract stub; harness_outbyte: the real output_byte. */
#define ACB_BYTES 8
#define ACB_CALLS 8
#include "any_cb.h"
#include <string.h>
#include "lib/lzs_decoder.c"
#include "bits_stub.h"
#define MAXREAD 17

#ifdef READ_HARNESS
static void output_byte(LHALZSDecoder *decoder, uint8_t *buf, size_t *buf_len, uint8_t b)
{
	(void) buf; (void) b;
	CHECK(*buf_len < lha_lzs_decoder.max_read, "every output_byte call has room in the max_read-sized buffer");
	++*buf_len;
	decoder->ringbuf_pos = (decoder->ringbuf_pos + 1) % RING_BUFFER_SIZE;
}
void harness_read(void)
{
	INPUT(u32, pos); INPUT(u32, bits); INPUT(u32, bitbuf);
	LHALZSDecoder d;
	u8 out[MAXREAD];
	size_t n;
	/* room is measured against the DECLARED max_read (lha_decoder_new sizes the real buffer from it), whatever its value */
	ASSUME(pos < 2048 && bits <= 32);
	d.ringbuf_pos = pos; d.bit_stream_reader.bits = bits; d.bit_stream_reader.bit_buffer = bitbuf;
	d.bit_stream_reader.callback = any_cb; d.bit_stream_reader.callback_data = 0;
	n = lha_lzs_read(&d, out);
	CHECK(n <= lha_lzs_decoder.max_read, "read returns at most max_read");
	CHECK(d.ringbuf_pos < 2048 && d.bit_stream_reader.bits <= 32, "state invariant re-established");
	if (n == 17) WITNESS("maximal copy");
	WITNESS("end");
}
#else
void harness_outbyte(void)
{
	INPUT(u32, pos); INPUT(u32, fill); INPUT(u8, b);
	LHALZSDecoder d;
	u8 out[MAXREAD];
	size_t n;
	ASSUME(pos < 2048 && fill < MAXREAD);
	d.ringbuf_pos = pos;
	n = fill;
	output_byte(&d, out, &n, b);
	CHECK(n == fill + 1 && d.ringbuf_pos < 2048, "output index advances by one; write position stays inside the ring");
	{
		static LHALZSDecoder e;
		lha_lzs_init(&e, any_cb, 0);
		CHECK(e.ringbuf_pos < 2048 && e.bit_stream_reader.bits <= 32, "init establishes the invariant");
	}
	WITNESS("end");
}
#endif
