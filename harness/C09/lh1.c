/* C09: -lh1-.  Memory safety of one read, split (DESIGN 4.9):
 *
 *  scaled NUM_CODES (hook macros), ARBITRARY tree/group state satisfying the invariant of C02/lh1_model.h
 *  (shown inductive by the C02 harnesses step/inv/rebuild), arbitrary bits (BITS_ANY stub), all CBMC checks on:
 *    harness_code     read_code: tree walk + increment_for_code (make_group_leader, increment_node_freq, alloc/free
 *                     group), root count below the limit; reconstruct_tree is a stub asserting it is not reached.
 *    harness_rebuild  reconstruct_tree alone, from any state with exactly NUM_CODES leaf entries carrying symbols
 *                     < NUM_CODES (weaker than the invariant: counts, links, groups arbitrary).
 *    harness_atlimit  read_code with the real reconstruct_tree inlined, root count == limit (cross-check of the
 *                     composition of the two above).
 *  real constants:
 *    harness_offset   init_offset_table (concrete) + read_offset with arbitrary bits: offset_lookup / offset_lengths
 *                     indices in range, result < 4096.
 *    harness_read     lha_lh1_read + output_byte + real read_offset with arbitrary bits, read_code replaced by a stub
 *                     returning an arbitrary symbol < NUM_CODES or failure (justified by harness_code), arbitrary
 *                     write position < 4096, output buffer an object of exactly max_read bytes. */
#include <string.h>
#include "verif.h"
#if defined(LHASA_VERIF_LH1_NUM_CODES)
#define LZ_N         LHASA_VERIF_LH1_NUM_CODES
#define LZ_MAX_FREQ  LHASA_VERIF_LH1_REORDER_LIMIT
#else
#define LZ_N         314
#define LZ_MAX_FREQ  0x8000
#endif
#define PARTS 0
#include "lib/lh1_decoder.c"
#include "C02/lh1_model.h"
#include "bits_stub.h"

static LHALH1Decoder dec;

#ifdef STUB_REBUILD
static void reconstruct_tree(LHALH1Decoder *decoder)
{
	(void) decoder;
	CHECK(0, "lh1: reconstruct_tree is not reached while the root count is below the limit");
}
#endif

#ifdef TREE_HARNESS
static void tree_read(int at_limit)
{
	uint16_t code = 0;
	int ok;

	ok = read_code(&dec, &code);
	if (ok) {
		CHECK(code < NUM_CODES, "lh1: decoded symbol is below NUM_CODES");
		CHECK(dec.num_groups >= 1 && dec.num_groups <= NUM_TREE_NODES, "lh1: group allocator stays inside groups[]");
		CHECK(dec.nodes[0].freq <= LZ_MAX_FREQ, "lh1: root count stays within the limit");
#ifdef STUB_REBUILD
		if (bits_calls == LZ_N - 1) WITNESS("deepest leaf");
#endif
		(void) at_limit;
		WITNESS("symbol decoded");
	} else {
		WITNESS("end of data inside the code");
	}
	WITNESS("end");
}

void harness_code(void)
{
	LH1_STATE_INPUTS;
	LH1_STATE_LOAD(&dec);
	ASSUME(lh1_inv(&dec, LZ_MAX_FREQ));
	ASSUME(dec.nodes[0].freq < LZ_MAX_FREQ);
	tree_read(0);
}

void harness_atlimit(void)
{
	LH1_STATE_INPUTS;
	LH1_STATE_LOAD(&dec);
	ASSUME(lh1_inv(&dec, LZ_MAX_FREQ));
	ASSUME(dec.nodes[0].freq == LZ_MAX_FREQ);
	tree_read(1);
}

#ifndef STUB_REBUILD
/* for memory safety reconstruct_tree needs much less than the invariant: exactly NUM_CODES entries flagged as leaves,
 * each carrying a symbol < NUM_CODES; counts, links and group data are arbitrary */
void harness_rebuild(void)
{
	LH1_STATE_INPUTS;
	unsigned i, leaves = 0;
	LH1_STATE_LOAD(&dec);
	for (i = 0; i < NUM_TREE_NODES; ++i) {
		if (dec.nodes[i].leaf) {
			++leaves;
			ASSUME(dec.nodes[i].child_index < NUM_CODES);
		}
	}
	ASSUME(leaves == NUM_CODES);
	reconstruct_tree(&dec);
	CHECK(dec.num_groups >= 1 && dec.num_groups <= NUM_TREE_NODES, "lh1: group allocator stays inside groups[]");
	if (!dec.nodes[NUM_TREE_NODES - 3].leaf) WITNESS("a branch node among the last three entries");
	WITNESS("end");
}
#endif
#endif

#ifdef OFFSET_HARNESS
void harness_offset(void)
{
	unsigned result = 0;
	int ok;

	init_offset_table(&dec);
	ok = read_offset(&dec, &result);
	if (ok) {
		CHECK(result < RING_BUFFER_SIZE, "lh1: distance field below the ring size");
		if (result == 4095) WITNESS("largest distance");
	} else {
		WITNESS("end of data inside the distance field");
	}
	WITNESS("end");
}
#endif

#ifdef READ_HARNESS
#define MAXREAD 4096
SEQ_DECL(u16, codeval);
SEQ_DECL(u8, codefail);
static int read_code(LHALH1Decoder *decoder, uint16_t *result)
{
	uint16_t c;
	(void) decoder;
	if (SEQ_NEXT(u8, codefail) & 1) return 0;
	c = SEQ_NEXT(u16, codeval);
	ASSUME(c < NUM_CODES);
	*result = c;
	return 1;
}

void harness_read(void)
{
	INPUT(u32, pos);
	/* the output buffer is an object of exactly the size the decoder type DECLARES (max_read): lha_decoder_new sizes the real
	 * buffer from that field, so what must hold is "one read writes at most max_read bytes", whatever the value is */
	u8 *out = malloc(lha_lh1_decoder.max_read);
	size_t n;

	ASSUME(out != NULL);
	CHECK(lha_lh1_decoder.max_read >= 1 && lha_lh1_decoder.max_read <= MAXREAD, "harness models output buffers of up to 4096 bytes");
	CHECK(NUM_CODES == 314, "real constants");
	ASSUME(pos < RING_BUFFER_SIZE);
	init_offset_table(&dec);
	dec.ringbuf_pos = pos;
	n = lha_lh1_read(&dec, out);
	CHECK(n <= lha_lh1_decoder.max_read, "lh1: read returns at most max_read");
	CHECK(n <= 60, "lh1: at most 60 bytes per command");
	CHECK(dec.ringbuf_pos < RING_BUFFER_SIZE, "lh1: write position stays inside the ring");
	if (n == 60) WITNESS("longest copy");
	if (n == 1) WITNESS("literal");
	WITNESS("end");
}
#endif
