/* C09: lh_new family (-lh4/5/6/7/x-, -lk7-), inductive memory safety.
 *
 * Invariant Inv of LHANewDecoder (what the code needs, derived from its accesses):
 *   ringbuf_pos < RING
 *   every tree satisfies T (harness/C09/tree.c: each entry a leaf or a forward pointer v, i < v, v + 1 < len), with
 *   leaf values   code tree   <= 511 (9-bit symbol of the n=0 form; build_tree leaves are < n <= NUM_CODES):
 *                             copy length = code - 253 <= 258 (LHARK: <= 514) <= OUTPUT_BUFFER_SIZE
 *                 offset tree <= MAX_OFFSET_CODES = 2^OFFSET_BITS - 1: extra-bit request <= 30 < 32
 *                 temp tree   <= 31
 *   bits <= 32 (bit reader, C01/bits.c in safety mode)
 * Obligations, all with CBMC's bounds/pointer/shift checks on:
 *   harness_init      lha_lh_new_init establishes Inv (real sizes)
 *   harness_temp/offtab/codetab   each table reader, ARBITRARY bits (BITS_ANY), real clamps: every code_lengths[]
 *                     write in range (incl. the i == 2 skip field), build_tree called with n <= capacity of the
 *                     right tree and its true length; the n=0 forms keep T with the leaf bound
 *   harness_blockhdr  start_new_block: order/early exit only (readers replaced by contract stubs)
 *   harness_read      one lha_lh_new_read from an arbitrary Inv state into a buffer object of exactly
 *                     OUTPUT_BUFFER_SIZE bytes: no out-of-bounds access, result <= max_read, Inv re-established
 *   harness_outbyte   real output_byte from an arbitrary state with room in the buffer
 * Stubs are contract stubs: they CHECK the callee's precondition and return arbitrary values within the
 * postcondition that the callee's own harness proves (named in the plan). */
#include "verif.h"
#include <string.h>
#if defined(REAL_LH5)
#include "lib/lh5_decoder.c"
#define DEC lha_lh5_decoder
#elif defined(REAL_LH6)
#include "lib/lh6_decoder.c"
#define DEC lha_lh6_decoder
#elif defined(REAL_LH7)
#include "lib/lh7_decoder.c"
#define DEC lha_lh7_decoder
#elif defined(REAL_LHX)
#include "lib/lhx_decoder.c"
#define DEC lha_lhx_decoder
#elif defined(REAL_LK7)
#include "lib/lk7_decoder.c"
#define DEC lha_lk7_decoder
#else
/* template instantiated here: small ring, real NUM_CODES unless NC is given */
#define HISTORY_BITS HB
#define OFFSET_BITS OB
#ifdef NC
#define NUM_CODES NC
#elif defined(LK)
#define NUM_CODES 289
#else
#define NUM_CODES 510
#endif
#ifdef LK
#define LHARK
#endif
#define DECODER_NAME verif_lh_decoder
#define DEC verif_lh_decoder
#include "lib/lh_new_decoder.c"
#endif
#define BITS_ANY
#include "bits_stub.h"

#define RING RING_BUFFER_SIZE
#define CODE_LEAF_MAX 511u
#define OFF_LEAF_MAX ((unsigned) MAX_OFFSET_CODES)
#define TEMP_LEAF_MAX 31u
#ifdef LHARK
#define LONGEST 514u
#else
#define LONGEST (CODE_LEAF_MAX - 253u)
#endif

static LHANewDecoder dec;

/* ---------------- contract stubs ---------------- */

/* read_length_value: 3 bits + unary extension of unbounded length: any value >= 0, or failure.
 * (its only memory accesses are bit reader calls) */
#ifdef STUB_LEN
SEQ_DECL(i32, lenval);
static int read_length_value(LHANewDecoder *decoder)
{
	i32 v = SEQ_NEXT(i32, lenval);
	(void) decoder;
	return v < -1 ? -1 : v;
}
#endif

/* build_tree: precondition = what tree.* harnesses assume (tree array of tree_len entries, n code lengths
 * readable); asserted here together with "the right tree, its true length, n within its capacity".
 * Postcondition (tree satisfies T with leaves < n) is proved there; the tree content is not needed below. */
#ifdef STUB_BUILD
static unsigned bt_calls;
static void build_tree(TreeElement *tree, size_t tree_len, uint8_t *code_lengths, unsigned int num_code_lengths)
{
	++bt_calls;
	if (tree == dec.temp_tree) {
		CHECK(tree_len == MAX_TEMP_CODES * 2 && num_code_lengths <= MAX_TEMP_CODES, "lh_new: [C09] temp tree built with its true length, n clamped to MAX_TEMP_CODES");
	} else if (tree == dec.code_tree) {
		CHECK(tree_len == NUM_CODES * 2 && num_code_lengths <= NUM_CODES, "lh_new: [C09] code tree built with its true length, n clamped to NUM_CODES");
	} else {
		CHECK(tree == dec.offset_tree, "lh_new: [C09] build_tree target is one of the three trees");
		CHECK(tree_len == MAX_OFFSET_CODES * 2 && num_code_lengths <= MAX_OFFSET_CODES, "lh_new: [C09] offset tree built with its true length, n clamped to MAX_OFFSET_CODES");
	}
	CHECK(num_code_lengths >= 1, "lh_new: [C09] build_tree is not called for the n=0 forms");
	/* touch both ends of the two arrays so that the pointer/bounds checks of this run cover the callee's accesses */
	if (num_code_lengths >= 1 && tree_len >= 1) {
		uint8_t a = code_lengths[0], b = code_lengths[num_code_lengths - 1];
		TreeElement x = tree[0], y = tree[tree_len - 1];
		tree[0] = x; tree[tree_len - 1] = y;
		(void) a; (void) b;
	}
}
#endif

/* read_from_tree on a tree satisfying T with leaf bound B: a value 0..B, or failure (tree.walk.* harnesses) */
#ifdef STUB_WALK
SEQ_DECL(u32, walkval);
SEQ_DECL(u8, walkfail);
static unsigned walk_limit = 0xffffffffu, walks;
static int read_from_tree(BitStreamReader *reader, TreeElement *tree)
{
	u32 v = SEQ_NEXT(u32, walkval);
	unsigned bound;
	(void) reader;
#ifdef CODE_LEAF_CAP
	if (tree == dec.code_tree) bound = CODE_LEAF_CAP;      /* this variant: code-tree leaves up to CODE_LEAF_CAP only (see plan) */
#else
	if (tree == dec.code_tree) bound = CODE_LEAF_MAX;
#endif
	else if (tree == dec.offset_tree) bound = OFF_LEAF_MAX;
	else { CHECK(tree == dec.temp_tree, "lh_new: [C09] only the decoder's own trees are walked"); bound = TEMP_LEAF_MAX; }
	if (walks >= walk_limit || (SEQ_NEXT(u8, walkfail) & 1)) return -1;
	++walks;
	return (int) (v % (bound + 1u));
}
#endif

#ifdef STUB_OUTBYTE
static void output_byte(LHANewDecoder *decoder, uint8_t *buf, size_t *buf_len, uint8_t b)
{
	(void) buf; (void) b;
	CHECK(*buf_len < OUTPUT_BUFFER_SIZE, "lh_new: [C09] every output_byte call has room in the max_read-sized buffer");
	CHECK(decoder->ringbuf_pos < RING, "lh_new: [C09] write position inside the ring at every output_byte call");
	++*buf_len;
	decoder->ringbuf_pos = (decoder->ringbuf_pos + 1) % RING;
}
#endif

#ifdef STUB_BLOCK
SEQ_DECL(u32, blkcount);
SEQ_DECL(u8, blkok);
static unsigned blk_calls;
static int start_new_block(LHANewDecoder *decoder)
{
	/* contract of the real function (harness_blockhdr + table reader harnesses): stores a 16-bit count, may
	 * rebuild trees within Inv (trees are abstract here: read_from_tree is a contract stub), may fail */
	++blk_calls;
	decoder->block_remaining = SEQ_NEXT(u32, blkcount) & 0xffffu;
	if (blk_calls >= 3 && decoder->block_remaining == 0) decoder->block_remaining = 1;   /* at most 2 empty blocks in a row here */
	return SEQ_NEXT(u8, blkok) & 1;
}
#endif

/* T with a leaf bound, for the small trees that the n=0 forms touch directly */
static int t_ok(const TreeElement *t, unsigned len, unsigned maxleaf)
{
	unsigned i;
	for (i = 0; i < len; ++i) {
		if (t[i] & TREE_NODE_LEAF) { if ((unsigned) (t[i] & ~TREE_NODE_LEAF) > maxleaf) return 0; }
		else if (!(t[i] > i && (unsigned) t[i] + 1u < len)) return 0;
	}
	return 1;
}

/* ---------------- table readers ---------------- */
#ifdef H_TEMP
void harness_temp(void)
{
	INPUT_ARRAY(u16, tin, MAX_TEMP_CODES * 2);
	unsigned i;
	int r;
	for (i = 0; i < MAX_TEMP_CODES * 2; ++i) dec.temp_tree[i] = tin[i];
	ASSUME(t_ok(dec.temp_tree, MAX_TEMP_CODES * 2, TEMP_LEAF_MAX));
	r = read_temp_table(&dec);
	CHECK(r == 0 || r == 1, "lh_new: [C09] read_temp_table returns a flag");
	CHECK(bt_calls <= 1, "lh_new: [C09] at most one tree build per table");
	if (bt_calls == 0) CHECK(t_ok(dec.temp_tree, MAX_TEMP_CODES * 2, TEMP_LEAF_MAX), "lh_new: [C09] temp tree keeps T (leaf <= 31) through the n=0 form and through failures");
	if (r == 1 && bt_calls == 1) WITNESS("temp table with a tree build");
	if (r == 1 && bt_calls == 0) WITNESS("temp table n=0 form");
	WITNESS("end");
}
#endif

#ifdef H_OFFTAB
void harness_offtab(void)
{
	INPUT_ARRAY(u16, tin, MAX_OFFSET_CODES * 2);
	unsigned i;
	int r;
	for (i = 0; i < MAX_OFFSET_CODES * 2; ++i) dec.offset_tree[i] = tin[i];
	ASSUME(t_ok(dec.offset_tree, MAX_OFFSET_CODES * 2, OFF_LEAF_MAX));
	r = read_offset_table(&dec);
	CHECK(r == 0 || r == 1, "lh_new: [C09] read_offset_table returns a flag");
	CHECK(bt_calls <= 1, "lh_new: [C09] at most one tree build per table");
	if (bt_calls == 0) CHECK(t_ok(dec.offset_tree, MAX_OFFSET_CODES * 2, OFF_LEAF_MAX), "lh_new: [C09] offset tree keeps T (leaf <= MAX_OFFSET_CODES) through the n=0 form and through failures");
	if (r == 1 && bt_calls == 1) WITNESS("offset table with a tree build");
	if (r == 1 && bt_calls == 0) WITNESS("offset table n=0 form");
	WITNESS("end");
}
#endif

#ifdef H_CODETAB
void harness_codetab(void)
{
	INPUT(u32, first);
	int r;
	/* code tree: only entry 0 is touched without build_tree (n=0 form); the rest of the tree is left as it is */
	ASSUME((first & TREE_NODE_LEAF) ? (first & ~TREE_NODE_LEAF) <= CODE_LEAF_MAX : (first > 0 && first + 1u < NUM_CODES * 2));
	dec.code_tree[0] = (TreeElement) first;
#ifdef KSYM
	walk_limit = KSYM;                    /* the temp-tree walk fails from the (KSYM+1)-th symbol on: at most KSYM+1 loop rounds */
#endif
	r = read_code_table(&dec);
	CHECK(r == 0 || r == 1, "lh_new: [C09] read_code_table returns a flag");
	CHECK(bt_calls <= 1, "lh_new: [C09] at most one tree build per table");
	if (bt_calls == 0) {
		TreeElement e = dec.code_tree[0];
		CHECK((e & TREE_NODE_LEAF) ? (unsigned) (e & ~TREE_NODE_LEAF) <= CODE_LEAF_MAX : (e > 0 && (unsigned) e + 1u < NUM_CODES * 2),
		      "lh_new: [C09] code tree root keeps T (leaf <= 511) through the n=0 form and through failures");
	}
	if (r == 1 && bt_calls == 1) WITNESS("code table with a tree build");
	if (r == 1 && bt_calls == 0) WITNESS("code table n=0 form");
	WITNESS("end");
}
#endif

#ifdef H_BLOCKHDR
SEQ_DECL(u8, tabok);
static unsigned tab_calls;
static int read_temp_table(LHANewDecoder *d) { (void) d; ++tab_calls; return SEQ_NEXT(u8, tabok) & 1; }
static int read_code_table(LHANewDecoder *d) { (void) d; ++tab_calls; return SEQ_NEXT(u8, tabok) & 1; }
static int read_offset_table(LHANewDecoder *d) { (void) d; ++tab_calls; return SEQ_NEXT(u8, tabok) & 1; }
void harness_blockhdr(void)
{
	INPUT(u32, rem);
	int r;
	dec.block_remaining = rem;
	r = start_new_block(&dec);
	CHECK(r == 0 || r == 1, "lh_new: [C09] start_new_block returns a flag");
	CHECK(tab_calls <= 3, "lh_new: [C09] each table read at most once per block header");
	if (r == 1) CHECK(dec.block_remaining <= 0xffff && tab_calls == 3, "lh_new: [C09] block count is a 16-bit value; all three tables read");
	if (r == 1 && dec.block_remaining == 0xffff) WITNESS("largest block");
	WITNESS("end");
}
#endif

/* ---------------- one command ---------------- */
#ifdef H_READ
void harness_read(void)
{
	INPUT(u32, pos); INPUT(u32, rem); INPUT(u32, bits); INPUT(u32, bitbuf);
	LHANewDecoder d0;                     /* arbitrary ring / tree contents */
	uint8_t out[OUTPUT_BUFFER_SIZE];      /* the caller's buffer: exactly max_read bytes */
	size_t n;
	CHECK(DEC.max_read == OUTPUT_BUFFER_SIZE && DEC.extra_size == sizeof(LHANewDecoder), "lh_new: [C09] harness buffer is exactly max_read bytes");
	CHECK(LONGEST <= OUTPUT_BUFFER_SIZE, "lh_new: [C09] longest copy a tree leaf can encode fits max_read");
	ASSUME(pos < RING && bits <= 32);
	dec = d0;
	dec.ringbuf_pos = pos;
	dec.block_remaining = rem;
	dec.bit_stream_reader.bits = bits;
	dec.bit_stream_reader.bit_buffer = bitbuf;
	n = lha_lh_new_read(&dec, out);
	CHECK(n <= OUTPUT_BUFFER_SIZE, "lh_new: [C09] read returns at most max_read");
	CHECK(n <= LONGEST, "lh_new: [C09] one command yields at most the longest copy");
	CHECK(dec.ringbuf_pos < RING, "lh_new: [C09] write position stays inside the ring");
#ifdef CODE_LEAF_CAP
	if (n == 258) WITNESS("longest copy of this variant");
#else
	if (n == LONGEST) WITNESS("longest copy");
#endif
	if (n == 1) WITNESS("literal");
	if (rem == 0 && n > 0) WITNESS("new block, then a command");
	WITNESS("end");
}
#endif

#ifdef H_OUTBYTE
void harness_outbyte(void)
{
	INPUT(u32, pos); INPUT(u32, fill); INPUT(u8, b);
	LHANewDecoder d0;
	uint8_t out[OUTPUT_BUFFER_SIZE];
	size_t n;
	ASSUME(pos < RING && fill < OUTPUT_BUFFER_SIZE);
	dec = d0;
	dec.ringbuf_pos = pos;
	n = fill;
	output_byte(&dec, out, &n, b);
	CHECK(n == fill + 1 && dec.ringbuf_pos < RING, "lh_new: [C09] output index advances by one; write position stays inside the ring");
	if (pos == RING - 1 && fill == OUTPUT_BUFFER_SIZE - 1) WITNESS("last ring cell, last buffer cell");
	WITNESS("end");
}
#endif

#ifdef H_INIT
static size_t dummy_cb(void *buf, size_t buf_len, void *user) { (void) buf; (void) buf_len; (void) user; return 0; }
void harness_init(void)
{
	INPUT(u32, probe);
	ASSUME(probe < NUM_CODES * 2);
	CHECK(lha_lh_new_init(&dec, dummy_cb, 0) == 1, "lh_new: [C09] init succeeds");
	CHECK(dec.ringbuf_pos < RING && dec.bit_stream_reader.bits <= 32, "lh_new: [C09] init: position inside the ring, bit buffer fill <= 32");
	CHECK(dec.code_tree[probe] == TREE_NODE_LEAF, "lh_new: [C09] init: code tree all leaves (T, leaf 0)");
	if (probe < MAX_OFFSET_CODES * 2) CHECK(dec.offset_tree[probe] == TREE_NODE_LEAF, "lh_new: [C09] init: offset tree all leaves");
	if (probe < MAX_TEMP_CODES * 2) CHECK(dec.temp_tree[probe] == TREE_NODE_LEAF, "lh_new: [C09] init: temp tree all leaves");
	CHECK(DEC.max_read == OUTPUT_BUFFER_SIZE && DEC.extra_size == sizeof(LHANewDecoder), "lh_new: [C09] decoder type sizes");
	WITNESS("end");
}
#endif
