/* C09: -pm1-.  Modular inductive safety argument (CBMC memory checks on):
 *   harness_read   real lha_pm1_read / read_byte_block / read_copy_command / count and range decoders from an
 *                  arbitrary state satisfying INV, with read_byte and outputted_byte replaced by contract stubs;
 *   harness_byte   real read_byte / read_byte_decode_index / decode_variable_length / find_in_history_list for
 *                  every one of the 32 start-header trees (and the walk never leaves its 5-byte row);
 *   harness_outb   real outputted_byte (ring, move-to-front list) and read_callback_wrapper.
 * INV: ringbuf_pos < 16384, bits <= 32, byte_decode_tree is NULL or one of the 32 table rows. */
#define ACB_BYTES 16
#define ACB_CALLS 12
#include "any_cb.h"
#include <string.h>
#include "lib/pm1_decoder.c"
#include "bits_stub.h"

static LHAPM1Decoder dec;
static void setup(u32 pos, u32 bits, u32 bitbuf, u32 opos, u32 row)
{
	dec.ringbuf_pos = pos; dec.output_stream_pos = opos;
	dec.bit_stream_reader.bits = bits; dec.bit_stream_reader.bit_buffer = bitbuf;
	dec.bit_stream_reader.callback = read_callback_wrapper; dec.bit_stream_reader.callback_data = &dec;
	dec.callback = any_cb; dec.callback_data = 0;
	dec.byte_decode_tree = row < 32 ? byte_decode_trees[row] : NULL;
}
static int inv(void)
{
	unsigned r, ok = dec.byte_decode_tree == NULL;
	for (r = 0; r < 32; ++r) if (dec.byte_decode_tree == byte_decode_trees[r]) ok = 1;
	return ok && dec.ringbuf_pos < RING_BUFFER_SIZE && dec.bit_stream_reader.bits <= 32;
}

#ifdef READ_HARNESS
static unsigned rb_calls, rb_fail_at, rb_seed;
static int read_byte(LHAPM1Decoder *decoder)
{
	(void) decoder;
	if (rb_calls++ == rb_fail_at) return -1;
	return (int) ((rb_seed + rb_calls * 7) & 0xff);
}
static void outputted_byte(LHAPM1Decoder *decoder, uint8_t b)
{
	(void) b;
	decoder->ringbuf_pos = (decoder->ringbuf_pos + 1) % RING_BUFFER_SIZE;
	++decoder->output_stream_pos;
}
void harness_read(void)
{
	INPUT(u32, pos); INPUT(u32, bits); INPUT(u32, bitbuf); INPUT(u32, opos); INPUT(u32, row);
	INPUT(u32, fail_at); INPUT(u32, seed);
	u8 out[OUTPUT_BUFFER_SIZE];
	size_t n;
	setup(pos, bits, bitbuf, opos, row);
	rb_fail_at = fail_at; rb_seed = seed;
	ASSUME(row <= 32);
	ASSUME(inv());
	CHECK(lha_pm1_decoder.max_read == OUTPUT_BUFFER_SIZE && OUTPUT_BUFFER_SIZE == 460, "harness buffer is exactly max_read bytes");
	n = lha_pm1_read(&dec, out);
	CHECK(n <= OUTPUT_BUFFER_SIZE, "read returns at most max_read");
	CHECK(inv(), "state invariant re-established");
	if (n == 459) WITNESS("longest byte block that is followed by a copy, plus maximal copy");
	WITNESS("end");
}
#else
void harness_byte(void)
{
	INPUT(u32, pos); INPUT(u32, bits); INPUT(u32, bitbuf); INPUT(u32, opos); INPUT(u32, row);
	INPUT(u8, head);
	int v;
	setup(pos, bits, bitbuf, opos, row);
	dec.history_list.history_head = head;             /* list links are bytes: always index history[256] */
	ASSUME(row < 32);
	ASSUME(inv());
	v = read_byte(&dec);
	CHECK(v >= -1 && v <= 255, "read_byte yields a byte value or failure");
	CHECK(inv(), "state invariant re-established");
	{
		int idx = read_byte_decode_index(&dec);
		CHECK(idx >= -1 && idx <= 5, "decode index selects one of the six byte ranges (or failure)");
	}
	if (row == 17) WITNESS("the tree marked BROKEN in the source");
	WITNESS("end");
}
void harness_outb(void)
{
	INPUT_ARRAY(u8, bytes, ACB_BYTES);
	INPUT_ARRAY(u8, counts, ACB_CALLS);
	INPUT(u32, pos); INPUT(u32, bits); INPUT(u32, bitbuf); INPUT(u32, opos); INPUT(u32, row);
	INPUT(u8, head); INPUT(u8, b); INPUT(u32, want);
	u8 tmp[4];
	size_t got;
	ACB_SETUP(bytes, counts);
	setup(pos, bits, bitbuf, opos, row);
	dec.history_list.history_head = head;
	ASSUME(row <= 32);
	ASSUME(inv());
	outputted_byte(&dec, b);
	CHECK(inv(), "state invariant re-established");
	CHECK(dec.history_list.history_head == b, "byte moved to the front of the history");
	ASSUME(want >= 1 && want <= 4);
	got = read_callback_wrapper(tmp, want, &dec);
	CHECK(got >= 1 && got <= want, "wrapper never returns 0 and never more than asked (zero fill at end of data)");
	{
		static LHAPM1Decoder e;
		u8 saved = 0;
		(void) saved;
		lha_pm1_init(&e, any_cb, 0);
		CHECK(e.ringbuf_pos == 0 && e.bit_stream_reader.bits == 0 && e.byte_decode_tree == NULL && e.output_stream_pos == 0, "init establishes the invariant");
	}
	WITNESS("end");
}
#endif
