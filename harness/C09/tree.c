/* C09 (also C13): tree_decode.c, inductive memory-safety of the tree builder and the tree walk.
 *   B(build): next_entry <= tree_allocated <= tree_len
 *   T(tree) : every entry is a leaf with value <= MAXLEAF, or a forward pointer v: i < v and v + 1 < tree_len
 * expand_queue and add_codes_with_length are each run once from an ARBITRARY (build, tree) satisfying B and T,
 * with arbitrary code-length arrays: all accesses in bounds, B and T re-established.  build_tree only calls
 * these two, so B and T hold throughout any build, whatever the lengths (over-subscribed, incomplete, 0..255).
 * read_from_tree on any T-tree: indices in bounds and - pointers being forward - at most tree_len steps. */
#include "verif.h"
#include <string.h>
#include "lib/lha_decoder.h"
#include "lib/bit_stream_reader.c"
#ifdef ELEM8
typedef uint8_t TreeElement;
#else
typedef uint16_t TreeElement;
#endif
#include "lib/tree_decode.c"
#define BITS_ANY
#include "bits_stub.h"

#ifndef TL
#define TL 65            /* tree_len (real: pm2 65/17; lh_new 1020, 578, 62, 126) */
#endif
#ifndef NC
#define NC 31            /* number of code lengths */
#endif
#define MAXLEAF (NC - 1)

static int t_ok(const TreeElement *t)
{
	unsigned i;
	for (i = 0; i < TL; ++i) {
		if (t[i] & TREE_NODE_LEAF) { if ((unsigned) (t[i] & ~TREE_NODE_LEAF) > MAXLEAF) return 0; }
		else if (!(t[i] > i && (unsigned) t[i] + 1u < TL)) return 0;
	}
	return 1;
}

void harness_expand(void)
{
	INPUT_ARRAY(u16, tin, TL);
	INPUT(u32, next); INPUT(u32, alloc);
	static TreeElement tree[TL];
	TreeBuildData b;
	unsigned i;
	for (i = 0; i < TL; ++i) tree[i] = (TreeElement) tin[i];
	ASSUME(t_ok(tree));
	ASSUME(next <= alloc && alloc <= TL);
	b.tree = tree; b.tree_len = TL; b.next_entry = next; b.tree_allocated = alloc;
	expand_queue(&b);
	CHECK(b.next_entry <= b.tree_allocated && b.tree_allocated <= TL, "B re-established");
	CHECK(t_ok(tree), "T re-established");
	if (alloc - next == TL / 4 && b.tree_allocated > alloc) WITNESS("a real expansion");
	WITNESS("end");
}

void harness_add(void)
{
	INPUT_ARRAY(u16, tin, TL);
	INPUT_ARRAY(u8, lens, NC);
	INPUT(u32, next); INPUT(u32, alloc); INPUT(u32, n); INPUT(u32, code_len);
	static TreeElement tree[TL];
	TreeBuildData b;
	unsigned i;
	int more;
	for (i = 0; i < TL; ++i) tree[i] = (TreeElement) tin[i];
	ASSUME(t_ok(tree));
	ASSUME(next <= alloc && alloc <= TL && n <= NC && alloc >= 1);
	b.tree = tree; b.tree_len = TL; b.next_entry = next; b.tree_allocated = alloc;
	more = add_codes_with_length(&b, lens, n, code_len);
	CHECK(b.next_entry <= b.tree_allocated && b.tree_allocated <= TL, "B re-established");
	CHECK(t_ok(tree), "T re-established (leaves carry a symbol index < number of codes)");
	if (code_len >= 255) CHECK(!more, "no code is longer than 255: the build loop ends by then");
	if (next + 2 < alloc && b.next_entry == alloc) WITNESS("queue used up");
	WITNESS("end");
}

void harness_walk(void)
{
	INPUT_ARRAY(u16, tin, TL);
	static TreeElement tree[TL];
	BitStreamReader r;
	unsigned i;
	int v;
	for (i = 0; i < TL; ++i) tree[i] = (TreeElement) tin[i];
	ASSUME(t_ok(tree));
	v = read_from_tree(&r, tree);
	CHECK(v >= -1 && v <= (int) MAXLEAF, "walk yields a leaf value within the leaf bound, or failure");
	/* consumed bits = steps taken; forward pointers bound them by the tree length (unwinding assertion) */
	CHECK(bits_consumed < TL, "fewer than tree_len bits are consumed by one walk (pointers are forward)");
	init_tree(tree, TL);
	CHECK(t_ok(tree), "init_tree establishes T");
	set_tree_single(tree, (TreeElement) MAXLEAF);
	CHECK(t_ok(tree), "set_tree_single keeps T");
	WITNESS("end");
}
