/* C11: collapse_path leaves no empty, "." or ".." component (after one optional leading '/'). */
#include "verif.h"
#include "ctype_model.h"
#include "lib/lha_file_header.c"

#ifndef N
#define N 8
#endif

/* independent statement of the invariant on a NUL-terminated string */
static int path_is_clean(const char *p)
{
	unsigned i = 0, start;
	if (p[0] == '/') i = 1;
	start = i;
	for (; p[i] != '\0'; ++i) {
		if (p[i] == '/') {
			unsigned len = i - start;
			if (len == 0) return 0;
			if (len == 1 && p[start] == '.') return 0;
			if (len == 2 && p[start] == '.' && p[start + 1] == '.') return 0;
			start = i + 1;
		}
	}
	return 1;
}

void harness(void)
{
	INPUT_ARRAY(u8, in, N + 1);
	char s[N + 2];
	unsigned i, n_in, n_out;
	ASSUME(in[N] == 0);
	for (i = 0; i <= N; ++i) s[i] = (char) in[i];
	s[N + 1] = 0x55;                   /* canary: no write beyond the string */
	for (n_in = 0; s[n_in] != '\0'; ++n_in) ;
	collapse_path(s);
	for (n_out = 0; n_out <= N && s[n_out] != '\0'; ++n_out) ;
	CHECK(n_out <= n_in, "output is NUL-terminated and not longer than the input");
	CHECK(s[N + 1] == 0x55, "no write beyond the input string");
	CHECK(path_is_clean(s), "no empty, '.' or '..' component after an optional leading '/'");
	/* a path that is already clean is left unchanged (so real names survive) */
	{
		char t[N + 1];
		unsigned same = 1;
		for (i = 0; i <= N; ++i) t[i] = (char) in[i];
		if (path_is_clean(t)) {
			for (i = 0; i <= N; ++i) {
				if (i <= n_in && t[i] != s[i]) same = 0;
			}
			CHECK(same, "a clean path is returned unchanged");
		}
	}
	if (n_in == N && n_out < n_in) WITNESS("full-length input that was shortened");
}
