/* Environment for header-parser harnesses (lib/lha_file_header.c + lib/ext_header.c included as source):
 *  - the header object lives in typed static storage; extend_raw_data is replaced by an in-place stub
 *    (the moving realloc is covered by its own harness), driver option rename_defs;
 *  - the input stream is a symbolic byte array of symbolic length (lha_input_stream_read: all-or-nothing);
 *  - mktime records its argument and returns an arbitrary value; ctype is the ASCII model;
 *  - memcpy is a byte loop. */
#ifndef HDR_ENV_H
#define HDR_ENV_H
#include "verif.h"
#include "ctype_model.h"
#include "ref_crc16.h"
#include <stdlib.h>
#include <string.h>
#include <time.h>
#include "libc_models.h"
#define memcpy verif_memcpy
/* Symbolic-size heap objects make CBMC's byte-level encoding explode (measured: > 12 GB for a 3-byte name);
 * functional harnesses therefore serve string allocations as fixed-size objects after asserting that the request
 * fits.  Exact-size objects (out-of-bounds detection) are used by the *.safe variants (-DEXACT_MALLOC). */
#ifndef EXACT_MALLOC
#ifndef STROBJ
#define STROBJ 264
#endif
/* -DALLOC_MAY_FAIL: every string allocation may fail (returns NULL), as malloc/strdup may */
#ifdef ALLOC_MAY_FAIL
SEQ_DECL(u8, allocfail);
#endif
static unsigned alloc_failed;
static void *verif_malloc(size_t n)
{
	void *p;
#ifdef ALLOC_MAY_FAIL
	if (SEQ_NEXT(u8, allocfail) & 1) { ++alloc_failed; return NULL; }
#endif
	CHECK(n <= STROBJ, "string allocation fits the modelled object size");
	p = malloc(STROBJ);
	ASSUME(p != NULL);
	return p;
}
static char *verif_strdup(const char *s)
{
	size_t n = strlen(s), i;
	char *r = verif_malloc(n + 1);
	if (r == NULL) return NULL;
	for (i = 0; i <= n; ++i) r[i] = s[i];
	return r;
}
#define malloc verif_malloc
#define strdup verif_strdup
#endif

#ifndef S_MAX
#define S_MAX 40              /* bytes in the stream model */
#endif
#ifndef RAW_MAX
#define RAW_MAX (S_MAX + 8)
#endif

static u8 st_data[S_MAX];
static unsigned st_len, st_pos;
struct _LHAInputStream { int dummy; };
static struct _LHAInputStream the_stream;
int lha_input_stream_read(struct _LHAInputStream *stream, void *buf, size_t buf_len)
{
	unsigned i;
	(void) stream;
	if (buf_len > st_len - st_pos) { st_pos = st_len; return 0; }     /* short: fails, data consumed */
	for (i = 0; i < buf_len; ++i) ((u8 *) buf)[i] = st_data[st_pos + i];
	st_pos += (unsigned) buf_len;
	return 1;
}

static struct tm mk_arg;
static unsigned mk_calls;
static u32 mk_result;
time_t verif_mktime(struct tm *tm) { mk_arg = *tm; ++mk_calls; return (time_t) mk_result; }
#define mktime verif_mktime

#include "lib/lha_file_header.c"
#include "lib/ext_header.c"

/* the header block: typed, in place */
static struct { LHAFileHeader h; uint8_t raw[RAW_MAX]; } slot;
static unsigned ext_calls;
/* RAW_END_ALIGNED (safety variants): the raw header lives in its own object and is placed so that the byte after
 * the header's declared last byte is the byte after the object - a read past the header's own bytes (which in
 * the real block is a read past the heap allocation) is then an out-of-bounds access the solver sees. */
#ifdef RAW_END_ALIGNED
static uint8_t rawobj[RAW_MAX];
static unsigned raw_cap = RAW_MAX;
#else
#define raw_cap RAW_MAX
#endif

#ifdef STUB_EXTEND
static uint8_t *extend_raw_data(LHAFileHeader **header, LHAInputStream *stream, size_t nbytes)
{
	uint8_t *result;
	++ext_calls;
	if (nbytes > LEVEL_3_MAX_HEADER_LEN) return NULL;                 /* same refusal as the real one */
	CHECK(*header == &slot.h, "header object is the typed slot");
	if (nbytes > st_len - st_pos) { st_pos = st_len; return NULL; }    /* stream cannot satisfy the read */
	CHECK((*header)->raw_data_len + nbytes <= raw_cap, "slot large enough for the stream model");
	result = (*header)->raw_data + (*header)->raw_data_len;
	if (!lha_input_stream_read(stream, result, nbytes)) return NULL;
	(*header)->raw_data_len += nbytes;
	return result;
}
#endif

/* what lha_file_header_read does before dispatching on the level */
static LHAFileHeader *begin_header(void)
{
	memset(&slot.h, 0, sizeof(LHAFileHeader));
	slot.h._refcount = 1;
	slot.h.raw_data = slot.raw;
#ifdef RAW_END_ALIGNED
	{	/* total length a level-0/1 header declares for itself: first byte + 2 (at least the common 22 bytes) */
		unsigned total = st_len > st_pos ? st_data[st_pos] + 2u : 0;
		if (total < COMMON_HEADER_LEN) total = COMMON_HEADER_LEN;
		if (total > RAW_MAX) total = RAW_MAX;
		raw_cap = total;
		slot.h.raw_data = rawobj + (RAW_MAX - total);
	}
#endif
	slot.h.raw_data_len = COMMON_HEADER_LEN;
	if (!lha_input_stream_read(&the_stream, slot.h.raw_data, COMMON_HEADER_LEN)) return NULL;
	slot.h.header_level = slot.h.raw_data[20];
	return &slot.h;
}
#endif
