/* extend_raw_data with a genuinely MOVING realloc (CBMC's model frees the old block): the only place where the
 * header object changes address while the parser holds pointers into it.
 *   C08: no access through the stale block, the new bytes are written inside the new block (object of exactly
 *        sizeof(header) + old + nbytes), for arbitrary nbytes; after failure the header handed back is still a
 *        valid object that lha_file_header_free can release;
 *   C13: a request above 1 MiB is refused before any allocation; the block grows by exactly nbytes;
 *   C05: old raw bytes are preserved, the new ones are the stream's next bytes. */
#include "verif.h"
#include <stdlib.h>
#include <string.h>
#include <time.h>
#include "ctype_model.h"
#include "libc_models.h"
#define memcpy verif_memcpy
#include "lib/lha_file_header.c"

#ifndef L0
#define L0 6             /* raw bytes before the call */
#endif
#ifndef NB
#define NB 6             /* bytes the stream can supply */
#endif
static u8 st_bytes[NB];
static unsigned st_avail, st_reads;
static const void *last_buf;
int lha_input_stream_read(LHAInputStream *s, void *buf, size_t n)
{
	unsigned i;
	(void) s; ++st_reads; last_buf = buf;
	if (n > st_avail) return 0;
	for (i = 0; i < NB; ++i) if (i < n) ((u8 *) buf)[i] = st_bytes[i];       /* CBMC checks these writes against the block */
	return 1;
}
int lha_ext_header_decode(LHAFileHeader *h, uint8_t n, uint8_t *d, size_t l) { (void) h; (void) n; (void) d; (void) l; return 0; }
void lha_crc16_buf(uint16_t *c, uint8_t *b, size_t l) { (void) c; (void) b; (void) l; }
uint16_t lha_decode_uint16(uint8_t *b) { (void) b; return 0; }
uint32_t lha_decode_uint32(uint8_t *b) { (void) b; return 0; }

void harness(void)
{
	INPUT_ARRAY(u8, old, L0); INPUT_ARRAY(u8, fresh, NB);
	INPUT(u32, len0); INPUT(u32, avail); INPUT(usz, nbytes);
	LHAFileHeader *h, *h_before;
	uint8_t *res;
	unsigned i;
	ASSUME(len0 <= L0 && avail <= NB);
	h = malloc(sizeof(LHAFileHeader) + len0);
	ASSUME(h != NULL);
	memset(h, 0, sizeof(LHAFileHeader));
	h->_refcount = 1;
	h->raw_data = (uint8_t *) (h + 1);
	h->raw_data_len = len0;
	for (i = 0; i < L0; ++i) if (i < len0) h->raw_data[i] = old[i];
	for (i = 0; i < NB; ++i) st_bytes[i] = fresh[i];
	st_avail = avail;
	h_before = h;

	res = extend_raw_data(&h, (LHAInputStream *) 0, nbytes);

	if (nbytes > 1024 * 1024) {
		CHECK(res == NULL && h == h_before && st_reads == 0, "C13: a request above 1 MiB is refused before any allocation or read");
	}
	if (res != NULL) {
		CHECK(nbytes <= avail, "C12: success only if the stream had all the bytes");
		CHECK(h->raw_data == (uint8_t *) (h + 1), "raw data pointer re-based onto the (possibly moved) block");
		CHECK(h->raw_data_len == len0 + nbytes && res == h->raw_data + len0, "C13: the block grew by exactly nbytes; result points at the new area");
		for (i = 0; i < L0; ++i) if (i < len0) CHECK(h->raw_data[i] == old[i], "C05: old raw bytes preserved across the move");
		for (i = 0; i < NB; ++i) if (i < nbytes) CHECK(res[i] == fresh[i], "C05: new raw bytes are the stream's next bytes");
		CHECK(__CPROVER_OBJECT_SIZE(h) == sizeof(LHAFileHeader) + len0 + nbytes, "C13: allocation is exactly header + raw bytes");
		if (nbytes == NB && len0 == L0) WITNESS("grown by the full stream");
	} else {
		/* failure: the header handed back must still be releasable */
		CHECK(h != NULL && h->_refcount == 1 && h->raw_data_len == len0, "after failure the header is intact (old length)");
		if (st_reads == 1) WITNESS("read failed after the block was moved");
	}
	lha_file_header_free(h);
	WITNESS("end");
}
