/* Extended-header walk: decode_extended_headers on an ARBITRARY raw header of arbitrary length (object of
 * exactly that size), arbitrary start offset satisfying the callers' precondition (the first size field lies
 * inside the header), levels 1/2 (16-bit sizes) and 3 (32-bit sizes).  lha_ext_header_decode is replaced by a
 * recording stub (the decoders have their own harnesses, hdr/ext.c), so this decides the chain logic alone:
 *   C05: exactly the chain's headers are decoded, in order, each with its own type byte and data bytes;
 *   C12: success <=> every size field is 0 (end) or >= size-field+1 and inside the header;
 *   C08: (safety mode) no read outside the raw header, whatever the size fields say;
 *   C13: the walk ends after at most (raw length / 3) headers. */
#include "verif.h"
#include <stdlib.h>
#include <string.h>
#include <time.h>
#include "ctype_model.h"
#include "libc_models.h"
#define memcpy verif_memcpy
#include "lib/lha_file_header.c"

#ifndef RL
#define RL 20            /* maximum raw header length */
#endif
#define MAXH (RL / 3 + 1)

static struct { u8 type; const u8 *data; size_t len; } calls[MAXH];
static unsigned ncalls;
static const u8 *raw_base;
static size_t raw_size;

int lha_ext_header_decode(LHAFileHeader *header, uint8_t num, uint8_t *data, size_t data_len)
{
	(void) header;
	CHECK(data >= raw_base && data_len <= raw_size && (size_t) (data - raw_base) <= raw_size - data_len,
	      "extended header data handed to a decoder lies inside the raw header");
	if (ncalls < MAXH) { calls[ncalls].type = num; calls[ncalls].data = data; calls[ncalls].len = data_len; }
	++ncalls;
	return 1;
}
/* unused entry points of the included file */
int lha_input_stream_read(LHAInputStream *stream, void *buf, size_t buf_len) { (void) stream; (void) buf; (void) buf_len; return 0; }
void lha_crc16_buf(uint16_t *crc, uint8_t *buf, size_t buf_len) { (void) crc; (void) buf; (void) buf_len; }

void harness(void)
{
	INPUT_ARRAY(u8, bytes, RL);
	INPUT(u32, raw_len); INPUT(u32, offset); INPUT(u8, level);
	static LHAFileHeader h;
	LHAFileHeader *hp = &h;
	u8 *raw;
	unsigned i, fs, off, nref = 0, ok_ref = 1, done = 0;
	int r;
	ASSUME(level >= 1 && level <= 3);
	fs = level == 3 ? 4 : 2;
	ASSUME(raw_len <= RL && offset <= raw_len && raw_len - offset >= fs);      /* callers' precondition */
	raw = malloc(raw_len);
	ASSUME(raw != NULL);
	for (i = 0; i < RL; ++i) if (i < raw_len) raw[i] = bytes[i];
	raw_base = raw; raw_size = raw_len;
	memset(&h, 0, sizeof(h));
	h.header_level = level; h.raw_data = raw; h.raw_data_len = raw_len;

	r = decode_extended_headers(&hp, offset);

	/* reference walk over the input bytes (format definition: a size field, then type byte, data, next size) */
	off = offset;
	for (i = 0; i < MAXH && !done; ++i) {
		u32 size = fs == 4 ? (bytes[off] | (bytes[off + 1] << 8) | ((u32) bytes[off + 2] << 16) | ((u32) bytes[off + 3] << 24))
		                   : (u32) (bytes[off] | (bytes[off + 1] << 8));
		if (size == 0) { done = 1; }
		else if (size < fs + 1 || size > raw_len - off - fs) { ok_ref = 0; done = 1; }
		else {
			if (nref < ncalls && nref < MAXH) {
				CHECK(calls[nref].type == bytes[off + fs], "C05: type byte of the n-th extended header");
				CHECK(calls[nref].data == raw + off + fs + 1 && calls[nref].len == size - fs - 1, "C05: data bytes of the n-th extended header");
			}
			++nref;
			off += size;
		}
	}
	CHECK(done, "C13: the chain ends within raw_len/3 headers (each header is at least 3 bytes)");
	CHECK((r != 0) == (ok_ref != 0), "C05/C12: the walk succeeds exactly when every size field is 0 or within [size field + 1, rest of header]");
	CHECK(ncalls == nref, "C05: exactly the headers of the chain are decoded, once each, in order");
	if (r && nref == 2 && level == 3) WITNESS("two level-3 extended headers");
	if (r && nref == 3 && level == 2) WITNESS("three level-2 extended headers");
	if (!r && nref == 1) WITNESS("second size field out of range");
	free(raw);
	WITNESS("end");
}
