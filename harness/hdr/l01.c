/* Level 0/1 base header: decode_level0_header on arbitrary bytes.
 * C12: success implies the header's own integrity data holds (length >= level minimum, all bytes were
 *      available, byte sum == checksum, name fits inside the header).
 * C05: on success the fields equal the encoded ones (method, sizes, CRC, DOS time handed to mktime, OS type,
 *      name with '\\' -> '/', split at the last separator, level-0 Unix/OS-9 areas).
 * C08: (safety mode) no invalid access for any bytes. */
#define STUB_EXTEND
#include "hdr_env.h"

#ifdef SYM_BYTES
#define NAME_LOOP (PLEN_MAX + 1)      /* name length is bounded by PLEN_MAX in the long-header variants */
#else
#define NAME_LOOP S_MAX
#endif
static unsigned le16(const u8 *p) { return p[0] | (p[1] << 8); }
static u32 le32(const u8 *p) { return p[0] | (p[1] << 8) | ((u32) p[2] << 16) | ((u32) p[3] << 24); }

void harness(void)
{
	INPUT_ARRAY(u8, data, S_MAX);
	INPUT(u32, slen);
	INPUT(u32, mkres);
	LHAFileHeader *h;
	int ok;
	unsigned i, hl, level, minlen, plen, sum = 0;
	ASSUME(slen <= S_MAX);
#ifdef SYM_BYTES
	/* long-header variant: only the first SYM_BYTES bytes are arbitrary, the filler behind them is zero; the length
	 * byte is large (HL_MIN..255) and the name short - what is exercised is the arithmetic on the length fields */
	for (i = SYM_BYTES; i < S_MAX; ++i) data[i] = 0;
	ASSUME(data[0] >= HL_MIN && data[21] <= PLEN_MAX);
#ifdef HL_FIX
	data[0] = HL_FIX;   /* concrete length byte (one variant per value): the copy and checksum loops fold */
#endif
#endif
	for (i = 0; i < S_MAX; ++i) st_data[i] = data[i];
	st_len = slen;
	mk_result = mkres;
	h = begin_header();
	if (h == NULL) { CHECK(slen < 22, "first 22 bytes unavailable"); return; }
	level = data[20];
	ASSUME(level <= 1);
	ok = decode_level0_header(&h, &the_stream);
	hl = data[0]; plen = data[21];
	minlen = level == 0 ? 22 : 25;
	if (ok) {
		CHECK(hl >= minlen, "C12: header length >= minimum for the level");
		CHECK(hl + 2 <= slen, "C12: every header byte was actually present in the input");
		for (i = 0; i < S_MAX; ++i) if (i >= 2 && i < hl + 2) sum += data[i];
		CHECK((sum & 0xff) == data[1], "C12: byte sum equals the checksum byte");
		CHECK(minlen + plen <= hl, "C12: name length fits inside the header");
		CHECK(st_pos == hl + 2, "C05: member data is found immediately after the header");
		CHECK(h->raw_data_len == hl + 2, "C05/C12: the raw header is exactly the header's own bytes");
		for (i = 0; i < S_MAX; ++i) if (i < hl + 2) CHECK(h->raw_data[i] == data[i], "C05/C12: the raw header copy (over which a common CRC is later computed) is the input bytes, unmodified");
		/* fields */
		CHECK(h->compress_method[0] == (char) data[2] && h->compress_method[1] == (char) data[3] && h->compress_method[2] == (char) data[4]
		      && h->compress_method[3] == (char) data[5] && h->compress_method[4] == (char) data[6] && h->compress_method[5] == 0, "C05: method field");
		CHECK(h->compressed_length == le32(data + 7) && h->length == le32(data + 11), "C05: packed and original size");
		CHECK(h->crc == le16(data + 22 + plen), "C05: CRC field follows the name");
		if (level == 1) CHECK(h->os_type == data[24 + plen], "C05: level-1 OS type");
		{
			u32 raw = le32(data + 15);
			if (raw == 0) CHECK(h->timestamp == 0 || (level == 0 && hl > 22 + plen), "C05: zero DOS time means no timestamp");
			else if (!(level == 0 && hl > 22 + plen)) {
				CHECK(mk_calls == 1 && h->timestamp == mkres, "C05: timestamp is mktime of the DOS date/time");
				CHECK(mk_arg.tm_sec == (int) ((raw & 0x1f) * 2) && mk_arg.tm_min == (int) ((raw >> 5) & 0x3f) && mk_arg.tm_hour == (int) ((raw >> 11) & 0x1f)
				      && mk_arg.tm_mday == (int) ((raw >> 16) & 0x1f) && mk_arg.tm_mon == (int) ((raw >> 21) & 0xf) - 1
				      && mk_arg.tm_year == (int) ((raw >> 25) & 0x7f) + 80 && mk_arg.tm_isdst == -1, "C05: DOS date/time fields handed to mktime");
			}
		}
		/* name: bytes up to the first NUL, '\\' -> '/', split after the last '/' */
		{
			unsigned n = 0, last = 0, has = 0, j;
			for (j = 0; j < NAME_LOOP; ++j) if (j < plen && n == j && data[22 + j] != 0) n = j + 1;
			for (j = 0; j < NAME_LOOP; ++j) if (j < n && (data[22 + j] == '\\' || data[22 + j] == '/')) { last = j + 1; has = 1; }
			if (plen == 0) CHECK(h->filename == NULL && h->path == NULL, "C05: empty name leaves name and path unset");
			else {
				CHECK(h->filename != NULL, "C05: name present");
				if (has) CHECK(h->path != NULL, "C05: path present when the name contains a separator");
				else CHECK(h->path == NULL, "C05: no path without a separator");
				if (h->filename != NULL && (!has || h->path != NULL)) {
					for (j = 0; j < NAME_LOOP; ++j) {
						if (j < last) { u8 e = data[22 + j] == '\\' ? '/' : data[22 + j]; CHECK((u8) h->path[j] == e, "C05: path bytes with '\\\\' normalised to '/'"); }
						else if (j < n) CHECK((u8) h->filename[j - last] == data[22 + j], "C05: file name bytes");
					}
					CHECK(h->filename[n - last] == 0, "C05: name terminated");
					if (has) CHECK(h->path[last] == 0, "C05: path terminated after the last separator");
				}
				if (h->filename != NULL) {
					unsigned end = 0;
					for (j = 0; j < NAME_LOOP; ++j) if (!end) { if (h->filename[j] == 0) end = 1; else CHECK(h->filename[j] != '/', "C11: file name contains no '/'"); }
				}
			}
		}
		/* level-0 extended areas */
		if (level == 0 && hl > 22 + plen && !(data[2] == '-' && data[3] == 'p' && data[4] == 'm')) {
			unsigned al = hl - 22 - plen;
			const u8 *a = data + 24 + plen;
			if ((a[0] == 'U' || a[0] == 'K') && al >= 12 && a[1] == 0) {
				CHECK(h->os_type == a[0] && h->timestamp == le32(a + 2) && h->unix_perms == le16(a + al - 6)
				      && h->unix_uid == le16(a + al - 4) && h->unix_gid == le16(a + al - 2)
				      && (h->extra_flags & (LHA_FILE_UNIX_PERMS | LHA_FILE_UNIX_UID_GID)) == (LHA_FILE_UNIX_PERMS | LHA_FILE_UNIX_UID_GID),
				      "C05: level-0 Unix extended area (type, time, perms, uid, gid)");
			} else if (a[0] == '9' && al >= 22 && a[9] == 0xcc && a[1] == a[17] && a[2] == a[18]) {
				CHECK(h->os_type == LHA_OS_TYPE_OS9 && h->os9_perms == le16(a + 1) && (h->extra_flags & LHA_FILE_OS9_PERMS), "C05: level-0 OS-9 extended area");
			} else {
				CHECK(h->os_type == LHA_OS_TYPE_UNKNOWN && h->extra_flags == 0, "C05: unrecognised level-0 extended area is ignored");
			}
		}
#ifndef SYM_BYTES
		if (level == 1 && plen == 3 && hl == 28) WITNESS("level 1, 3-byte name");
		if (level == 0 && plen == 0 && hl == 34) WITNESS("level 0 with Unix area");
#else
		if (hl == 255) WITNESS("length byte 255 accepted");
		if (hl == 254 && level == 1) WITNESS("length byte 254, level 1");
#endif
	} else {
		/* completeness direction for well-formed input: a header that satisfies all rules is accepted */
		unsigned good = hl >= minlen && hl + 2 <= slen && minlen + plen <= hl;
		for (i = 0; i < S_MAX; ++i) if (i >= 2 && i < hl + 2) sum += data[i];
		if (good && (sum & 0xff) == data[1] && !alloc_failed) CHECK(0, "C05: a level-0/1 base header that satisfies its integrity rules is accepted");
	}
#ifdef ALLOC_MAY_FAIL
	if (!ok && alloc_failed) WITNESS("refused because an allocation failed");
#endif
	WITNESS("end");
}
