/* Post-processing of lha_file_header_read: the four level decoders are replaced by one stub that installs
 * ARBITRARY decoded fields (method, OS type, level, flags, permission words, name / path strings of arbitrary
 * bytes or absent, raw header bytes, common CRC) - everything the real level decoders could leave behind
 * (their own behaviour: hdr/l01.c, l23.c, l1ext.c, walk.c, ext.c).  The real tail then runs.
 *   C11: the returned name has no '/', every '/'-terminated path component is a real name;
 *   C12: nothing is returned when decoding failed, when a file has no name / a directory no path, when a
 *        symbolic link entry has no '|', or when the common CRC does not match the raw header;
 *   C05: DOS-like all-caps folding, -lh7- -> -lk7- for LHARK level 1, OS-9 -> Unix permission mapping,
 *        Amiga -lh0- directory fix, symlink 'name|target' split. */
#include "verif.h"
#include "ctype_model.h"
#include "ref_crc16.h"
#include <stdlib.h>
#include <string.h>
#include <time.h>
#include "libc_models.h"

#ifndef NS
#define NS 3              /* maximum length of the name and of the path string */
#endif
#ifndef RAWN
#define RAWN 4            /* raw header bytes covered by the common CRC */
#endif

/* typed storage for the header object (calloc/free of the block itself are served from here) */
#include "lib/public/lha_file_header.h"
static struct { LHAFileHeader h; uint8_t raw[32]; } slot;
static unsigned slot_live, slot_freed;
void *verif_calloc(size_t n, size_t sz) { (void) n; (void) sz; slot_live = 1; memset(&slot, 0, sizeof(slot)); return &slot.h; }
static int live_strings;             /* ghost: string allocations outstanding */
void verif_free(void *p) { if (p == (void *) &slot.h) { ++slot_freed; slot_live = 0; } else { if (p != NULL) --live_strings; free(p); } }
int verif_sprintf2(char *out, const char *fmt, const char *a, const char *b)
{
	unsigned i = 0, k;
	CHECK(fmt[0] == '%' && fmt[1] == 's' && fmt[2] == '%' && fmt[3] == 's' && fmt[4] == 0, "sprintf model: format is %s%s");
	for (k = 0; a[k]; ++k) out[i++] = a[k];
	for (k = 0; b[k]; ++k) out[i++] = b[k];
	out[i] = 0;
	return (int) i;
}
#define STROBJ (2 * NS + 3)
/* string allocations are served as fixed-size objects (sizes asserted to fit): symbolic-size heap objects make
 * CBMC's byte-level encoding explode; exact-size objects are used by the safety harnesses of the units instead */
void *verif_malloc(size_t n)
{
	void *p;
	CHECK(n <= STROBJ, "string allocation fits the modelled object size");
	p = malloc(STROBJ);
	ASSUME(p != NULL);
	++live_strings;
	return p;
}
char *verif_strdup(const char *s)
{
	size_t n = strlen(s);
	char *r = verif_malloc(n + 1);
	unsigned i;
	if (r == NULL) return NULL;
	for (i = 0; i <= n; ++i) r[i] = s[i];
	return r;
}
#define calloc verif_calloc
#define malloc verif_malloc
#define sprintf verif_sprintf2
#define strdup verif_strdup
#define memcpy verif_memcpy
#define free verif_free
#include "lib/lha_file_header.c"
#undef free
#undef calloc
#undef malloc

static u8 in_level_byte;
int lha_input_stream_read(LHAInputStream *stream, void *buf, size_t buf_len) { (void) stream; memset(buf, 0, buf_len); if (buf_len > 20) ((u8 *) buf)[20] = in_level_byte; return 1; }
int lha_ext_header_decode(LHAFileHeader *header, uint8_t num, uint8_t *data, size_t data_len) { (void) header; (void) num; (void) data; (void) data_len; return 0; }

/* what the stub installs */
static u8 in_name[NS + 1], in_path[NS + 1], in_method[5], in_raw[RAWN];
static u8 in_have_name, in_have_path, in_os, in_level, in_ok;
static u32 in_flags, in_perms, in_os9, in_length;
static u16 in_ccrc;

static char *mkstr(const u8 *s)
{
	char *r = malloc(STROBJ);
	unsigned i;
	ASSUME(r != NULL);
	++live_strings;
	for (i = 0; i <= NS; ++i) r[i] = (char) s[i];
	return r;
}
static int install(LHAFileHeader **header)
{
	LHAFileHeader *h = *header;
	unsigned i;
	if (!(in_ok & 1)) return 0;
	for (i = 0; i < 5; ++i) h->compress_method[i] = (char) in_method[i];
	h->compress_method[5] = 0;
	h->os_type = in_os; h->extra_flags = in_flags; h->unix_perms = in_perms; h->os9_perms = in_os9; h->length = in_length;
	h->common_crc = in_ccrc;
	h->filename = (in_have_name & 1) ? mkstr(in_name) : NULL;
	h->path = (in_have_path & 1) ? mkstr(in_path) : NULL;
	for (i = 0; i < RAWN; ++i) h->raw_data[i] = in_raw[i];
	h->raw_data_len = RAWN;
	return 1;
}
static int decode_level0_header(LHAFileHeader **header, LHAInputStream *stream) { (void) stream; return install(header); }
static int decode_level1_header(LHAFileHeader **header, LHAInputStream *stream) { (void) stream; return install(header); }
static int decode_level2_header(LHAFileHeader **header, LHAInputStream *stream) { (void) stream; return install(header); }
static int decode_level3_header(LHAFileHeader **header, LHAInputStream *stream) { (void) stream; return install(header); }

static int lower(int c) { return (c >= 'A' && c <= 'Z') ? c + 32 : c; }
static int clean_path(const char *p)   /* C11 path invariant */
{
	unsigned i = 0, start;
	if (p[0] == '/') i = 1;
	start = i;
	for (; p[i] != 0; ++i) {
		if (p[i] == '/') {
			unsigned len = i - start;
			if (len == 0) return 0;
			if (len == 1 && p[start] == '.') return 0;
			if (len == 2 && p[start] == '.' && p[start + 1] == '.') return 0;
			start = i + 1;
		}
	}
	return 1;
}

void harness(void)
{
	INPUT_ARRAY(u8, nm, NS + 1); INPUT_ARRAY(u8, path, NS + 1); INPUT_ARRAY(u8, method, 5); INPUT_ARRAY(u8, raw, RAWN);
	INPUT(u8, have_name); INPUT(u8, have_path); INPUT(u8, os); INPUT(u8, level); INPUT(u8, ok);
	INPUT(u32, flags); INPUT(u32, perms); INPUT(u32, os9); INPUT(u32, length); INPUT(u16, ccrc);
	LHAFileHeader *h;
	unsigned i, nlen = 0, plen = 0, is_dir, is_link, doslike, haslower = 0;
	static struct _LHAInputStream { int d; } st;
	ASSUME(nm[NS] == 0 && path[NS] == 0);
	for (i = 0; i <= NS; ++i) { in_name[i] = nm[i]; in_path[i] = path[i]; }
	for (i = 0; i < 5; ++i) { ASSUME(method[i] != 0); in_method[i] = method[i]; }
	for (i = 0; i < RAWN; ++i) in_raw[i] = raw[i];
	in_have_name = have_name; in_have_path = have_path; in_os = os; in_level = level; in_ok = ok;
	in_flags = flags; in_perms = perms; in_os9 = os9; in_length = length; in_ccrc = ccrc;
	while (nlen < NS && nm[nlen]) ++nlen;
	while (plen < NS && path[plen]) ++plen;
	/* what the level decoders guarantee about the name (hdr/l01.c, hdr/ext.c): no '/' in it */
	for (i = 0; i < NS; ++i) ASSUME(nm[i] != '/');
	in_level_byte = level;                 /* any level byte: levels above 3 must be rejected */

	h = lha_file_header_read((LHAInputStream *) &st);

	is_dir = method[0] == '-' && method[1] == 'l' && method[2] == 'h' && method[3] == 'd' && method[4] == '-';
	if (os == 'A' && method[0] == '-' && method[1] == 'l' && method[2] == 'h' && method[3] == '0' && method[4] == '-'
	    && length == 0 && !(have_name & 1)) is_dir = 1;   /* Amiga directories stored as -lh0- */
	is_link = is_dir && (flags & LHA_FILE_UNIX_PERMS) && ((have_name & 1) || (have_path & 1)) && (perms & 0170000) == 0120000;
	doslike = os == 0 || os == 'M' || os == 'a' || os == ' ' || os == '2';
	for (i = 0; i < NS; ++i) {
		if ((have_name & 1) && i < nlen && nm[i] >= 'a' && nm[i] <= 'z') haslower = 1;
		if ((have_path & 1) && i < plen && path[i] >= 'a' && path[i] <= 'z') haslower = 1;
	}
	if (h == NULL) {
		CHECK(slot_freed == 1 && !slot_live, "C20: a rejected header's block is released exactly once");
		CHECK(live_strings == 0, "C20: a rejected header leaves no string allocation behind (names, link target, temporary joined path)");
		/* completeness: everything in order => returned */
		if (level <= 3 && (ok & 1) && !(flags & LHA_FILE_COMMON_CRC) && !is_link && (is_dir ? (have_path & 1) : (have_name & 1)))
			CHECK(0, "C05: a decoded header with the entry's mandatory name/path and no common CRC is returned");
	} else {
		CHECK(ok & 1, "C12: nothing is returned when the level decoder failed");
		CHECK(level <= 3, "C12: a header with a level above 3 is never returned");
		CHECK(h == &slot.h && slot_live, "returned header is the allocated block");
		if (!is_dir) CHECK(h->filename != NULL, "C12: a file entry without a name is not returned");
		else if (!is_link) CHECK(h->path != NULL, "C12: a directory entry without a path is not returned");
		if (flags & LHA_FILE_COMMON_CRC) {
			u16 c = 0;
			for (i = 0; i < RAWN; ++i) c = ref_crc16_step(c, raw[i]);
			CHECK(c == ccrc, "C12: a header whose common CRC does not match its bytes is not returned");
		}
		if (h->filename != NULL) for (i = 0; i < 2 * NS + 1 && h->filename[i]; ++i) CHECK(h->filename[i] != '/', "C11: returned name contains no '/'");
		if (h->path != NULL) CHECK(clean_path(h->path), "C11: every '/'-terminated component of the returned path is a real name");
		/* method rewriting */
		if (h->header_level == 1 && os == ' ' && method[0] == '-' && method[1] == 'l' && method[2] == 'h' && method[3] == '7' && method[4] == '-')
			CHECK(h->compress_method[2] == 'k', "C05: LHARK's -lh7- reported as -lk7-");
		else if (os == 'A' && is_dir && method[3] == '0')
			CHECK(strcmp(h->compress_method, "-lhd-") == 0, "C05: Amiga -lh0- directory reported as -lhd-");
		else for (i = 0; i < 5; ++i) CHECK((u8) h->compress_method[i] == method[i], "C05: method field unchanged otherwise");
		/* permissions */
		{
			u32 src9 = os9;
			unsigned have9 = (flags & LHA_FILE_OS9_PERMS) != 0;
			if (os == 'K' && (flags & LHA_FILE_UNIX_PERMS)) { src9 = perms; have9 = 1; }
			if (have9) {
				u32 e = (((src9 >> 7) & 1) << 14) | ((src9 & 1) << 8) | (((src9 >> 1) & 1) << 7) | (((src9 >> 2) & 1) << 6)
				      | (((src9 >> 3) & 1) << 5) | (((src9 >> 4) & 1) << 4) | (((src9 >> 5) & 1) << 3)
				      | (((src9 >> 3) & 1) << 2) | (((src9 >> 4) & 1) << 1) | ((src9 >> 5) & 1);
				CHECK(h->unix_perms == e && (h->extra_flags & LHA_FILE_UNIX_PERMS) && (h->extra_flags & LHA_FILE_OS9_PERMS) && h->os9_perms == src9,
				      "C05: OS-9 permission word mapped to Unix permission bits (public bits doubled for group/other, directory bit)");
			} else CHECK(h->unix_perms == perms, "C05: Unix permissions unchanged without OS-9 data");
		}
		/* names */
		if (!is_link) {
			CHECK(h->symlink_target == NULL, "C05: no link target for entries that are not symbolic links");
			if (have_name & 1) {
				CHECK(h->filename != NULL, "C05: name kept");
				if (h->filename != NULL) {
					for (i = 0; i < NS; ++i) if (i < nlen) CHECK((u8) h->filename[i] == ((doslike && !haslower) ? (u8) lower(nm[i]) : nm[i]),
						"C05: name bytes; lower-cased exactly when from a DOS-like system and no lower-case letter in path or name");
					CHECK(h->filename[nlen] == 0, "C05: name length");
				}
			} else CHECK(h->filename == NULL, "C05: absent name stays absent");
			if ((have_path & 1) && clean_path((const char *) path)) {
				CHECK(h->path != NULL, "C05: path kept");
				if (h->path != NULL) {
					for (i = 0; i < NS; ++i) if (i < plen) CHECK((u8) h->path[i] == ((doslike && !haslower) ? (u8) lower(path[i]) : path[i]), "C05: clean path bytes unchanged (up to case folding)");
					CHECK(h->path[plen] == 0, "C05: path length");
				}
			}
			if (!(have_path & 1)) CHECK(h->path == NULL, "C05: absent path stays absent");
		} else {
			/* symbolic link: path+name = link|target */
			u8 full[2 * NS + 1];
			unsigned fl = 0, bar = 2 * NS + 1, k;
			if (have_path & 1) for (k = 0; k < plen; ++k) full[fl++] = path[k];
			if (have_name & 1) for (k = 0; k < nlen; ++k) full[fl++] = nm[k];
			full[fl] = 0;
			for (k = 2 * NS; k-- > 0;) if (k < fl && full[k] == '|') bar = k;
			CHECK(bar < fl, "C12: a symbolic-link entry without '|' is not returned");
			if (bar < fl) {
				CHECK(h->symlink_target != NULL, "C05: link target present");
				if (h->symlink_target != NULL) {
					for (k = 0; k < 2 * NS; ++k) if (bar + 1 + k < fl) CHECK((u8) h->symlink_target[k] == full[bar + 1 + k], "C05: link target is the text after the first '|'");
					CHECK(h->symlink_target[fl - bar - 1] == 0, "C05: link target length");
				}
				CHECK(h->filename != NULL, "C05: link name present");
			}
		}
		if (is_link && (have_path & 1) && plen == NS && path[1] == '|') WITNESS("symlink whose '|' sits in the path part");
		if (!is_dir && doslike && !haslower && nlen == NS && nm[0] == 'A') WITNESS("all-caps DOS name folded");
		if ((flags & LHA_FILE_COMMON_CRC)) WITNESS("common CRC matched");
		if (is_dir && !is_link && plen >= 2 && path[0] == '.' && path[plen - 1] == '/' && !clean_path((const char *) path)) WITNESS("directory path with a dot component collapsed");
		if (os == 'K' && (flags & LHA_FILE_UNIX_PERMS)) WITNESS("OS-9/68k permissions");
	}
	if (h != NULL) {
		lha_file_header_free(h);
		CHECK(slot_freed == 1 && live_strings == 0, "C20: releasing a returned header releases its block and every string it owns");
	}
	WITNESS("end");
}
