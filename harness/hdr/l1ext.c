/* Level-1 extended-header chain: read_l1_extended_headers on the state decode_level0_header leaves
 * (raw header of arbitrary length >= 27 whose last two bytes are the first size field, arbitrary packed size),
 * over an arbitrary remaining stream.
 * C05: on success the raw header has grown by exactly the chained headers' bytes, the packed size has been
 *      reduced by their total, and the stream stands right after the last one (member data follows);
 * C12: success implies every header was completely present, each size is 0 (end) or >= 3, and the total does not
 *      exceed the recorded packed size;  C13: every iteration consumes >= 3 bytes of real input. */
#define STUB_EXTEND
#include "hdr_env.h"

#ifndef BASE
#define BASE 6             /* bytes of base header modelled (only the last two matter) */
#endif

void harness(void)
{
	INPUT_ARRAY(u8, base, BASE);
	INPUT_ARRAY(u8, data, S_MAX);
	INPUT(u32, slen); INPUT(u32, clen);
	LHAFileHeader *h = &slot.h;
	unsigned i, off, total = 0, ok_ref = 1, done = 0, n = 0;
	u32 size;
	int ok;
	ASSUME(slen <= S_MAX);
	for (i = 0; i < S_MAX; ++i) st_data[i] = data[i];
	st_len = slen; st_pos = 0;
	memset(&slot.h, 0, sizeof(LHAFileHeader));
	slot.h._refcount = 1; slot.h.raw_data = slot.raw; slot.h.raw_data_len = BASE; slot.h.header_level = 1;
	slot.h.compressed_length = clen;
	for (i = 0; i < BASE; ++i) slot.raw[i] = base[i];

	ok = read_l1_extended_headers(&h, &the_stream);

	/* reference: chain of [size][type, data.., next size] read from the stream */
	size = base[BASE - 2] | (base[BASE - 1] << 8);
	off = 0;
	for (i = 0; i < S_MAX / 3 + 2 && !done; ++i) {
		if (size == 0) done = 1;
		else if (size > slen - off) { ok_ref = 0; done = 1; }          /* not all bytes present */
		else if (size > clen - total) { ok_ref = 0; done = 1; }        /* more than the recorded packed size */
		else if (size < 3) { ok_ref = 0; done = 1; }
		else {
			off += size; total += size; ++n;
			size = data[off - 2] | (data[off - 1] << 8);
		}
	}
	CHECK(done, "C13: the chain ends within len/3 headers");
	CHECK((ok != 0) == (ok_ref != 0), "C05/C12: accepted exactly when every chained header is complete, >= 3 bytes and within the packed size");
	if (ok) {
		CHECK(h->raw_data_len == BASE + total && st_pos == total, "C05: raw header grown by the chained headers; member data follows immediately");
		CHECK(h->compressed_length == clen - total, "C05: extended-header bytes subtracted from the packed size");
		for (i = 0; i < S_MAX; ++i) if (i < total) CHECK(h->raw_data[BASE + i] == data[i], "raw header bytes are the input bytes");
		CHECK(ext_calls == n, "one read per chained header");
	}
	if (ok && n == 3) WITNESS("three chained headers");
	if (!ok && n == 1 && size == 2) WITNESS("second header shorter than 3 bytes");
	WITNESS("end");
}
