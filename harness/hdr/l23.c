/* Level 2 and level 3 base headers: decode_level2_header / decode_level3_header on arbitrary bytes.
 * The extended-header walk is replaced by a stub that records its arguments (verified by hdr/walk.c).
 * C12: success implies the length field is >= the level's fixed size, <= 1 MiB (level 3), word size 4 (level 3),
 *      and every byte of the declared header was present in the input.
 * C05: fields equal the encoded ones; the walk starts at offset 24 / 28 over exactly the declared header;
 *      member data follows immediately (stream position == header length; OS-9/68k level 2: + 2).
 * C08 (safety mode): no invalid access. */
#define STUB_EXTEND
#include "hdr_env.h"

static unsigned walk_calls, walk_offset, walk_rawlen;
static u8 walk_result;
static int decode_extended_headers(LHAFileHeader **header, unsigned int offset)
{
	++walk_calls; walk_offset = offset; walk_rawlen = (unsigned) (*header)->raw_data_len;
	CHECK(offset + ((*header)->header_level == 3 ? 4u : 2u) <= (*header)->raw_data_len, "walk precondition: first size field inside the header");
	return walk_result & 1;
}

static unsigned le16(const u8 *p) { return p[0] | (p[1] << 8); }
static u32 le32(const u8 *p) { return p[0] | (p[1] << 8) | ((u32) p[2] << 16) | ((u32) p[3] << 24); }

void harness(void)
{
	INPUT_ARRAY(u8, data, S_MAX);
	INPUT(u32, slen); INPUT(u8, wres);
	LHAFileHeader *h;
	int ok;
	unsigned i, level;
	u32 hl, total;
	ASSUME(slen <= S_MAX);
	for (i = 0; i < S_MAX; ++i) st_data[i] = data[i];
	st_len = slen;
	walk_result = wres;
	h = begin_header();
	if (h == NULL) { CHECK(slen < 22, "first 22 bytes unavailable"); return; }
	level = data[20];
#ifdef LEVEL3
	ASSUME(level == 3);
	ok = decode_level3_header(&h, &the_stream);
	hl = le32(data + 24); total = hl;
	if (ok) {
		CHECK(le16(data) == 4, "C12: level-3 word size field is 4");
		CHECK(hl >= 32 && hl <= 1024 * 1024, "C12: level-3 header length within [32, 1 MiB]");
	}
#else
	ASSUME(level == 2);
	ok = decode_level2_header(&h, &the_stream);
	hl = le16(data); total = hl + (data[23] == 'K' ? 2 : 0);
	if (ok) CHECK(hl >= 26, "C12: level-2 header length >= 26");
#endif
	if (ok) {
		CHECK(total <= slen, "C12: every byte of the declared header was present in the input");
		CHECK(st_pos == total, "C05: member data is found immediately after the header");
		CHECK(h->raw_data_len == total, "raw header covers exactly the declared header");
		for (i = 0; i < S_MAX; ++i) if (i < total) CHECK(h->raw_data[i] == data[i], "raw header bytes are the input bytes");
		CHECK(h->compress_method[0] == (char) data[2] && h->compress_method[1] == (char) data[3] && h->compress_method[2] == (char) data[4]
		      && h->compress_method[3] == (char) data[5] && h->compress_method[4] == (char) data[6] && h->compress_method[5] == 0, "C05: method field");
		CHECK(h->compressed_length == le32(data + 7) && h->length == le32(data + 11), "C05: packed and original size");
		CHECK(h->timestamp == le32(data + 15), "C05: Unix timestamp");
		CHECK(h->crc == le16(data + 21) && h->os_type == data[23], "C05: CRC and OS type");
		CHECK(mk_calls == 0, "C05: level 2/3 timestamps are not passed through mktime");
		CHECK(walk_calls == 1 && walk_rawlen == total && (wres & 1), "C05/C12: extended headers walked once over the complete header, and the walk succeeded");
#ifdef LEVEL3
		CHECK(walk_offset == 28, "C05: level-3 extended headers start at offset 28");
		if (hl == 40) WITNESS("level 3, 40-byte header");
#else
		CHECK(walk_offset == 24, "C05: level-2 extended headers start at offset 24");
		if (hl == 30 && data[23] == 'K') WITNESS("level 2 from OS-9/68k (two extra bytes)");
		if (hl == 34 && data[23] == 'U') WITNESS("level 2, 34-byte header");
#endif
	} else {
		/* completeness for well-formed input */
#ifdef LEVEL3
		unsigned good = le16(data) == 4 && hl >= 32 && hl <= slen;
#else
		unsigned good = hl >= 26 && total <= slen;
#endif
		if (good && (wres & 1)) CHECK(0, "C05: a base header satisfying its length rules whose extended headers are well-formed is accepted");
	}
	WITNESS("end");
}
