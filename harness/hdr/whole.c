/* Whole-parser glue check (Plan A of DESIGN 4.5, made feasible by fixed-size string objects): the real
 * lha_file_header_read - level dispatch, level decoders, extended-header chain/walk, all ten decoders, tail - on
 * an arbitrary input of up to S_MAX bytes with a fixed level byte (one harness per level).  Only the block
 * allocation (typed slot, in-place growth) and the environment (stream, mktime, ctype) are modelled.
 * Asserted on whatever is returned:
 *   C11: name without '/', clean path;   C12: level 0/1 byte sum matches, lengths inside the input, common CRC
 *   matches when present, file has a name / directory a path;   C05: member data follows the header, base
 *   fields at their offsets;   and NULL is returned for every input shorter than the level's minimum. */
#define STUB_EXTEND
#include <stdlib.h>
#include <string.h>
/* lha_file_header_read allocates the block with calloc and releases it with free: both are served from the typed slot */
void *verif_calloc_slot(size_t n, size_t sz);
void verif_free_slot(void *p);
#define calloc verif_calloc_slot
#define free verif_free_slot
#include "hdr_env.h"
#undef calloc
#undef free
void *verif_calloc_slot(size_t n, size_t sz) { (void) n; (void) sz; memset(&slot, 0, sizeof(slot)); return &slot.h; }
void verif_free_slot(void *p) { if (p != (void *) &slot.h) free(p); }

#ifndef LEVEL
#define LEVEL 0
#endif
static unsigned le16(const u8 *p) { return p[0] | (p[1] << 8); }
static u32 le32(const u8 *p) { return p[0] | (p[1] << 8) | ((u32) p[2] << 16) | ((u32) p[3] << 24); }
static int clean_path(const char *p)
{
	unsigned i = 0, start;
	if (p[0] == '/') i = 1;
	start = i;
	for (; p[i] != 0; ++i) {
		if (p[i] == '/') {
			unsigned len = i - start;
			if (len == 0) return 0;
			if (len == 1 && p[start] == '.') return 0;
			if (len == 2 && p[start] == '.' && p[start + 1] == '.') return 0;
			start = i + 1;
		}
	}
	return 1;
}

void harness(void)
{
	INPUT_ARRAY(u8, data, S_MAX);
	INPUT(u32, slen); INPUT(u32, mkres);
	LHAFileHeader *h;
	unsigned i;
	ASSUME(slen <= S_MAX);
	ASSUME(data[20] == LEVEL);
	for (i = 0; i < S_MAX; ++i) st_data[i] = data[i];
	st_len = slen; mk_result = mkres;

	h = lha_file_header_read(&the_stream);

	if (h != NULL) {
		unsigned is_dir = strcmp(h->compress_method, "-lhd-") == 0;
		CHECK(slen >= 24, "C12: nothing is returned for an input shorter than the smallest header");
		CHECK(h->header_level == LEVEL, "level as encoded");
		CHECK(st_pos <= slen && h->raw_data_len == st_pos, "C05/C12: the header consumed exactly its own bytes, all of which were present; member data follows");
		if (h->filename != NULL) for (i = 0; i < S_MAX && h->filename[i]; ++i) CHECK(h->filename[i] != '/', "C11: returned name contains no '/'");
		if (h->path != NULL) CHECK(clean_path(h->path), "C11: every '/'-terminated component of the returned path is a real name");
		if (!is_dir) CHECK(h->filename != NULL, "C12: a file entry has a name");
		else if (h->symlink_target == NULL) CHECK(h->path != NULL, "C12: a directory entry has a path");
#if LEVEL <= 1
		{
			unsigned sum = 0, hl = data[0];
			for (i = 2; i < S_MAX; ++i) if (i < hl + 2) sum += data[i];
			CHECK((sum & 0xff) == data[1], "C12: level-0/1 byte sum equals the checksum byte");
			CHECK(hl + 2 <= slen && hl >= (LEVEL == 0 ? 22u : 25u), "C12: level-0/1 length field within [minimum, input]");
			CHECK(h->length == le32(data + 11), "C05: original size");
#if LEVEL == 0
			CHECK(st_pos == hl + 2u && h->compressed_length == le32(data + 7), "C05: level-0 header ends at length+2; packed size as encoded");
#else
			CHECK(st_pos >= hl + 2u && h->compressed_length == le32(data + 7) - (st_pos - hl - 2u), "C05: level-1 packed size reduced by the extended-header bytes");
#endif
		}
#elif LEVEL == 2
		CHECK(le16(data) >= 26 && st_pos == le16(data) + (data[23] == 'K' ? 2u : 0u), "C12/C05: level-2 length field; data follows");
		CHECK(h->compressed_length == le32(data + 7) && h->length == le32(data + 11) && h->timestamp == le32(data + 15) || (h->extra_flags & 0) , "C05: level-2 sizes");
		CHECK(h->crc == le16(data + 21) && h->os_type == data[23], "C05: level-2 CRC and OS type");
#else
		CHECK(le16(data) == 4 && le32(data + 24) == st_pos && st_pos >= 32, "C12/C05: level-3 word size and length field; data follows");
		CHECK(h->crc == le16(data + 21) && h->os_type == data[23] && h->length == le32(data + 11), "C05: level-3 CRC, OS type, size");
#endif
		if (h->extra_flags & LHA_FILE_COMMON_CRC) {
			/* the CRC field was zeroed in the raw copy by the decoder; recompute over the raw copy */
			u16 c = 0;
			for (i = 0; i < S_MAX; ++i) if (i < h->raw_data_len) c = ref_crc16_step(c, h->raw_data[i]);
			CHECK(c == h->common_crc, "C12: common CRC matches the header bytes (CRC field taken as zero)");
		}
		if (h->path != NULL && h->filename != NULL) WITNESS("returned with path and name");
		if (h->extra_flags & LHA_FILE_COMMON_CRC) WITNESS("returned with a matching common CRC");
	}
	WITNESS("end");
}
