/* Extended-header decoders: lha_ext_header_decode(header, type, data, data_len) for an ARBITRARY type byte,
 * arbitrary data of arbitrary length 0..DL held in an object of exactly data_len bytes (so that any read past
 * the extended header's own data is an out-of-bounds access for CBMC), starting from a header that may already
 * carry name/path/user/group strings (duplicated extended headers).
 * C05: the fields equal the encoded ones, for every supported type; unknown types and too-short headers leave
 *      the header untouched.
 * C11: the file name extended header never yields a '/'.
 * C08 (safety mode): no invalid access.   C20 (leak mode): replaced strings are released. */
#include "verif.h"
#include <stdlib.h>
#include <string.h>
#include "libc_models.h"
#define memcpy verif_memcpy
#include "lib/ext_header.c"

#ifndef DL
#define DL 26
#endif

static u32 le16(const u8 *p) { return p[0] | (p[1] << 8); }
static u32 le32(const u8 *p) { return p[0] | (p[1] << 8) | ((u32) p[2] << 16) | ((u32) p[3] << 24); }
static u64 le64(const u8 *p) { return (u64) le32(p) | ((u64) le32(p + 4) << 32); }

static char *dup_old(u8 have, u8 c)
{
	char *s;
	if (!(have & 1)) return NULL;
	s = malloc(2);
	ASSUME(s != NULL);
	s[0] = (char) c; s[1] = 0;
	return s;
}

void harness(void)
{
	INPUT_ARRAY(u8, bytes, DL);
	INPUT(u32, data_len); INPUT(u8, num_in);
	INPUT(u8, old_name); INPUT(u8, old_path); INPUT(u8, old_user); INPUT(u8, old_group); INPUT(u8, oldc);
	INPUT(u32, old_flags); INPUT(u32, old_ts); INPUT(u32, old_perms);
	static LHAFileHeader h, before;
	u8 *data;
	unsigned i, n;
	int r, known;
#ifdef NUMSEL
	u8 num = NUMSEL;          /* one harness per supported type ... */
#else
	u8 num = num_in;          /* ... and one for all other type bytes */
	ASSUME(num != 0x00 && num != 0x01 && num != 0x02 && num != 0x41 && num != 0x50 && num != 0x51 && num != 0x52 && num != 0x53 && num != 0x54 && num != 0xcc);
#endif
	size_t minlen = 0;
	ASSUME(data_len <= DL);
	data = malloc(data_len);
	ASSUME(data != NULL);
	for (i = 0; i < DL; ++i) if (i < data_len) data[i] = bytes[i];
	memset(&h, 0, sizeof(h));
	h._refcount = 1;
	h.filename = dup_old(old_name, oldc); h.path = dup_old(old_path, oldc);
	h.unix_username = dup_old(old_user, oldc); h.unix_group = dup_old(old_group, oldc);
	h.extra_flags = old_flags; h.timestamp = old_ts; h.unix_perms = old_perms;
	before = h;

	r = lha_ext_header_decode(&h, num, data, data_len);

	known = 1;
	switch (num) {
	case 0x00: minlen = 2; break;
	case 0x01: minlen = 1; break;
	case 0x02: minlen = 1; break;
	case 0x41: minlen = 24; break;
	case 0x50: minlen = 2; break;
	case 0x51: minlen = 4; break;
	case 0x52: minlen = 1; break;
	case 0x53: minlen = 1; break;
	case 0x54: minlen = 4; break;
	case 0xcc: minlen = 12; break;
	default: known = 0; break;
	}
	if (!known || data_len < minlen) {
		CHECK(r == 0, "unknown type or data shorter than the type's minimum is rejected");
		CHECK(verif_memcmp(&h, &before, sizeof(h)) == 0, "a rejected extended header leaves the file header untouched");
		for (i = 0; i < DL; ++i) if (i < data_len) CHECK(data[i] == bytes[i], "a rejected extended header leaves the raw bytes untouched");
	} else {
		CHECK(r != 0, "a supported extended header of sufficient length is decoded");
		/* length of the C string in the data */
		n = data_len;
		for (i = DL; i > 0; --i) if (i - 1 < data_len && bytes[i - 1] == 0) n = i - 1;
		switch (num) {
		case 0x00:
			CHECK((h.extra_flags & LHA_FILE_COMMON_CRC) && h.common_crc == le16(bytes), "0x00: common CRC value and flag");
			CHECK(data[0] == 0 && data[1] == 0, "0x00: CRC field zeroed in the raw header for the later CRC check");
			for (i = 2; i < DL; ++i) if (i < data_len) CHECK(data[i] == bytes[i], "0x00: other raw bytes unchanged");
			break;
		case 0x01:
			CHECK(h.filename != NULL && h.filename != before.filename, "0x01: new name installed");
			for (i = 0; i < DL; ++i) if (i < n) CHECK((u8) h.filename[i] == (bytes[i] == '/' ? '_' : bytes[i]), "0x01: name bytes, '/' replaced");
			CHECK(h.filename[n] == 0, "0x01: name terminated");
			for (i = 0; i < DL; ++i) if (i < n) CHECK(h.filename[i] != '/', "C11: no '/' in a name from the file-name header");
			CHECK(h.path == before.path, "0x01: path untouched");
			break;
		case 0x02: {
			CHECK(h.path != NULL && h.path != before.path, "0x02: new path installed");
			for (i = 0; i < DL; ++i) if (i < n) CHECK((u8) h.path[i] == (bytes[i] == 0xff ? '/' : bytes[i]), "0x02: path bytes, 0xFF separators become '/'");
			if (n == data_len) {
				if (bytes[data_len - 1] == 0xff) CHECK(h.path[n] == 0, "0x02: terminated path kept as is");
				else CHECK(h.path[n] == '/' && h.path[n + 1] == 0, "0x02: missing final separator added");
			} else CHECK(h.path[n] == 0, "0x02: path ends at an embedded NUL");
			CHECK(h.filename == before.filename, "0x02: name untouched");
			break;
		}
		case 0x41:
			CHECK((h.extra_flags & LHA_FILE_WINDOWS_TIMESTAMPS) && h.win_creation_time == le64(bytes)
			      && h.win_modification_time == le64(bytes + 8) && h.win_access_time == le64(bytes + 16), "0x41: three Windows FILETIMEs");
			break;
		case 0x50:
			CHECK((h.extra_flags & LHA_FILE_UNIX_PERMS) && h.unix_perms == le16(bytes), "0x50: Unix permissions");
			break;
		case 0x51:
			CHECK((h.extra_flags & LHA_FILE_UNIX_UID_GID) && h.unix_gid == le16(bytes) && h.unix_uid == le16(bytes + 2), "0x51: gid then uid");
			break;
		case 0x52:
			CHECK(h.unix_group != NULL && h.unix_group != before.unix_group, "0x52: group installed");
			for (i = 0; i < DL; ++i) if (i < n) CHECK((u8) h.unix_group[i] == bytes[i], "0x52: group bytes");
			CHECK(h.unix_group[n] == 0 && h.unix_username == before.unix_username, "0x52: terminated; user untouched");
			break;
		case 0x53:
			CHECK(h.unix_username != NULL && h.unix_username != before.unix_username, "0x53: user installed");
			for (i = 0; i < DL; ++i) if (i < n) CHECK((u8) h.unix_username[i] == bytes[i], "0x53: user bytes");
			CHECK(h.unix_username[n] == 0 && h.unix_group == before.unix_group, "0x53: terminated; group untouched");
			break;
		case 0x54:
			CHECK(h.timestamp == le32(bytes), "0x54: Unix timestamp");
			break;
		case 0xcc:
			CHECK((h.extra_flags & LHA_FILE_OS9_PERMS) && h.os9_perms == le16(bytes + 7), "0xCC: OS-9 permission word");
			break;
		}
		/* frame: fields the type does not own are unchanged */
		if (num != 0x54) CHECK(h.timestamp == old_ts, "frame: timestamp only set by 0x54");
		if (num != 0x50) CHECK(h.unix_perms == old_perms, "frame: permissions only set by 0x50");
		CHECK((h.extra_flags & old_flags) == old_flags, "frame: flags are only added");
		CHECK(h.length == 0 && h.compressed_length == 0 && h.crc == 0 && h.os_type == 0 && h.header_level == 0, "frame: base fields untouched");
	}
#ifdef NUMSEL
	if (r && data_len == DL) WITNESS("decoded at the largest modelled length");
	if (!r && data_len + 1 == minlen) WITNESS("rejected: one byte short of the type's minimum");
#else
	if (!r && data_len == DL) WITNESS("unknown type rejected");
#endif
	free(data);
	/* what lha_file_header_free releases; with --memory-leak-check a string dropped by a decoder is a leak */
	free(h.filename); free(h.path); free(h.symlink_target); free(h.unix_username); free(h.unix_group);
	WITNESS("end");
}
