/* C03: -lz5-.  Decomposed along the code's own functions:
 *  harness_kernel : output_block/output_byte (the copy kernel) from an arbitrary ring, write position and
 *                   output fill, for any start position and length <= 18, against the ring semantics;
 *  harness_run    : lha_lz5_read's command loop (flag byte, LSB first; literal = 1 byte; copy = lo,hi with
 *                   position = lo | (hi & 0xf0) << 4, length = (hi & 0x0f) + 3; stream may end inside the run)
 *                   with the kernel replaced by recording stubs;
 *  harness_init   : the LArc initial dictionary. */
#ifndef CB_N
#define CB_N 17
#endif
#define CB_CALLS 1
#include "stream_cb.h"
#ifdef LHASA_VERIF_RING_BUFFER_SIZE
#define RING LHASA_VERIF_RING_BUFFER_SIZE      /* scaled window (hook in lib/lz5_decoder.c): same ring arithmetic, everything symbolic */
#else
#define RING 4096
#endif

#ifdef RUN_HARNESS
/* recording stubs for the kernel (the real definitions are renamed real_* by the driver) */
typedef struct { unsigned is_copy, a, b, at; } Rec;
static Rec rec[8];
static unsigned nrec;
#include "lib/lz5_decoder.c"
static void output_byte(LHALZ5Decoder *decoder, uint8_t *buf, size_t *buf_len, uint8_t b)
{
	(void) decoder; (void) buf;
	if (nrec < 8) { rec[nrec].is_copy = 0; rec[nrec].a = b; rec[nrec].at = (unsigned) *buf_len; }
	++nrec;
	*buf_len += 1;
}
static void output_block(LHALZ5Decoder *decoder, uint8_t *buf, size_t *buf_len, unsigned int start, unsigned int len)
{
	(void) decoder; (void) buf;
	if (nrec < 8) { rec[nrec].is_copy = 1; rec[nrec].a = start; rec[nrec].b = len; rec[nrec].at = (unsigned) *buf_len; }
	++nrec;
	*buf_len += len;
}
#else
#include "lib/lz5_decoder.c"
#endif

static LHALZ5Decoder dec;

#ifdef RUN_HARNESS
void harness_run(void)
{
	INPUT_ARRAY(u8, data, CB_N);
	INPUT(u32, slen);
	unsigned i, c, in = 1, total = 0, cmds = 0;
	u8 out[OUTPUT_BUFFER_SIZE];
	size_t n;
	ASSUME(slen <= CB_N);
	for (i = 0; i < CB_N; ++i) cb_data[i] = data[i];
	cb_len = slen;
	dec.callback = cb_read;
	dec.callback_data = 0;
	n = lha_lz5_read(&dec, out);
	if (slen == 0) {
		CHECK(n == 0 && nrec == 0, "empty input yields nothing");
	} else {
		for (c = 0; c < 8; ++c) {
			if ((data[0] >> c) & 1) {
				if (in + 1 > slen) break;
				CHECK(nrec > cmds && !rec[cmds].is_copy && rec[cmds].a == data[in] && rec[cmds].at == total,
				      "flag bit 1: literal byte appended at the current output offset");
				total += 1; in += 1;
			} else {
				unsigned p, len;
				if (in + 2 > slen) {
					/* a stream that ends between the two bytes of a copy command is malformed: outside C03 */
					ASSUME(in + 1 > slen);
					break;
				}
				p = data[in] | ((unsigned) (data[in + 1] & 0xf0) << 4);
				len = (data[in + 1] & 0x0f) + 3;
				CHECK(nrec > cmds && rec[cmds].is_copy && rec[cmds].a == p && rec[cmds].b == len && rec[cmds].at == total,
				      "flag bit 0: copy(position, length 3..18) appended at the current output offset");
				total += len; in += 2;
			}
			++cmds;
		}
		CHECK(nrec == cmds, "exactly the commands present in the stream are executed, in order");
		CHECK(n == total, "run yields the sum of its command lengths (stops at end of data)");
		if (cmds == 8 && total > 100) WITNESS("full run of 8 commands");
	}
	WITNESS("one run decoded");
}
#else
void harness_kernel(void)
{
	INPUT(u32, pos0);
	INPUT(u32, start);
	INPUT(u32, len);
	INPUT(u32, fill);
	INPUT(u32, idx);
	INPUT(u32, probe);
	u8 out[OUTPUT_BUFFER_SIZE];
	LHALZ5Decoder d0;
	size_t n;
	ASSUME(pos0 < RING && probe < RING && start < RING && len >= 3 && len <= 18 && idx < 18);
	ASSUME(fill <= OUTPUT_BUFFER_SIZE - 19);     /* the copy (<= 18) and the literal behind it fit */
	dec = d0;
	dec.ringbuf_pos = pos0;
	n = fill;
	output_block(&dec, out, &n, start, len);
	CHECK(n == fill + len, "copy appends exactly len bytes to the output");
	if (idx < len) {
		unsigned s = (start + idx) % RING;
		unsigned d = (s + RING - pos0) % RING;           /* already overwritten by byte d of this copy? */
		u8 expect = d < idx ? out[fill + d] : d0.ringbuf[s];
		CHECK(out[fill + idx] == expect, "copy byte equals ring content at its absolute position (self-overlap allowed)");
	}
	CHECK(dec.ringbuf_pos == (pos0 + len) % RING, "write position advances modulo 4 KiB");
	{
		unsigned e = (probe + RING - pos0) % RING;
		CHECK(dec.ringbuf[probe] == (e < len ? out[fill + e] : d0.ringbuf[probe]), "ring after copy = old ring overwritten by the output");
	}
	/* literal */
	{
		INPUT(u8, lit);
		unsigned p1 = dec.ringbuf_pos;
		size_t n1 = n;
		output_byte(&dec, out, &n, lit);
		CHECK(n == n1 + 1 && out[n1] == lit && dec.ringbuf[p1] == lit && dec.ringbuf_pos == (p1 + 1) % RING, "literal appended to output and ring");
	}
	if (len == 18 && (start + 2) % RING == pos0 && pos0 > RING - 9) WITNESS("maximal self-overlapping copy across the seam");
	WITNESS("kernel");
}

/* the same kernel against the SEQUENTIAL definition of an LZ77 copy (byte i is the ring content at start+i at the moment
 * it is copied, and is appended to ring and output before byte i+1 is looked at); used on the scaled window, where
 * seam crossing and self-overlap combine in every way and the closed form above becomes SAT-hard */
void harness_kernel_seq(void)
{
	INPUT(u32, pos0);
	INPUT(u32, start);
	INPUT(u32, len);
	INPUT(u32, fill);
	u8 out[OUTPUT_BUFFER_SIZE];
	u8 r[RING];
	LHALZ5Decoder d0;
	size_t n;
	unsigned i, rp;
	ASSUME(pos0 < RING && start < RING && len >= 3 && len <= 18);
	ASSUME(fill <= OUTPUT_BUFFER_SIZE - 18);
#ifdef KPOS
	pos0 = KPOS; fill = 0;     /* concrete write position per variant: every WRITE then has a concrete index, reads stay symbolic */
#endif
	dec = d0;
	dec.ringbuf_pos = pos0;
	for (i = 0; i < RING; ++i) r[i] = d0.ringbuf[i];
	rp = pos0;
	n = fill;
	output_block(&dec, out, &n, start, len);
	CHECK(n == fill + len, "copy appends exactly len bytes to the output");
	for (i = 0; i < 18; ++i) if (i < len) {
		u8 b = r[(start + i) % RING];
		CHECK(out[fill + i] == b, "copy byte i is the window content at start+i when it is copied (sequential LZ77 semantics)");
		r[rp] = b; rp = (rp + 1) % RING;
	}
	CHECK(dec.ringbuf_pos == rp, "write position advances modulo the window size");
	for (i = 0; i < RING; ++i) CHECK(dec.ringbuf[i] == r[i], "window after the copy = window with the copied bytes appended");
	if (len == 18 && start > RING - 9 && pos0 < 9 && (start + 18) % RING > pos0) WITNESS("source crosses the seam and runs into the bytes being written");
	if (len == 18 && (start + 2) % RING == pos0 && pos0 > RING - 9) WITNESS("maximal self-overlapping copy across the seam");
	WITNESS("kernel");
}

/* init state: the LArc fill pattern, write position 4096-18 */
void harness_init(void)
{
	INPUT(u32, j);
	u8 e;
	ASSUME(j < RING);
	CHECK(lha_lz5_init(&dec, cb_read, 0) == 1, "init succeeds");
	if (j < 256 * 13) e = (u8) (j / 13);
	else if (j < 256 * 13 + 256) e = (u8) (j - 256 * 13);
	else if (j < 256 * 13 + 512) e = (u8) (255 - (j - (256 * 13 + 256)));
	else if (j < 256 * 13 + 512 + 128) e = 0;
	else if (j < 256 * 13 + 512 + 128 + 110) e = ' ';
	else e = 0;
	CHECK(dec.ringbuf[j] == e, "initial ring equals the LArc fill pattern");
	CHECK(dec.ringbuf_pos == RING - 18, "initial write position 4096-18");
	CHECK(dec.callback == cb_read, "callback stored");
	CHECK(lha_lz5_decoder.max_read >= 18 * 8 && lha_lz5_decoder.extra_size == sizeof(LHALZ5Decoder)
	      && lha_lz5_decoder.read == lha_lz5_read && lha_lz5_decoder.init == lha_lz5_init, "decoder type parameters");
	WITNESS("init");
}
#endif
