/* C03: -lzs- : one command from an arbitrary ring content, write position and bit alignment,
 * against the format definition (flag 1: 8-bit literal; flag 0: 11-bit absolute position, 4-bit length+2). */
#define CB_N 4
#define CB_CALLS 4
#include "stream_cb.h"
#include "lib/lzs_decoder.c"

static LHALZSDecoder dec;

void harness(void)
{
	INPUT_ARRAY(u8, data, CB_N);
	INPUT_ARRAY(u8, shorts, CB_CALLS);
	INPUT(u32, pos0);
	INPUT(u32, skip);
	INPUT(u32, idx);
	INPUT(u32, probe);
	unsigned i, bitpos;
	u8 out[OUTPUT_BUFFER_SIZE];
	LHALZSDecoder d0;                     /* arbitrary initial ring (uninitialised = nondet) */
	size_t n;

	ASSUME(pos0 < 2048 && probe < 2048 && skip < 8 && idx < 17);
	for (i = 0; i < CB_N; ++i) cb_data[i] = data[i];
	for (i = 0; i < CB_CALLS; ++i) cb_short[i] = shorts[i];
	cb_len = CB_N;
	dec = d0;
	bit_stream_reader_init(&dec.bit_stream_reader, cb_read, 0);
	dec.ringbuf_pos = pos0;
	if (skip != 0) {
		read_bits(&dec.bit_stream_reader, skip);   /* arbitrary alignment, leftover bits in the buffer */
	}
	bitpos = skip;

	n = lha_lzs_read(&dec, out);

	if (ref_bits(bitpos, 1)) {
		u8 b = (u8) ref_bits(bitpos + 1, 8);
		CHECK(n == 1, "literal command yields one byte");
		CHECK(out[0] == b, "literal byte value");
		CHECK(dec.ringbuf_pos == (pos0 + 1) % 2048, "write position advances by one modulo 2 KiB");
		CHECK(dec.ringbuf[probe] == (probe == pos0 ? b : d0.ringbuf[probe]), "ring after literal");
	} else {
		unsigned p = ref_bits(bitpos + 1, 11);
		unsigned len = ref_bits(bitpos + 12, 4) + 2;
		CHECK(n == len, "copy command yields length+2 bytes (2..17)");
		if (idx < len) {
			/* byte idx comes from absolute ring position p+idx; if that position was already
			 * overwritten by byte d of this very copy (self-overlap), it is that byte */
			unsigned s = (p + idx) % 2048;
			unsigned d = (s + 2048 - pos0) % 2048;
			u8 expect = d < idx ? out[d] : d0.ringbuf[s];
			CHECK(out[idx] == expect, "copy byte equals ring content at its absolute position (self-overlap allowed)");
		}
		CHECK(dec.ringbuf_pos == (pos0 + len) % 2048, "write position advances by the copy length modulo 2 KiB");
		{
			unsigned e = (probe + 2048 - pos0) % 2048;
			CHECK(dec.ringbuf[probe] == (e < len ? out[e] : d0.ringbuf[probe]), "ring after copy = old ring overwritten by the output");
		}
		if (len == 17 && (p + 3) % 2048 == pos0) WITNESS("maximal self-overlapping copy");
	}
	WITNESS("one command decoded");
}

/* the copy kernel against the SEQUENTIAL definition of an LZ77 copy, on the scaled window (hook in lib/lzs_decoder.c),
 * concrete write position per variant (KPOS): seam crossing x self-overlap in every combination, default array encoding */
#ifdef KPOS
#define RINGS LHASA_VERIF_RING_BUFFER_SIZE
void harness_kernel_seq(void)
{
	INPUT(u32, start);
	INPUT(u32, len);
	u8 out[OUTPUT_BUFFER_SIZE];
	u8 r[RINGS];
	LHALZSDecoder d0;
	size_t n = 0;
	unsigned i, rp = KPOS;
	ASSUME(start < 2048 && len >= 2 && len <= 17);
	dec = d0;
	dec.ringbuf_pos = KPOS;
	for (i = 0; i < RINGS; ++i) r[i] = d0.ringbuf[i];
	output_block(&dec, out, &n, start, len);
	CHECK(n == len, "copy appends exactly len bytes to the output");
	for (i = 0; i < 17; ++i) if (i < len) {
		u8 b = r[(start + i) % RINGS];
		CHECK(out[i] == b, "copy byte i is the window content at start+i when it is copied (sequential LZ77 semantics)");
		r[rp] = b; rp = (rp + 1) % RINGS;
	}
	CHECK(dec.ringbuf_pos == rp, "write position advances modulo the window size");
	for (i = 0; i < RINGS; ++i) CHECK(dec.ringbuf[i] == r[i], "window after the copy = window with the copied bytes appended");
	if (len == 17 && start % RINGS > RINGS - 9 && (start + 17) % RINGS > KPOS) WITNESS("source crosses the seam and runs into the bytes being written");
	WITNESS("kernel");
}
#endif

/* init state: ring of spaces, write position 2048-17 */
void harness_init(void)
{
	INPUT(u32, probe);
	ASSUME(probe < 2048);
	CHECK(lha_lzs_init(&dec, cb_read, 0) == 1, "init succeeds");
	CHECK(dec.ringbuf[probe] == ' ', "ring initially all spaces");
	CHECK(dec.ringbuf_pos == 2048 - 17, "initial write position 2048-17");
	CHECK(lha_lzs_decoder.max_read >= 17 && lha_lzs_decoder.extra_size == sizeof(LHALZSDecoder), "decoder type parameters");
	WITNESS("init");
}
