/* C03: stored methods (-lh0-, -lz4-, -pm0-): the decoder hands the callback's bytes through unchanged,
 * at most 1024 per call; the three names map to this decoder. */
#define CB_N 8
#define CB_CALLS 2
#include "stream_cb.h"
#include <string.h>
#include "lib/null_decoder.c"
#include "lib/crc16.c"
#include "lib/lha_decoder.c"

static LHANullDecoder dec;

void harness(void)
{
	INPUT_ARRAY(u8, data, CB_N);
	INPUT_ARRAY(u8, shorts, CB_CALLS);
	INPUT(u32, slen);
	INPUT(u32, k);
	static u8 out[BLOCK_READ_SIZE];
	unsigned i;
	size_t n;
	ASSUME(slen <= CB_N && k < CB_N);
	for (i = 0; i < CB_N; ++i) cb_data[i] = data[i];
	for (i = 0; i < CB_CALLS; ++i) cb_short[i] = shorts[i];
	cb_len = slen;
	CHECK(lha_null_init(&dec, cb_read, 0) == 1, "init");
	n = lha_null_read(&dec, out);
	CHECK(n <= slen && n <= BLOCK_READ_SIZE, "never more than available / 1024");
	CHECK((n == 0) == (slen == 0), "returns 0 exactly at end of data");
	CHECK(cb_requested == BLOCK_READ_SIZE, "asks the callback for one 1024-byte block");
	if (k < n) CHECK(out[k] == data[k], "bytes are passed through unchanged, in order");
	{
		/* second call continues where the first stopped */
		size_t n2 = lha_null_read(&dec, out);
		if (k < n2) CHECK(out[k] == data[n + k], "next call continues with the following bytes");
		CHECK(n + n2 <= slen, "never invents data");
		CHECK((n2 == 0) == (n == slen), "a short count from the callback is not the end: the next call delivers the following bytes until the callback itself returns 0");
		if (n < slen && n2 > 0 && shorts[0] != 0) WITNESS("short first read, data continues");
	}
	CHECK(lha_null_decoder.max_read == BLOCK_READ_SIZE && lha_null_decoder.read == lha_null_read
	      && lha_null_decoder.init == lha_null_init && lha_null_decoder.extra_size == sizeof(LHANullDecoder), "decoder type parameters");
	CHECK(lha_decoder_for_name("-lh0-") == &lha_null_decoder, "-lh0- is stored");
	CHECK(lha_decoder_for_name("-lz4-") == &lha_null_decoder, "-lz4- is stored");
	CHECK(lha_decoder_for_name("-pm0-") == &lha_null_decoder, "-pm0- is stored");
	CHECK(lha_decoder_for_name("-lzs-") == &lha_lzs_decoder && lha_decoder_for_name("-lz5-") == &lha_lz5_decoder, "LArc names map to their decoders");
	CHECK(lha_decoder_for_name("-lhd-") == NULL, "directory pseudo-method has no decoder");
	WITNESS("null");
}
