/* C15, concurrency at a small bound, second path: TWO THREADS each run the real lha_reader_check() on their own
 * reader: real open_decoder / do_decode / lha_reader_read (lib/lha_reader.c), real lha_decoder_read and accessors
 * (lib/lha_decoder.c), real lha_crc16_buf (lib/crc16.c).  Each reader's method yields two bytes of its own, then end.
 * The recorded CRC of reader A's header is the CRC of A's bytes, B's header carries a CRC that does not match B's
 * bytes: for every interleaving reader A must be reported good and reader B bad.  State shared between the two
 * decoders or readers (static buffers, static CRC accumulators, a shared cursor) breaks one of the two verdicts. */
#include "verif.h"
#include "ref_crc16.h"
#include <stdio.h>
#include <stdlib.h>
#include <string.h>
#include <limits.h>
#include "libc_models.h"
#define memcpy verif_memcpy
#include "lib/lha_decoder.c"
#include "lib/lha_reader.c"

typedef struct { unsigned next; u8 b0, b1; } Script;
static size_t script_read(void *extra, uint8_t *buf)
{
	Script *s = extra;
	if (s->next == 0) { s->next = 1; buf[0] = s->b0; buf[1] = s->b1; return 2; }
	return 0;
}
static LHADecoderType script_type = { NULL, NULL, script_read, sizeof(Script), 2, 2 };
typedef struct { struct _LHADecoder d; Script st; uint8_t out[2]; } Box;
static Box boxA, boxB;
static struct _LHAReader rA, rB;
static struct _LHABasicReader { int tag; } brA, brB;
static LHAFileHeader hA, hB;
static int doneA, verdictA, verdictB;

LHADecoder *lha_basic_reader_decode(LHABasicReader *r) { return r == (LHABasicReader *) &brA ? &boxA.d : &boxB.d; }
LHADecoder *lha_macbinary_passthrough(LHADecoder *d, LHAFileHeader *h) { (void) d; (void) h; return NULL; }
void verif_free_noop(void *p) { (void) p; }

static void setup(struct _LHAReader *r, void *br, LHAFileHeader *h, Box *b, u8 x, u8 y, u16 crc)
{
	memset(r, 0, sizeof(*r)); memset(h, 0, sizeof(*h)); memset(b, 0, sizeof(*b));
	memcpy(h->compress_method, "-lh5-", 6);
	h->length = 2; h->crc = crc; h->os_type = 'U';
	r->reader = br; r->curr_file = h; r->curr_file_type = CURR_FILE_NORMAL;
	b->d.dtype = &script_type; b->d.outbuf = b->out; b->d.stream_length = 2; b->d.last_block = UINT_MAX;
	b->st.b0 = x; b->st.b1 = y;
}
static void threadA(void) { verdictA = lha_reader_check(&rA, NULL, NULL); doneA = 1; }

void harness(void)
{
	u8 a[2] = { 0x11, 0x22 }, b[2] = { 0x33, 0x44 };
	setup(&rA, &brA, &hA, &boxA, a[0], a[1], ref_crc16(0, a, 2));
	setup(&rB, &brB, &hB, &boxB, b[0], b[1], (u16) (ref_crc16(0, b, 2) ^ 1));
__CPROVER_ASYNC_1: threadA();
	verdictB = lha_reader_check(&rB, NULL, NULL);
	__CPROVER_assume(doneA);
	CHECK(verdictA != 0, "C15: reader A's member is reported good whatever reader B does concurrently");
	CHECK(verdictB == 0, "C15: reader B's member is reported bad whatever reader A does concurrently");
	CHECK(lha_decoder_get_length(&boxA.d) == 2 && lha_decoder_get_length(&boxB.d) == 2, "both decoders delivered their own two bytes");
	WITNESS("end");
}
