/* C15 (operations on one reader never affect another reader ... concurrently on different threads), at the smallest
 * meaningful bound: TWO THREADS (CBMC's interleaving semantics), each decoding one member of its own reader through
 * the real do_decode()/lha_reader_read() of lib/lha_reader.c into its own output handle.  Each reader's decoder
 * stub yields one byte that identifies the reader, then end of data.  For every interleaving of the two threads each
 * output handle must have received exactly its own reader's byte.  Any state shared between readers on this path
 * (a static buffer, a global cursor) produces an interleaving in which a byte crosses over. */
#include "verif.h"
#include <stdio.h>
#include <stdlib.h>
#include <string.h>
static size_t verif_fwrite(const void *p, size_t sz, size_t n, FILE *f);
#define fwrite verif_fwrite
#include "lib/lha_reader.c"
#undef fwrite

static struct _LHAReader rA, rB;
static LHAFileHeader hA, hB;
static struct _LHADecoder dA, dB;
static char fA, fB;                       /* the two output handles (only their addresses are used) */
static u8 outA[2], outB[2];
static unsigned nA, nB, callsA, callsB;
static int doneA;

size_t lha_decoder_read(LHADecoder *d, uint8_t *buf, size_t n)
{
	(void) n;
	if (d == &dA) { if (callsA++ == 0) { buf[0] = 0xAA; return 1; } return 0; }
	if (callsB++ == 0) { buf[0] = 0xBB; return 1; }
	return 0;
}
size_t lha_decoder_get_length(LHADecoder *d) { (void) d; return 1; }
uint16_t lha_decoder_get_crc(LHADecoder *d) { (void) d; return 0; }
static size_t verif_fwrite(const void *p, size_t sz, size_t n, FILE *f)
{
	(void) sz;
	if (f == (FILE *) &fA) { if (n > 0 && nA < 2) outA[nA] = ((const u8 *) p)[0]; nA += (unsigned) n; }
	else { if (n > 0 && nB < 2) outB[nB] = ((const u8 *) p)[0]; nB += (unsigned) n; }
	return n;
}
/* unreached externals */
LHADecoder *lha_basic_reader_decode(LHABasicReader *r) { (void) r; return NULL; }
void lha_decoder_monitor(LHADecoder *d, LHADecoderProgressCallback cb, void *cbd) { (void) d; (void) cb; (void) cbd; }
void lha_decoder_free(LHADecoder *d) { (void) d; }
LHADecoder *lha_macbinary_passthrough(LHADecoder *d, LHAFileHeader *h) { (void) d; (void) h; return NULL; }

static void setup(struct _LHAReader *r, LHAFileHeader *h, struct _LHADecoder *d)
{
	memset(r, 0, sizeof(*r)); memset(h, 0, sizeof(*h));
	h->length = 1; h->crc = 0;
	r->curr_file = h; r->curr_file_type = CURR_FILE_NORMAL; r->decoder = d; r->inner_decoder = d;
}
static void threadA(void) { (void) do_decode(&rA, (FILE *) &fA); doneA = 1; }

void harness(void)
{
	setup(&rA, &hA, &dA); setup(&rB, &hB, &dB);
__CPROVER_ASYNC_1: threadA();
	(void) do_decode(&rB, (FILE *) &fB);
	__CPROVER_assume(doneA);
	CHECK(nA == 1 && outA[0] == 0xAA, "C15: reader A's output handle received exactly reader A's byte, whatever reader B did concurrently");
	CHECK(nB == 1 && outB[0] == 0xBB, "C15: reader B's output handle received exactly reader B's byte, whatever reader A did concurrently");
	WITNESS("end");
}
