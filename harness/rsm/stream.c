/* C20 (file handles and the stream object are released; a failed allocation leaks nothing): the constructors and the
 * destructor of lib/lha_input_stream.c - lha_input_stream_from (owns the FILE it opens), lha_input_stream_from_FILE
 * (does not own), lha_input_stream_new with caller callbacks (close callback optional), lha_input_stream_free - with
 * fopen/fclose replaced by a handle counter and calloc allowed to fail. */
#include "verif.h"
#include <stdio.h>
#include <stdlib.h>
#include <string.h>
#include <errno.h>
static int open_handles, fopen_ok;
static char token;
static FILE *verif_fopen(const char *n, const char *m) { (void) n; (void) m; if (!fopen_ok) return NULL; ++open_handles; return (FILE *) &token; }
static int verif_fclose(FILE *f) { CHECK(f == (FILE *) &token && open_handles > 0, "fclose of an open handle"); --open_handles; return 0; }
#define fopen verif_fopen
#define fclose verif_fclose
#include "lib/lha_input_stream.c"
#undef fopen
#undef fclose
void lha_arch_set_binary(FILE *f) { (void) f; }
static unsigned closed_cb;
static void my_close(void *h) { (void) h; ++closed_cb; }
static int my_read(void *h, void *b, size_t n) { (void) h; (void) b; (void) n; return 0; }

void harness(void)
{
	INPUT(u8, kind); INPUT(u8, fok); INPUT(u8, with_close);
	LHAInputStream *s;
	static LHAInputStreamType cbtype;
	ASSUME(kind <= 2);
	fopen_ok = fok & 1;
	if (kind == 0) {
		s = lha_input_stream_from("a.lzh");
		if (s == NULL) CHECK(open_handles == 0, "C20: when opening by name fails (no file, or no memory for the stream) no file handle stays open");
		else {
			CHECK(open_handles == 1, "one handle while the stream lives");
			lha_input_stream_free(s);
			CHECK(open_handles == 0, "C20: freeing a stream opened by name closes its file");
		}
		if (s == NULL && (fok & 1)) WITNESS("allocation of the stream object failed after the file was opened");
	} else if (kind == 1) {
		open_handles = 1;                                 /* the caller's own FILE */
		s = lha_input_stream_from_FILE((FILE *) &token);
		if (s != NULL) lha_input_stream_free(s);
		CHECK(open_handles == 1, "C20: a caller-supplied FILE is never closed by the library");
	} else {
		cbtype.read = my_read; cbtype.skip = NULL; cbtype.close = (with_close & 1) ? my_close : NULL;
		s = lha_input_stream_new(&cbtype, &token);
		if (s != NULL) {
			lha_input_stream_free(s);
			CHECK(closed_cb == ((with_close & 1) ? 1u : 0u), "C20: the caller's close callback runs exactly once when the stream is freed");
		} else CHECK(closed_cb == 0, "no callback on a stream that was never created");
	}
	WITNESS("end");
}
