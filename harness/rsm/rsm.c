/* Reader state machine (C15, C20, C08, C10): real lib/lha_reader.c + lib/lha_basic_reader.c + the reference
 * counting / full-path code of lib/lha_file_header.c, driven with an ARBITRARY sequence of K operations
 * (next / read / check / extract with and without an explicit name / is-fake query) over an archive of up to M
 * abstract members (file, directory, harmless symlink, dangerous symlink; paths from a small catalogue with
 * prefix relations; headers come from a stubbed lha_file_header_read), any directory policy, arbitrary results
 * of the arch layer and of the (stubbed) decoder, optionally with the k-th library allocation failing; the
 * archive is abandoned after the K-th operation, then lha_reader_free runs.
 *   C20: afterwards no allocation made on the reader's behalf (reader, basic reader, headers incl. their strings,
 *        decoders, temporary path strings) and no file handle is left; no failed allocation crashes a call.
 *   C15: the sequence of entries presented equals the reference model of the documented order (fake directory
 *        at the first later entry outside it / at end of input / immediately under the plain policy, deferred
 *        symlinks after everything else, longest path first, each exactly once, NULL forever after the end).
 *   C10: a symlink with a dangerous target reaches lha_arch_symlink only as a deferred entry (all input consumed,
 *        directory stack empty).
 *   C08 (safety mode): no use-after-free / double free / NULL access on any such history. */
#include "verif.h"
#include <stdio.h>
#include <stdlib.h>
#include <string.h>
#include <time.h>
#include "ctype_model.h"

#ifndef M
#define M 3
#endif
#ifndef K
#define K 5
#endif

/* ---- counted allocator ------------------------------------------------------------------------------------ */
static int live_blocks;            /* ghost: allocations outstanding */
static int live_handles;           /* ghost: FILE handles outstanding */
static unsigned lib_allocs;        /* allocations requested by library code so far */
static unsigned fail_at;           /* 0 = no failure; k = the k-th library allocation returns NULL */
#define OBJ 24
static void *counted_alloc(size_t n, int may_fail)     /* may_fail: 0 no, 1 yes (string-sized object), 2 yes (object of its exact, constant size) */
{
	void *p;
	if (may_fail) { ++lib_allocs; if (lib_allocs == fail_at) return NULL; }
	CHECK(n <= OBJ || may_fail == 2, "modelled object size suffices");
	p = malloc(may_fail == 2 ? n : OBJ);
	ASSUME(p != NULL);
	++live_blocks;
	return p;
}
static void *verif_malloc(size_t n) { return counted_alloc(n, 1); }
static void *verif_calloc(size_t a, size_t b) { void *p = counted_alloc(a * b, 2); if (p) memset(p, 0, a * b); return p; }
static void verif_free(void *p) { if (p != NULL) --live_blocks; free(p); }
static int verif_sprintf2(char *out, const char *fmt, const char *a, const char *b)
{
	unsigned i = 0, k;
	(void) fmt;
	for (k = 0; a[k]; ++k) out[i++] = a[k];
	for (k = 0; b[k]; ++k) out[i++] = b[k];
	out[i] = 0;
	return (int) i;
}
static size_t verif_fwrite(const void *p, size_t sz, size_t n, FILE *f);
static int verif_fclose(FILE *f);
#define malloc verif_malloc
#define calloc verif_calloc
#define free verif_free
#define sprintf verif_sprintf2
#define fwrite verif_fwrite
#define fclose verif_fclose
#define mktime verif_mktime_unused
static time_t verif_mktime_unused(struct tm *t) { (void) t; return 0; }
#include "lib/lha_file_header.c"       /* lha_file_header_free / _add_ref / _full_path are the real ones */
#include "lib/lha_basic_reader.c"
#include "lib/lha_reader.c"
#undef malloc
#undef calloc
#undef free

/* ---- externals of lha_file_header.c that are not reached here ---- */
int lha_ext_header_decode(LHAFileHeader *h, uint8_t n, uint8_t *d, size_t l) { (void) h; (void) n; (void) d; (void) l; return 0; }
void lha_crc16_buf(uint16_t *c, uint8_t *b, size_t l) { (void) c; (void) b; (void) l; }
uint16_t lha_decode_uint16(uint8_t *b) { (void) b; return 0; }
uint32_t lha_decode_uint32(uint8_t *b) { (void) b; return 0; }
uint64_t lha_decode_uint64(uint8_t *b) { (void) b; return 0; }
int lha_input_stream_read(LHAInputStream *s, void *buf, size_t n) { (void) s; (void) buf; (void) n; return 1; }
int lha_input_stream_skip(LHAInputStream *s, size_t n) { (void) s; (void) n; return 1; }

/* ---- the abstract archive --------------------------------------------------------------------------------- */
#ifdef DIRS_ONLY     /* directed variant: directories only, a sibling sub-directory in the catalogue, operations next / extract */
#define NPATH 5
static const char *const cat_path[NPATH] = { 0, "a/", "a/b/", "c/", "a/c/" };
#else
#define NPATH 4
static const char *const cat_path[NPATH] = { 0, "a/", "a/b/", "c/" };
#endif
static const char *const cat_name[3] = { 0, "f", "gg" };
static const char *const cat_target[4] = { "t", "/t", "../t", "x/.." };
static const int target_dangerous[4] = { 0, 1, 1, 1 };
static u8 mem_kind[M], mem_path[M], mem_name[M], mem_target[M], mem_perms[M], mem_mac[M], mem_supported[M];
static unsigned n_members, served;
static LHAFileHeader *hobj[M];

static char *dupstr(const char *s)
{
	char *r;
	unsigned i;
	if (s == NULL) return NULL;
	r = malloc(8);
	ASSUME(r != NULL);
	++live_blocks;
	for (i = 0; i < 7 && s[i]; ++i) r[i] = s[i];
	r[i] = 0;
	return r;
}
/* replaces the real lha_file_header_read (driver: rename_defs) */
LHAFileHeader *lha_file_header_read(LHAInputStream *stream)
{
	LHAFileHeader *h;
	unsigned i = served;
	(void) stream;
	if (i >= n_members) return NULL;
	++served;
	h = malloc(sizeof(LHAFileHeader));
	ASSUME(h != NULL);
	++live_blocks;
	memset(h, 0, sizeof(*h));
	h->_refcount = 1;
	h->path = dupstr(cat_path[mem_path[i]]);
	h->filename = dupstr(cat_name[mem_name[i]]);
	if (mem_kind[i] == 0) memcpy(h->compress_method, "-lh0-", 6);
	else memcpy(h->compress_method, "-lhd-", 6);
	if (mem_kind[i] == 2) h->symlink_target = dupstr(cat_target[mem_target[i]]);
	if (mem_perms[i]) { h->extra_flags |= LHA_FILE_UNIX_PERMS; h->unix_perms = 0755; }
	h->os_type = mem_mac[i] ? LHA_OS_TYPE_MACOS : LHA_OS_TYPE_UNIX;
	h->timestamp = 1;
	hobj[i] = h;
	return h;
}

/* ---- decoder / MacBinary / arch / stdio stubs (arbitrary results) ------------------------------------------ */
SEQ_DECL(u8, env);
static LHADecoderType dummy_type;
LHADecoderType *lha_decoder_for_name(char *name) { (void) name; return (served > 0 && mem_supported[served - 1]) ? &dummy_type : NULL; }
static int live_decoders;
static LHADecoder *new_decoder(void)
{
	LHADecoder *d = counted_alloc(sizeof(struct _LHADecoder), 2);
	if (d != NULL) { ++live_decoders; CHECK(live_decoders <= 2, "C13: at most one decoder and its MacBinary wrapper are alive at any time (heap bound)"); }
	return d;
}
LHADecoder *lha_decoder_new(LHADecoderType *t, LHADecoderCallback cb, void *cbd, size_t len)
{ (void) t; (void) cb; (void) cbd; (void) len; return new_decoder(); }
void lha_decoder_free(LHADecoder *d) { CHECK(d != NULL, "decoder freed is a decoder"); --live_decoders; verif_free(d); }
void lha_decoder_monitor(LHADecoder *d, LHADecoderProgressCallback cb, void *cbd) { (void) d; (void) cb; (void) cbd; }
static unsigned dec_reads;
size_t lha_decoder_read(LHADecoder *d, uint8_t *buf, size_t n)
{
	u8 r = SEQ_NEXT(u8, env);
	(void) d; (void) buf;
	if (++dec_reads > 2) return 0;
	return r <= n ? r : n;
}
size_t lha_decoder_get_length(LHADecoder *d) { (void) d; return SEQ_NEXT(u8, env) & 1; }
uint16_t lha_decoder_get_crc(LHADecoder *d) { (void) d; return 0; }
LHADecoder *lha_macbinary_passthrough(LHADecoder *d, LHAFileHeader *h)
{ (void) d; (void) h; return (SEQ_NEXT(u8, env) & 1) ? new_decoder() : NULL; }

static unsigned dangerous_symlink_calls_too_early;
static int model_all_input_done(void);
static unsigned mkdir_ok_calls;
int lha_arch_mkdir(char *p, unsigned int m) { int r = SEQ_NEXT(u8, env) & 1; (void) p; (void) m; if (r) ++mkdir_ok_calls; return r; }
LHAFileType lha_arch_exists(char *p) { (void) p; return (SEQ_NEXT(u8, env) & 1) ? LHA_FILE_DIRECTORY : LHA_FILE_NONE; }
int lha_arch_chown(char *p, int u, int g) { (void) p; (void) u; (void) g; return SEQ_NEXT(u8, env) & 1; }
int lha_arch_chmod(char *p, int m) { (void) p; (void) m; return SEQ_NEXT(u8, env) & 1; }
int lha_arch_utime(char *p, unsigned int t) { (void) p; (void) t; return SEQ_NEXT(u8, env) & 1; }
int lha_arch_symlink(char *p, char *target)
{
	(void) p;
	if (target[0] == '/' || (target[0] == '.' && target[1] == '.') || (target[0] == 'x' && target[2] == '.'))
		CHECK(model_all_input_done(), "C10: a dangerous symlink is created only as a deferred entry, after all other entries");
	return SEQ_NEXT(u8, env) & 1;
}
FILE *lha_arch_fopen(char *p, int u, int g, int m)
{
	void *h;
	(void) p; (void) u; (void) g; (void) m;
	if (!(SEQ_NEXT(u8, env) & 1)) return NULL;
	h = malloc(1);
	ASSUME(h != NULL);
	++live_handles;
	return (FILE *) h;
}
static size_t verif_fwrite(const void *p, size_t sz, size_t n, FILE *f) { (void) p; (void) sz; (void) f; return (SEQ_NEXT(u8, env) & 1) ? n : 0; }
static int verif_fclose(FILE *f) { CHECK(f != NULL, "fclose of an open handle"); --live_handles; free(f); return 0; }

/* ---- reference model of the presentation order (public/lha_reader.h) ---------------------------------------- */
enum { MS_START, MS_NORMAL, MS_FAKE, MS_DEFER, MS_EOF };
static int ms = MS_START, m_idx = -1, m_cur = -1, m_in_eof;
static int m_stack[M], m_sp;          /* directories created, metadata pending (top = last) */
static int m_def[M], m_nd;            /* deferred symlinks, longest path first */
static u8 policy;
static int model_all_input_done(void) { return ms == MS_DEFER && m_in_eof && m_sp == 0; }
static unsigned plen(int i)
{
	unsigned n = 0;
	if (cat_path[mem_path[i]]) n += (unsigned) strlen(cat_path[mem_path[i]]);
	if (cat_name[mem_name[i]]) n += (unsigned) strlen(cat_name[mem_name[i]]);
	return n;
}
static int inside(int dir, int i)     /* member i lies inside directory member dir (path prefix) */
{
	const char *d = cat_path[mem_path[dir]], *p = cat_path[mem_path[i]];
	if (p == NULL) return 0;
	return strncmp(p, d, strlen(d)) == 0;
}
/* expected result of the next lha_reader_next_file: index of member, and whether it is re-presented */
static int model_next(int *fake)
{
	*fake = 0;
	if (ms == MS_EOF) return -1;
	if (ms == MS_START || ms == MS_NORMAL) {
		if (!m_in_eof) { ++m_idx; if (m_idx >= (int) n_members) m_in_eof = 1; }
	}
	if (m_sp > 0 && (m_in_eof || policy == LHA_READER_DIR_PLAIN
	                 || (policy == LHA_READER_DIR_END_OF_DIR && !inside(m_stack[m_sp - 1], m_idx)))) {
		ms = MS_FAKE; *fake = 1; m_cur = m_stack[--m_sp];
		return m_cur;
	}
	if (!m_in_eof) { ms = MS_NORMAL; m_cur = m_idx; return m_cur; }
	if (m_nd > 0) {
		int j;
		ms = MS_DEFER; *fake = 1; m_cur = m_def[0];
		for (j = 1; j < m_nd; ++j) m_def[j - 1] = m_def[j];
		--m_nd;
		return m_cur;
	}
	ms = MS_EOF; m_cur = -1;
	return -1;
}

void harness(void)
{
	INPUT_ARRAY(u8, kind, M); INPUT_ARRAY(u8, pathi, M); INPUT_ARRAY(u8, namei, M); INPUT_ARRAY(u8, targeti, M);
	INPUT_ARRAY(u8, perms, M); INPUT_ARRAY(u8, mac, M); INPUT_ARRAY(u8, supported, M);
	INPUT_ARRAY(u8, ops, K);
	INPUT(u8, nmem); INPUT(u8, pol); INPUT(u8, failk);
	LHAReader *reader;
	unsigned i, step;
	int decode_used = 0, extract_used = 0, mkdir_done_idx = -1;
	static struct _LHAInputStream { int d; } stream;
	u8 buf[4];

	ASSUME(nmem <= M && pol <= 2);
	n_members = nmem; policy = pol;
#ifdef ALLOC_FAIL
	fail_at = failk;
#else
	(void) failk;
#endif
	for (i = 0; i < M; ++i) {
		ASSUME(kind[i] <= 2 && pathi[i] < NPATH && namei[i] <= 2 && targeti[i] <= 3);
#ifdef DIRS_ONLY
		ASSUME(kind[i] == 1);
#endif
		if (kind[i] == 1) ASSUME(pathi[i] != 0 && namei[i] == 0);          /* directory: path, no name   */
		else ASSUME(namei[i] != 0);                                        /* file, symlink: a name      */
		mem_kind[i] = kind[i]; mem_path[i] = pathi[i]; mem_name[i] = namei[i]; mem_target[i] = targeti[i];
		mem_perms[i] = perms[i] & 1; mem_mac[i] = mac[i] & 1; mem_supported[i] = supported[i] & 1;
	}

	reader = lha_reader_new((LHAInputStream *) &stream);
	if (reader == NULL) {
		CHECK(fail_at != 0, "C20: lha_reader_new fails only when an allocation fails");
		CHECK(live_blocks == 0, "C20: a failed lha_reader_new leaves nothing allocated");
		return;
	}
	lha_reader_set_dir_policy(reader, (LHAReaderDirPolicy) pol);

	for (step = 0; step < K; ++step) {
		u8 op = ops[step];
		ASSUME(op <= 5);
#ifdef DIRS_ONLY
		ASSUME(op == 0 || op == 3);
#endif
		if (op == 0) {
			int fake, e = model_next(&fake);
			LHAFileHeader *h = lha_reader_next_file(reader);
			if (e < 0) CHECK(h == NULL, "C15: end of archive is reported, and reported again on every later request");
			else {
				CHECK(h != NULL && h == hobj[e], "C15: the entry presented is the one the documented order prescribes");
				if (h != NULL) CHECK(h->_refcount >= 1, "C08/C20: a presented header is alive");
			}
			CHECK(lha_reader_current_is_fake(reader) == (e >= 0 && fake), "C15: re-presented entries are flagged as such, others are not");
			decode_used = 0; extract_used = 0; dec_reads = 0;
		} else if (op == 1) {
			size_t n;
			ASSUME(decode_used == 0 || decode_used == 1);
			decode_used = 1;
			n = lha_reader_read(reader, buf, sizeof(buf));
			CHECK(n <= sizeof(buf), "C09/C14: read returns at most what was asked");
			if (ms != MS_NORMAL) CHECK(n == 0, "C15: nothing can be read from a re-presented entry, before the first or after the last entry");
		} else if (op == 2) {
			int r;
			ASSUME(decode_used == 0);
			decode_used = 2;
			r = lha_reader_check(reader, NULL, NULL);
			if (ms != MS_NORMAL) CHECK(r == 0, "C15: check applies to entries from the archive only");
		} else if (op == 3 || op == 4) {
			int r, cur = m_cur, was = ms;
			unsigned before_sp;
			ASSUME(decode_used == 0 && extract_used == 0);
			decode_used = 3; extract_used = 1;
			before_sp = mkdir_ok_calls;
			r = lha_reader_extract(reader, op == 4 ? "o" : NULL, NULL, NULL);
			if (was == MS_START || was == MS_EOF) CHECK(r == 0, "extract without a current entry fails");
			/* model update: what extraction of this entry schedules for later */
			if (was == MS_NORMAL && cur >= 0) {
				if (mem_kind[cur] == 1) {
					/* a directory this call created gets its metadata later, unless the policy is plain */
					if (policy != LHA_READER_DIR_PLAIN && mkdir_ok_calls > before_sp) { m_stack[m_sp++] = cur; mkdir_done_idx = cur; }
					if (mkdir_ok_calls > before_sp) CHECK(r, "C06: creating a directory that did not exist succeeds");
				} else if (mem_kind[cur] == 2 && target_dangerous[mem_target[cur]] && r) {
					int pos = 0, j;
					while (pos < m_nd && plen(m_def[pos]) > plen(cur)) ++pos;
					for (j = m_nd; j > pos; --j) m_def[j] = m_def[j - 1];
					m_def[pos] = cur; ++m_nd;
				}
			}
		} else {
			(void) lha_reader_current_is_fake(reader);
		}
	}
	/* deferred list order invariant (C10): non-increasing path length */
	{
		LHAFileHeader *d = reader->deferred_symlinks;
		unsigned cnt = 0;
		while (d != NULL && cnt < M) {
			if (d->_next != NULL) CHECK(file_header_path_len(d) >= file_header_path_len(d->_next), "C10: deferred symlinks are kept longest path first");
			d = d->_next; ++cnt;
		}
		CHECK((int) cnt == m_nd, "C15: exactly the dangerous symlinks extracted so far are pending");
	}
	if (ms == MS_DEFER) WITNESS("archive abandoned while a deferred symlink is current");
	if (ms == MS_FAKE) WITNESS("archive abandoned while a re-presented directory is current");
#if K >= 4 && M >= 2
	if (m_nd == 2) WITNESS("two deferred symlinks pending");
	if (m_sp == 2) WITNESS("two directories with metadata pending");
#endif
#ifdef ALLOC_FAIL
	if (fail_at != 0 && lib_allocs >= fail_at) WITNESS("an allocation failed during the history");
#endif

	lha_reader_free(reader);
	CHECK(live_blocks == 0, "C20: after lha_reader_free every allocation made on the reader's behalf has been released");
	CHECK(live_handles == 0, "C20: no file handle is left open");
	WITNESS("end");
}
