/* C15 / C12 / C13: basic-reader position accounting.  Real lib/lha_basic_reader.c over a position-recording
 * input stream model; headers come from a stub that records where in the stream it was asked to parse.
 * For an arbitrary member (packed size symbolic, full 32-bit range) and an arbitrary schedule of R reads of
 * arbitrary sizes (or none at all):
 *   - reads never deliver more than the member's packed size in total and never cross into the next member;
 *   - the next header is parsed exactly at data start + packed size, whatever was read before (independence);
 *   - when the stream cannot supply the bytes (read or skip fails) or the parser rejects a header, the archive
 *     ends: every later request returns NULL without touching the stream again (sticky end, C12/C13). */
#include "verif.h"
#include <stdlib.h>
#include <string.h>
#include "lib/lha_decoder.h"
#define calloc verif_calloc
static void *verif_calloc(size_t n, size_t sz);
#include "lib/lha_basic_reader.c"
#undef calloc
static struct _LHABasicReader arena;
static void *verif_calloc(size_t n, size_t sz) { (void) n; (void) sz; memset(&arena, 0, sizeof(arena)); return &arena; }

#ifndef R
#define R 3
#endif
static u64 pos;                 /* stream position (ghost) */
static u64 stream_len;          /* bytes the stream really has */
static unsigned touches;        /* stream accesses */
static u64 parse_at[3];
static unsigned parses;
static LHAFileHeader hdrs[2];
static u32 clen[2];
static u8 n_headers;
int lha_input_stream_read(LHAInputStream *s, void *buf, size_t n)
{
	(void) s; (void) buf; ++touches;
	if (n > stream_len - pos) { pos = stream_len; return 0; }
	pos += n;
	return 1;
}
int lha_input_stream_skip(LHAInputStream *s, size_t n)
{
	(void) s; ++touches;
	if (n > stream_len - pos) { pos = stream_len; return 0; }
	pos += n;
	return 1;
}
LHAFileHeader *lha_file_header_read(LHAInputStream *s)
{
	(void) s; ++touches;
	if (parses < 3) parse_at[parses] = pos;
	if (parses >= n_headers) { ++parses; return NULL; }
	if (30 > stream_len - pos) { pos = stream_len; ++parses; return NULL; }
	pos += 30;                                       /* a header of 30 bytes */
	hdrs[parses].compressed_length = clen[parses];
	hdrs[parses]._refcount = 1;
	return &hdrs[parses++];
}
void lha_file_header_free(LHAFileHeader *h) { CHECK(h->_refcount > 0, "header released at most once"); --h->_refcount; }
LHADecoderType *lha_decoder_for_name(char *name) { (void) name; return NULL; }
LHADecoder *lha_decoder_new(LHADecoderType *t, LHADecoderCallback cb, void *d, size_t l) { (void) t; (void) cb; (void) d; (void) l; return NULL; }

void harness(void)
{
	INPUT_ARRAY(u32, sizes, R);
	INPUT(u32, c0); INPUT(u32, c1); INPUT(u64, slen); INPUT(u8, nh); INPUT(u8, nreads);
	LHABasicReader *br;
	LHAFileHeader *h;
	static u8 buf[1];
	u64 total = 0, data_start;
	unsigned i, t0;
	int failed = 0;
	ASSUME(nh <= 2 && nreads <= R);
	clen[0] = c0; clen[1] = c1; n_headers = nh; stream_len = slen;
	br = lha_basic_reader_new(NULL);
	h = lha_basic_reader_next_file(br);
	if (h == NULL) {
		CHECK(nh == 0 || slen < 30, "first header is presented when it is there");
	} else {
		data_start = pos;
		CHECK(lha_basic_reader_curr_file(br) == h, "current file is the one just returned");
		for (i = 0; i < R; ++i) if (i < nreads) {
			/* the buffer is not inspected by the model stream, so its size is immaterial here */
			size_t n = lha_basic_reader_read_compressed(br, buf, sizes[i]);
			CHECK(n <= sizes[i], "C09: a read returns at most what was asked");
			if (n == 0 && sizes[i] != 0 && total < c0) failed = 1;
			total += n;
			CHECK(total <= c0, "C15: reads never cross into the next member");
			CHECK(pos == data_start + total || failed, "stream position = data start + bytes delivered");
		}
		h = lha_basic_reader_next_file(br);
		if (h != NULL) {
			CHECK(parse_at[1] == data_start + c0, "C15: the next header is parsed exactly at data start + packed size, whatever was read before");
			CHECK(h == &hdrs[1] && hdrs[0]._refcount == 0, "previous header released, next one presented");
			if (nreads == 0) WITNESS("member skipped without reading");
			if (nreads == R && total > 0 && total < c0) WITNESS("member partly read, then skipped");
		} else {
			/* end of archive: sticky, and the stream is left alone afterwards */
			t0 = touches;
			CHECK(lha_basic_reader_next_file(br) == NULL && lha_basic_reader_next_file(br) == NULL, "C12/C15: after the end every further request reports end");
			CHECK(touches == t0, "C13: no further stream access after the end was reported");
			CHECK(lha_basic_reader_read_compressed(br, buf, 1) == 0, "nothing to read after the end");
			if (slen < (u64) 30 + c0) WITNESS("truncated member data ends the archive");
		}
	}
	WITNESS("end");
}
