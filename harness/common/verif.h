/* Common definitions for all harnesses.  A harness is compiled three ways:
 *   - by goto-cc for CBMC (default): inputs are nondeterministic;
 *   - natively with -DREPLAY plus a generated replay_inputs.h: inputs are the
 *     values of a solver counterexample, assertions become real exits;
 *   - by goto-cc with -DREPLAY (concrete re-execution under CBMC).
 * Inputs must be declared with INPUT/INPUT_ARRAY in the harness entry function,
 * once each, so that the driver can read their values out of a CBMC trace. */
#ifndef VERIF_H
#define VERIF_H
#include <stdint.h>
#include <stddef.h>

typedef uint8_t  u8;
typedef uint16_t u16;
typedef uint32_t u32;
typedef uint64_t u64;
typedef int32_t  i32;
typedef size_t   usz;

#ifdef REPLAY
#include <stdio.h>
#include <stdlib.h>
#include "replay_inputs.h"
#define INPUT(type, name)            type name = REPLAY_VAL_##name
#define INPUT_ARRAY(type, name, n)   type name[n] = REPLAY_VAL_##name
/* sequence inputs: one fresh arbitrary value per evaluation (environment stubs that are called an
 * unbounded number of times); the driver records the values along the counterexample, in order */
#define SEQ_DECL(type, name)         static const type replay_seq_##name[] = REPLAY_SEQ_##name; static unsigned replay_seq_i_##name
#define SEQ_NEXT(type, name)         (replay_seq_i_##name < sizeof(replay_seq_##name) / sizeof(type) ? replay_seq_##name[replay_seq_i_##name++] : (type) 0)
#ifdef __CPROVER__
#define ASSUME(c)        __CPROVER_assume(c)
#define CHECK(c, msg)    __CPROVER_assert((c), "PROP " msg)
#define WITNESS(msg)     __CPROVER_assert(0, "WITNESS " msg)
#else
#define ASSUME(c)        do { if (!(c)) { printf("REPLAY-ASSUME-FALSE: %s\n", #c); fflush(stdout); exit(3); } } while (0)
#define CHECK(c, msg)    do { if (!(c)) { printf("REPLAY-CHECK-FAIL: %s [%s]\n", msg, #c); fflush(stdout); exit(1); } } while (0)
#define WITNESS(msg)     do { printf("REPLAY-WITNESS: %s\n", msg); } while (0)
#endif
#else
u8  nondet_u8(void);
u16 nondet_u16(void);
u32 nondet_u32(void);
u64 nondet_u64(void);
i32 nondet_i32(void);
usz nondet_usz(void);
#define INPUT(type, name)            type name = nondet_##type()
#define INPUT_ARRAY(type, name, n)   type name[n]   /* uninitialised local = nondet under CBMC */
#define SEQ_DECL(type, name)         static type seq_##name
#define SEQ_NEXT(type, name)         (seq_##name = nondet_##type())
#define ASSUME(c)        __CPROVER_assume(c)
/* The driver encodes every harness twice: the property run (witnesses compiled out: one UNSAT query decides all
 * assertions) and the witness run (property assertions compiled out: each WITNESS must come back reachable). */
#ifdef VERIF_WITNESS_ONLY
#define CHECK(c, msg)    ((void) (c))
#else
#define CHECK(c, msg)    __CPROVER_assert((c), "PROP " msg)
#endif
#ifdef VERIF_NO_WITNESS
#define WITNESS(msg)     ((void) 0)
#else
#define WITNESS(msg)     __CPROVER_assert(0, "WITNESS " msg)
#endif
#endif

#endif
