/* Redirect the libc output functions of the real sources to the output model (out_model.h).
 * Include AFTER out_model.h and BEFORE the real .c files; include out_unredirect.h after them, so that the
 * harness body (and the CHECK macros of a native replay) use the real libc again. */
#undef putc
#undef putchar
#undef fputc
#define printf   verif_printf
#define fprintf  verif_fprintf
#define vprintf  verif_vprintf
#define vfprintf verif_vfprintf
#define putchar  verif_putchar
#define putc     verif_fputc
#define fputc    verif_fputc
#define puts     verif_puts
#define fputs    verif_fputs
#define fflush   verif_fflush
#define fwrite   verif_fwrite
#define sprintf  verif_sprintf
#define snprintf verif_snprintf
#define vsnprintf verif_vsnprintf
#define vsprintf verif_vsprintf
