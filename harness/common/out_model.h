/* Model of the libc output functions used by the tool (printf family, putchar/puts/fputs, fwrite).
 *
 * The (concrete) format string of every real call site is interpreted.  Literal bytes, every byte of every
 * %s / %c argument and every padding byte go through out_byte(), which
 *   - (C18, out_check != 0) asserts that the byte is printable ASCII or one of the tool's own \n \r \t,
 *   - (C19, OUT_RECORD) appends a 'b' token to the token stream.
 * Decimal and floating-point conversions are consumed with the right argument type and reported as ONE token
 * (kind, flags, width, precision, value) without being rendered to digits (%x IS rendered, see out_hex): digits, sign, '.' and blank/zero padding are
 * printable by construction (libc trusted) and C19 compares tokens, not digits.
 *   kind : 'b' byte | 'd' (%d %i, signed) | 'u' | 'x' | 'f' (fval = the value passed, converted to float)
 *   flags: 1 = '-', 2 = '0';  width 0 = none;  prec 0xff = none.  Length modifiers (l, ll) only select the
 *   argument type; %i == %d.
 * lha_arch_vasprintf is modelled by the same interpreter rendering into a static buffer (%s, %c and %x; other
 * conversions are not rendered there and fail an "output model" check), so the real safe_output() sees - and rewrites - the real formatted string.
 *
 * Usage: #include "out_model.h", then OUT_REDIRECT_BEGIN-style defines (see out_redirect.h) around the
 * #include of the real sources, so that the model itself and the CHECK macros keep the real libc names. */
#ifndef OUT_MODEL_H
#define OUT_MODEL_H
#include "verif.h"
#include <stdarg.h>
#include <stdio.h>
#include <stddef.h>

#ifndef OUT_MAXSTR
#define OUT_MAXSTR 40         /* longest %s argument that is followed to its end (longest literal: the prompt) */
#endif
#ifndef OUT_TOKENS
#define OUT_TOKENS 64
#endif
#ifndef OUT_RECORD
#define OUT_RECORD 0
#endif
#ifndef VAS_MAX
#define VAS_MAX 64
#endif

typedef struct { u32 meta; u64 value; float fval; } OutTok;   /* meta = kind | flags << 8 | width << 16 | prec << 24 */
#define OUT_META(kind, flags, width, prec) ((u32) (kind) | (u32) (flags) << 8 | (u32) (width) << 16 | (u32) (prec) << 24)
#if OUT_RECORD
static OutTok out_tok[OUT_TOKENS];
#endif
static unsigned out_n;               /* tokens emitted */
static unsigned out_bytes;           /* byte tokens emitted (literal, %s, %c, padding) */
static unsigned out_unprintable;     /* ghost: number of byte tokens outside the allowed set */
static unsigned out_data_bytes;      /* bytes written with fwrite (member data dumped by 'p': outside C18) */
static int out_check = 1;            /* C18 assertion on/off */

enum { OUT_LIT = 0, OUT_STR = 1, OUT_CHR = 2, OUT_PAD = 3 };

static void out_token_f(u8 kind, u8 flags, u8 width, u8 prec, u64 value, float fval)
{
#if OUT_RECORD
	if (out_n < OUT_TOKENS) {
		out_tok[out_n].meta = OUT_META(kind, flags, width, prec); out_tok[out_n].value = value; out_tok[out_n].fval = fval;
	}
#else
	(void) kind; (void) flags; (void) width; (void) prec; (void) value; (void) fval;
#endif
	++out_n;
}
static void out_token(u8 kind, u8 flags, u8 width, u8 prec, u64 value) { out_token_f(kind, flags, width, prec, value, 0.0f); }

static int out_printable(u8 c) { return (c >= 0x20 && c <= 0x7e) || c == '\n' || c == '\r' || c == '\t'; }

static void out_byte(u8 c, int origin)
{
	int ok = out_printable(c);
	if (!ok) ++out_unprintable;
	if (out_check) {
		if (origin == OUT_STR) CHECK(ok, "C18: every byte of a %s argument written by printf/fprintf/puts is printable ASCII (0x20..0x7E)");
		else if (origin == OUT_CHR) CHECK(ok, "C18: every %c / putchar argument written is printable ASCII (0x20..0x7E)");
		else CHECK(ok, "C18: every literal byte written is printable ASCII or the tool's own LF/CR/TAB");
	}
	++out_bytes;
	out_token('b', 0, 0, 0, c);
}

/* sink: buf == NULL -> the output stream; else the formatted string of lha_arch_vasprintf */
typedef struct { char *buf; unsigned n, cap; } OutSink;

static void out_put(OutSink *k, u8 c, int origin)
{
	if (k->buf == NULL) { out_byte(c, origin); ++k->n; return; }
	CHECK(k->n + 1 < k->cap, "output model: formatted string fits the vasprintf buffer");
	if (k->n + 1 < k->cap) k->buf[k->n++] = (char) c;
}

static unsigned out_strlen(const char *s)
{
	unsigned k = 0;
	while (k < OUT_MAXSTR && s[k] != '\0') ++k;
	CHECK(s[k] == '\0', "output model: %s argument within the modelled string bound");
	return k;
}

static void out_pad(OutSink *k, unsigned from, unsigned width)
{
	unsigned i;
	for (i = from; i < width; ++i) out_put(k, ' ', OUT_PAD);
}

static void out_str(OutSink *k, const char *s, u8 flags, u8 width, u8 prec)
{
	unsigned i;
	if ((flags & 1) || width == 0) {
		/* left-justified (or no width): one pass with a concrete position; inside the field width every position
		 * emits exactly one byte (string byte or blank), so the token count stays independent of the string
		 * length whenever the string is not longer than its field */
		unsigned ended = 0;
		for (i = 0; i < OUT_MAXSTR; ++i) {
			u8 c = ' ';
			if (prec != 0xff && i >= prec) ended = 1;
			if (!ended) { c = (u8) s[i]; if (c == '\0') ended = 1; }
			if (ended) { if (i >= width) break; out_put(k, ' ', OUT_PAD); }
			else out_put(k, c, OUT_STR);
		}
		CHECK(i < OUT_MAXSTR, "output model: %s argument within the modelled string bound");
	} else {
		unsigned len = out_strlen(s);
		if (prec != 0xff && len > prec) len = prec;
		out_pad(k, len, width);
		for (i = 0; i < len; ++i) out_put(k, (u8) s[i], OUT_STR);
	}
}

static void out_hex(OutSink *k, u8 flags, u8 width, u64 v, unsigned bits)
{
	/* %x is RENDERED (no division needed): the hex digits are bytes of the stream, so that a CRC printed by
	 * printf("%04x") and one formatted by safe_printf("... %04x") give the same stream.  `bits` = width of the
	 * argument that was passed: digit positions above it are known to be absent, and inside the field width
	 * every position emits exactly one byte (digit or padding), so the byte count is concrete for "%04x" of a
	 * 16-bit value. */
	int d;
	unsigned emitted = 0, top = (bits + 3) / 4;
	if (flags & 1) {
		for (d = (int) top - 1; d >= 0; --d)
			if (d == 0 || (v >> (4 * d)) != 0) { out_put(k, (u8) "0123456789abcdef"[(v >> (4 * d)) & 15], OUT_LIT); ++emitted; }
		out_pad(k, emitted, width);
		return;
	}
	if (width > top) { unsigned i; for (i = top; i < width; ++i) out_put(k, (flags & 2) ? '0' : ' ', OUT_PAD); }
	for (d = (int) top - 1; d >= 0; --d) {
		int significant = d == 0 || (v >> (4 * d)) != 0;
		u8 digit = (u8) "0123456789abcdef"[(v >> (4 * d)) & 15];
		if ((unsigned) d < width) out_put(k, significant ? digit : (u8) ((flags & 2) ? '0' : ' '), significant ? OUT_LIT : OUT_PAD);
		else if (significant) out_put(k, digit, OUT_LIT);
	}
}

/* Fetching variadic arguments.  goto-cc (CBMC 6.11) does not apply the default argument promotions to the
 * arguments of a variadic call: a uint8_t / uint16_t / float argument is stored in an object of its own type, and
 * va_arg(ap, int) / va_arg(ap, double) would read past it.  Under CBMC the argument is therefore read with the
 * width of the object that was passed (1- and 2-byte integers are taken as unsigned: the tool only passes
 * uint8_t / uint16_t / char values that are cast to u8 anyway); natively va_arg does the job. */
#ifdef __CPROVER__
static long out_slot_int(void *p)
{
	__CPROVER_size_t sz = __CPROVER_OBJECT_SIZE(p);
	if (sz == 1) return (long) *(u8 *) p;
	if (sz == 2) return (long) *(u16 *) p;
	if (sz == 4) return (long) *(int *) p;
	return *(long *) p;
}
static double out_slot_double(void *p)
{
	if (__CPROVER_OBJECT_SIZE(p) == 4) return (double) *(float *) p;
	return *(double *) p;
}
#define OUT_SLOT(ap)            (*(void **) (ap))
#define OUT_ARG_BITS(ap, lng)   ((unsigned) (8 * __CPROVER_OBJECT_SIZE(OUT_SLOT(ap))))
#define OUT_ARG_INT(ap, v)      ((v) = out_slot_int(OUT_SLOT(ap)), (void) va_arg(ap, int))
#define OUT_ARG_LONG(ap, v)     ((v) = out_slot_int(OUT_SLOT(ap)), (void) va_arg(ap, int))
#define OUT_ARG_DOUBLE(ap, v)   ((v) = out_slot_double(OUT_SLOT(ap)), (void) va_arg(ap, int))
#else
#define OUT_ARG_BITS(ap, lng)   ((lng) ? 64u : 32u)
#define OUT_ARG_INT(ap, v)      ((v) = (long) va_arg(ap, int))
#define OUT_ARG_LONG(ap, v)     ((v) = va_arg(ap, long))
#define OUT_ARG_DOUBLE(ap, v)   ((v) = va_arg(ap, double))
#endif

static int out_vformat(OutSink *k, const char *fmt, va_list ap)
{
	unsigned i = 0;
	int exact = 1;
	while (fmt[i] != '\0') {
		u8 flags = 0, width = 0, prec = 0xff, lng = 0;
		if (fmt[i] != '%') { out_put(k, (u8) fmt[i], OUT_LIT); ++i; continue; }
		++i;
		if (fmt[i] == '%') { out_put(k, '%', OUT_LIT); ++i; continue; }
		while (fmt[i] == '-' || fmt[i] == '0') { flags |= (fmt[i] == '-') ? 1 : 2; ++i; }
		while (fmt[i] >= '0' && fmt[i] <= '9') { width = (u8) (width * 10 + (fmt[i] - '0')); ++i; }
		if (fmt[i] == '.') { ++i; prec = 0; while (fmt[i] >= '0' && fmt[i] <= '9') { prec = (u8) (prec * 10 + (fmt[i] - '0')); ++i; } }
		while (fmt[i] == 'l') { ++lng; ++i; }
		switch (fmt[i]) {
		case 's': out_str(k, va_arg(ap, const char *), flags, width, prec); break;
		case 'c':
			if (!(flags & 1)) out_pad(k, 1, width);
			{ long c; OUT_ARG_INT(ap, c); out_put(k, (u8) c, OUT_CHR); }
			if (flags & 1) out_pad(k, 1, width);
			break;
		case 'd': case 'i': {
			long sv; u64 v;
			if (lng) OUT_ARG_LONG(ap, sv); else { OUT_ARG_INT(ap, sv); sv = (long) (int) sv; }
			v = (u64) sv;
			CHECK(k->buf == NULL, "output model: %d inside a safe_printf format is not rendered");
			out_token('d', flags, width, prec, v); exact = 0;
			break;
		}
		case 'u': {
			long sv; u64 v;
			if (lng) OUT_ARG_LONG(ap, sv); else { OUT_ARG_INT(ap, sv); sv = (long) (unsigned int) sv; }
			v = (u64) sv;
			CHECK(k->buf == NULL, "output model: %u inside a safe_printf format is not rendered");
			out_token('u', flags, width, prec, v); exact = 0;
			break;
		}
		case 'x': {
			long sv; unsigned bits = OUT_ARG_BITS(ap, lng);
			if (lng) OUT_ARG_LONG(ap, sv); else { OUT_ARG_INT(ap, sv); sv = (long) (unsigned int) sv; }
			out_hex(k, flags, width, (u64) sv, bits);
			break;
		}
		case 'f': {
			double d;
			OUT_ARG_DOUBLE(ap, d);
			CHECK(k->buf == NULL, "output model: %f inside a safe_printf format is not rendered");
			out_token_f('f', flags, width, prec, 0, (float) d); exact = 0;
			break;
		}
		default:
			CHECK(0, "output model: conversion used by the tool is modelled");
		}
		++i;
	}
	/* number of bytes written, when it is known without rendering digits (the list headings use it) */
	return exact ? (int) k->n : (int) k->n + 1;
}

static OutSink out_stream_sink(void) { OutSink k; k.buf = NULL; k.n = 0; k.cap = 0; return k; }

int verif_printf(const char *fmt, ...) { va_list ap; int r; OutSink k = out_stream_sink(); va_start(ap, fmt); r = out_vformat(&k, fmt, ap); va_end(ap); return r; }
int verif_fprintf(FILE *f, const char *fmt, ...) { va_list ap; int r; OutSink k = out_stream_sink(); (void) f; va_start(ap, fmt); r = out_vformat(&k, fmt, ap); va_end(ap); return r; }
int verif_vprintf(const char *fmt, va_list ap) { OutSink k = out_stream_sink(); return out_vformat(&k, fmt, ap); }
int verif_vfprintf(FILE *f, const char *fmt, va_list ap) { OutSink k = out_stream_sink(); (void) f; return out_vformat(&k, fmt, ap); }
int verif_putchar(int c) { out_byte((u8) c, OUT_CHR); return c; }
int verif_fputc(int c, FILE *f) { (void) f; out_byte((u8) c, OUT_CHR); return c; }
int verif_fputs(const char *s, FILE *f) { OutSink k = out_stream_sink(); (void) f; out_str(&k, s, 0, 0, 0xff); return 1; }
int verif_puts(const char *s) { OutSink k = out_stream_sink(); out_str(&k, s, 0, 0, 0xff); out_byte('\n', OUT_LIT); return 1; }
int verif_fflush(FILE *f) { (void) f; return 0; }
/* fwrite is only used by 'lha p' to dump member data: deliberately outside C18 (counted, not checked) */
size_t verif_fwrite(const void *p, size_t sz, size_t n, FILE *f) { (void) p; (void) f; out_data_bytes += (unsigned) (sz * n); return n; }

/* lha_arch_vasprintf: same interpreter, rendering into a static buffer that the real safe_output() rewrites */
/* sprintf / snprintf into a caller buffer (not used by the pinned tool sources; modelled so that a change that formats
 * archive data into a buffer and prints the buffer later is still decided instead of leaving the harness incomplete) */
int verif_sprintf(char *dst, const char *fmt, ...)
{
	va_list ap; OutSink k; int r;
	k.buf = dst; k.n = 0; k.cap = VAS_MAX;
	va_start(ap, fmt); r = out_vformat(&k, fmt, ap); va_end(ap);
	dst[k.n] = '\0';
	(void) r;
	return (int) k.n;
}
int verif_snprintf(char *dst, size_t cap, const char *fmt, ...)
{
	va_list ap; OutSink k; int r;
	k.buf = dst; k.n = 0; k.cap = cap < VAS_MAX ? (unsigned) cap : VAS_MAX;
	va_start(ap, fmt); r = out_vformat(&k, fmt, ap); va_end(ap);
	if (cap > 0) dst[k.n] = '\0';
	(void) r;
	return (int) k.n;
}

/* vsnprintf / vsprintf into a caller buffer (C99: at most cap-1 bytes and a terminator are stored, the FULL formatted
 * length is returned).  Every byte of the destination up to min(cap, VAS_MAX) is written - formatted bytes first, then
 * concrete NULs - so that string loops over the destination stop at a concrete bound (a loop the harness plan has never
 * seen has no unwindset entry). */
static char vsn_tmp[VAS_MAX];
int verif_vsnprintf(char *dst, size_t cap, const char *fmt, va_list ap)
{
	OutSink k; unsigned i, m;
	for (i = 0; i < VAS_MAX; ++i) vsn_tmp[i] = '\0';
	k.buf = vsn_tmp; k.n = 0; k.cap = VAS_MAX;
	(void) out_vformat(&k, fmt, ap);
	if (cap > 0) {
		m = k.n < cap - 1 ? k.n : (unsigned) (cap - 1);
		for (i = 0; i < VAS_MAX; ++i) if (i < cap) dst[i] = (i < m && i + 1 < VAS_MAX && i + 1 < cap) ? vsn_tmp[i] : '\0';   /* last byte: a concrete NUL */
	}
	return (int) k.n;
}
int verif_vsprintf(char *dst, const char *fmt, va_list ap) { return verif_vsnprintf(dst, VAS_MAX, fmt, ap); }

static char vas_buf[VAS_MAX];
static unsigned vas_live, vas_calls;
SEQ_DECL(u8, vasfail);
int lha_arch_vasprintf(char **result, char *fmt, va_list args)
{
	OutSink k;
	unsigned i;
	CHECK(vas_live == 0, "output model: one formatted string alive at a time");
	/* the allocation inside vasprintf may fail: no string, negative result (whatever the tool does then must still not
	 * put archive bytes on the terminal unsanitised).  Opt-in (-DVAS_MAY_FAIL, used by the harness of safe.c itself):
	 * one more branch per formatted call made the whole-listing harnesses of C19 run out of time. */
#ifdef VAS_MAY_FAIL
	if (SEQ_NEXT(u8, vasfail) & 1) { *result = NULL; return -1; }
#endif
	/* the buffer is cleared with concrete writes and the terminator is never stored at a (possibly symbolic)
	 * position: everything behind the formatted bytes stays a concrete NUL, so the string loops of the real
	 * safe_output() and of the model stop at a concrete bound */
	for (i = 0; i < VAS_MAX; ++i) vas_buf[i] = '\0';
	k.buf = vas_buf; k.n = 0; k.cap = VAS_MAX;
	(void) out_vformat(&k, fmt, args);
	vas_live = 1; ++vas_calls;
	*result = vas_buf;
	return (int) k.n;
}
void verif_free_vas(void *p) { if (p == (void *) vas_buf) vas_live = 0; }
#endif
