/* Model of the libc output functions used by the tool (printf, fprintf, putchar, puts-less).  The format
 * string of every real call site is interpreted: literal bytes and every byte of every %s / %c argument go
 * through out_byte(), which (C18) asserts that the byte is printable ASCII or one of the tool's own \n \r \t.
 * Numeric conversions are consumed with the right argument type and reported as tokens (kind, flags, width,
 * precision, value) without being rendered to digits (digits are printable by construction; C19 compares
 * tokens).  lha_arch_vasprintf is modelled by a bounded formatter so that the real safe_output() sees the
 * real formatted string. */
#ifndef OUT_MODEL_H
#define OUT_MODEL_H
#include "verif.h"
#include <stdarg.h>
#include <stdio.h>

#ifndef OUT_MAXSTR
#define OUT_MAXSTR 8          /* longest %s argument that is followed to its end */
#endif
#ifndef OUT_TOKENS
#define OUT_TOKENS 96
#endif
typedef struct { u8 kind; u8 flags; u8 width; u8 prec; u64 value; } OutTok;   /* kind: 'b' byte, 'd','u','x','f' */
static OutTok out_tok[OUT_TOKENS];
static unsigned out_n;
static unsigned out_unprintable;     /* ghost: number of bytes outside the allowed set */
static int out_check = 1;

static void out_token(u8 kind, u8 flags, u8 width, u8 prec, u64 value)
{
	if (out_n < OUT_TOKENS) {
		out_tok[out_n].kind = kind; out_tok[out_n].flags = flags; out_tok[out_n].width = width;
		out_tok[out_n].prec = prec; out_tok[out_n].value = value;
	}
	++out_n;
}
static void out_byte(u8 c)
{
	int ok = (c >= 0x20 && c <= 0x7e) || c == '\n' || c == '\r' || c == '\t';
	if (!ok) ++out_unprintable;
	if (out_check) CHECK(ok, "every output byte is printable ASCII (or the tool's own LF/CR/TAB)");
	out_token('b', 0, 0, 0, c);
}

static int out_vformat(const char *fmt, va_list ap)
{
	unsigned i = 0;
	while (fmt[i] != '\0') {
		if (fmt[i] != '%') { out_byte((u8) fmt[i]); ++i; continue; }
		++i;
		if (fmt[i] == '%') { out_byte('%'); ++i; continue; }
		{
			u8 flags = 0, width = 0, prec = 0xff, lng = 0;
			while (fmt[i] == '-' || fmt[i] == '0') { flags |= (fmt[i] == '-') ? 1 : 2; ++i; }
			while (fmt[i] >= '0' && fmt[i] <= '9') { width = (u8) (width * 10 + (fmt[i] - '0')); ++i; }
			if (fmt[i] == '.') { ++i; prec = 0; while (fmt[i] >= '0' && fmt[i] <= '9') { prec = (u8) (prec * 10 + (fmt[i] - '0')); ++i; } }
			while (fmt[i] == 'l') { ++lng; ++i; }
			switch (fmt[i]) {
			case 's': {
				const char *s = va_arg(ap, const char *);
				unsigned k, len = 0;
				for (k = 0; k < OUT_MAXSTR && s[k] != '\0'; ++k) ++len;
				CHECK(s[len] == '\0', "output model: %s argument within the modelled string bound");
				if (!(flags & 1)) for (k = len; k < width; ++k) out_byte(' ');
				for (k = 0; k < len; ++k) out_byte((u8) s[k]);
				if (flags & 1) for (k = len; k < width; ++k) out_byte(' ');
				break;
			}
			case 'c': out_byte((u8) va_arg(ap, int)); break;
			case 'd': case 'i':
				if (lng) out_token('d', flags, width, prec, (u64) va_arg(ap, long));
				else out_token('d', flags, width, prec, (u64) (long) va_arg(ap, int));
				break;
			case 'u':
				if (lng) out_token('u', flags, width, prec, (u64) va_arg(ap, unsigned long));
				else out_token('u', flags, width, prec, (u64) va_arg(ap, unsigned int));
				break;
			case 'x':
				out_token('x', flags, width, prec, (u64) va_arg(ap, unsigned int));
				break;
			case 'f': {
				double d = va_arg(ap, double);
				float f = (float) d;
				u32 bits;
				__builtin_memcpy(&bits, &f, 4);
				out_token('f', flags, width, prec, bits);
				break;
			}
			default:
				CHECK(0, "output model: conversion used by the tool is modelled");
			}
			++i;
		}
	}
	return 0;
}
int verif_printf(const char *fmt, ...) { va_list ap; int r; va_start(ap, fmt); r = out_vformat(fmt, ap); va_end(ap); return r; }
int verif_fprintf(FILE *f, const char *fmt, ...) { va_list ap; int r; (void) f; va_start(ap, fmt); r = out_vformat(fmt, ap); va_end(ap); return r; }
int verif_putchar(int c) { out_byte((u8) c); return c; }
int verif_fflush(FILE *f) { (void) f; return 0; }

/* lha_arch_vasprintf: only literal text and %s occur in the tool's safe_printf/safe_fprintf calls */
#ifndef VAS_MAX
#define VAS_MAX 48
#endif
static char vas_buf[VAS_MAX];
static unsigned vas_live;
int lha_arch_vasprintf(char **result, char *fmt, va_list args)
{
	unsigned i = 0, o = 0, k;
	CHECK(vas_live == 0, "output model: one formatted string alive at a time");
	while (fmt[i] != '\0') {
		if (fmt[i] == '%' && fmt[i + 1] == 's') {
			const char *s = va_arg(args, const char *);
			for (k = 0; k < OUT_MAXSTR && s[k] != '\0'; ++k) { CHECK(o < VAS_MAX - 1, "output model: formatted string fits"); vas_buf[o++] = s[k]; }
			CHECK(s[k] == '\0', "output model: %s argument within the modelled string bound");
			i += 2;
		} else {
			CHECK(fmt[i] != '%', "output model: safe_printf formats contain only %s conversions");
			CHECK(o < VAS_MAX - 1, "output model: formatted string fits");
			vas_buf[o++] = fmt[i++];
		}
	}
	vas_buf[o] = '\0';
	vas_live = 1;
	*result = vas_buf;
	return (int) o;
}
void verif_free_vas(void *p) { if (p == (void *) vas_buf) vas_live = 0; }
#endif
