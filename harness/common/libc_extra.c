/* Bodies for libc string functions that CBMC 6.11's built-in library does not model.  Linked into every harness
 * (goto-cc keeps a body only if something calls it; functions that CBMC does model keep CBMC's own body because
 * these names are not in its library).  Without them a change to the code under test that starts using one of
 * these functions would make every affected harness "harness-incomplete" instead of being decided. */
#include <stddef.h>
size_t strspn(const char *s, const char *accept)
{
	size_t n = 0;
	for (; s[n] != '\0'; ++n) {
		const char *a = accept;
		int found = 0;
		for (; *a != '\0'; ++a) if (*a == s[n]) { found = 1; break; }
		if (!found) break;
	}
	return n;
}
size_t strcspn(const char *s, const char *reject)
{
	size_t n = 0;
	for (; s[n] != '\0'; ++n) {
		const char *r = reject;
		for (; *r != '\0'; ++r) if (*r == s[n]) return n;
	}
	return n;
}
char *strpbrk(const char *s, const char *accept)
{
	size_t n = strcspn(s, accept);
	return s[n] != '\0' ? (char *) (s + n) : (char *) 0;
}
void *memrchr(const void *s, int c, size_t n)
{
	const unsigned char *p = (const unsigned char *) s;
	while (n > 0) { --n; if (p[n] == (unsigned char) c) return (void *) (p + n); }
	return (void *) 0;
}
size_t strnlen(const char *s, size_t maxlen)
{
	size_t n = 0;
	while (n < maxlen && s[n] != '\0') ++n;
	return n;
}
char *strstr(const char *h, const char *n)
{
	size_t i, j;
	if (n[0] == '\0') return (char *) h;
	for (i = 0; h[i] != '\0'; ++i) {
		for (j = 0; n[j] != '\0' && h[i + j] == n[j]; ++j) { }
		if (n[j] == '\0') return (char *) (h + i);
	}
	return (char *) 0;
}
char *strcasestr(const char *h, const char *n)
{
	size_t i, j;
	if (n[0] == '\0') return (char *) h;
	for (i = 0; h[i] != '\0'; ++i) {
		for (j = 0; n[j] != '\0'; ++j) {
			int a = h[i + j], b = n[j];
			if (a >= 'A' && a <= 'Z') a += 32;
			if (b >= 'A' && b <= 'Z') b += 32;
			if (a == '\0' || a != b) break;
		}
		if (n[j] == '\0') return (char *) (h + i);
	}
	return (char *) 0;
}
void *memmem(const void *h, size_t hl, const void *n, size_t nl)
{
	size_t i, j;
	if (nl == 0) return (void *) h;
	for (i = 0; i + nl <= hl; ++i) {
		for (j = 0; j < nl && ((const unsigned char *) h)[i + j] == ((const unsigned char *) n)[j]; ++j) { }
		if (j == nl) return (void *) ((const unsigned char *) h + i);
	}
	return (void *) 0;
}

/* <ctype.h>: glibc's macros index the tables returned by these three functions; model = the "C" locale
 * (what the tool runs in: it never calls setlocale) */
#include "ctype_tables.h"
const unsigned short **__ctype_b_loc(void)
{
	static const unsigned short *p = verif_ctype_b + 128;
	return &p;
}
const int **__ctype_tolower_loc(void)
{
	static const int *p = verif_ctype_lower + 128;
	return &p;
}
const int **__ctype_toupper_loc(void)
{
	static const int *p = verif_ctype_upper + 128;
	return &p;
}
