/* Decoder input callback drawing from a symbolic byte array, with symbolic short reads.
 * Contract modelled (public/lha_decoder.h): returns the number of bytes stored, 0 = no more data,
 * never more than buf_len.  The harness fills cb_data/cb_len/cb_short before use. */
#ifndef STREAM_CB_H
#define STREAM_CB_H
#include "verif.h"
#ifndef CB_N
#define CB_N 8
#endif
#ifndef CB_CALLS
#define CB_CALLS 8
#endif
static u8 cb_data[CB_N];
static unsigned cb_len;            /* bytes available in total (<= CB_N) */
static unsigned cb_pos;            /* bytes delivered so far */
static u8 cb_short[CB_CALLS];      /* per call: deliver at most this many (0 = no restriction) */
static unsigned cb_calls;
static unsigned cb_requested;      /* ghost: total bytes requested */

static size_t cb_read(void *buf, size_t buf_len, void *user_data)
{
	unsigned n, i, avail;
	(void) user_data;
	avail = cb_len - cb_pos;
	n = buf_len < avail ? (unsigned) buf_len : avail;
	if (cb_calls < CB_CALLS && cb_short[cb_calls] != 0 && cb_short[cb_calls] < n) {
		n = cb_short[cb_calls];
	}
	++cb_calls;
	cb_requested += (unsigned) buf_len;
	for (i = 0; i < n; ++i) {
		((u8 *) buf)[i] = cb_data[cb_pos + i];
	}
	cb_pos += n;
	return n;
}

/* reference: n bits starting at bit position p of cb_data, most significant bit first */
static unsigned ref_bits(unsigned p, unsigned n)
{
	unsigned v = 0, i;
	for (i = 0; i < n; ++i) {
		unsigned q = p + i;
		v = (v << 1) | ((cb_data[q >> 3] >> (7 - (q & 7))) & 1u);
	}
	return v;
}
#endif
