/* Model of a caller-supplied input source (LHAInputStreamType.read): a symbolic byte string with
 * symbolic short reads; returns 0 at end of data, never more than asked (public/lha_input_stream.h). */
#ifndef SRC_MODEL_H
#define SRC_MODEL_H
#include "verif.h"
#ifndef SRC_N
#define SRC_N 48
#endif
#ifndef SRC_CALLS
#define SRC_CALLS 12
#endif
static u8 src_data[SRC_N];
static unsigned src_len, src_pos, src_calls, src_requested, src_budget;
static u8 src_short[SRC_CALLS];
static int src_read(void *handle, void *buf, size_t buf_len)
{
	unsigned n, i, avail = src_len - src_pos;
	(void) handle;
	n = buf_len < avail ? (unsigned) buf_len : avail;
	if (src_calls < SRC_CALLS && src_short[src_calls] != 0 && src_short[src_calls] < n) n = src_short[src_calls];
	++src_calls;
	src_requested += (unsigned) buf_len;
	if (src_budget) CHECK(src_calls <= src_budget, "step budget: number of source reads is bounded");
#ifndef SRC_NOCOPY   /* harnesses that do not look at the data leave the destination arbitrary */
	for (i = 0; i < n; ++i) ((u8 *) buf)[i] = src_data[src_pos + i];
#else
	(void) i;
#endif
	src_pos += n;
	return (int) n;
}
#endif
