/* Pointer ORDER comparison on a flat address space, inserted by the driver (harness option text_rewrites) at named
 * sites of the scratch copy of the sources.  CBMC 6.11 orders pointers by their UNSIGNED offset inside the object, so
 * the one-before-the-start pointer of the idiom `p = s + strlen(s) - 1; while (p >= s && ...)` compares GREATER than
 * `s` for an empty string - the opposite of what every real (flat address space) build computes - and the loop runs
 * away in the model only.  VERIF_PTR_GE compares the SIGNED offsets, which is the flat-address-space result for two
 * pointers derived from the same object.  (Forming s-1 is undefined behaviour by the letter of the standard but not a
 * memory access; it is outside C08's statement, see DESIGN.md section 5.) */
#ifndef VERIF_PTR_H
#define VERIF_PTR_H
#ifdef __CPROVER__
#define VERIF_PTR_GE(a, b) ((long) __CPROVER_POINTER_OFFSET(a) >= (long) __CPROVER_POINTER_OFFSET(b))
#else
#define VERIF_PTR_GE(a, b) ((a) >= (b))
#endif
#endif
