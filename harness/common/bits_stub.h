/* Replacements for the bit-stream reader functions (the driver renames the real definitions to real_*).
 * Included AFTER the real decoder source, so BitStreamReader is known.
 *   BITS_ANY  : every call returns an arbitrary value of the requested width, or failure (-1) - the
 *               over-approximation used by the memory-safety harnesses.  Asserts the precondition under
 *               which the real functions are safe (n <= 32), which bits.c verifies for the real code.
 *   BITS_SPEC : the bits of a symbolic byte string bs_data[], most significant first, with a cursor -
 *               used by the functional harnesses (refinement shown in C01/bits.c). */
#ifndef BITS_STUB_H
#define BITS_STUB_H
#include "verif.h"
#ifdef BITS_ANY
SEQ_DECL(u32, bitval);
SEQ_DECL(u8, bitfail);
static unsigned bits_calls, bits_consumed;
static int peek_bits(BitStreamReader *reader, unsigned int n)
{
	u32 v;
	(void) reader;
	CHECK(n <= 31, "bit reader precondition: at most 31 bits per request (a 32-bit request would shift the 32-bit buffer by its full width)");
	++bits_calls;
	if (n == 0) return 0;
	if (SEQ_NEXT(u8, bitfail) & 1) return -1;
	v = SEQ_NEXT(u32, bitval);
	return (int) (n >= 32 ? v : (v & ((1u << n) - 1u)));
}
static int read_bits(BitStreamReader *reader, unsigned int n)
{
	int r = peek_bits(reader, n);
	if (r >= 0) bits_consumed += n;
	return r;
}
static int read_bit(BitStreamReader *reader) { return read_bits(reader, 1); }
#endif
#ifdef BITS_SPEC
#ifndef BS_N
#define BS_N 12
#endif
static u8 bs_data[BS_N];
static unsigned bs_bits;          /* number of valid bits (<= 8 * BS_N) */
static unsigned bs_pos;           /* cursor */
static unsigned bs_ref(unsigned p, unsigned n)
{
	unsigned v = 0, i;
	for (i = 0; i < n; ++i) {
		unsigned q = p + i;
		v = (v << 1) | ((bs_data[q >> 3] >> (7 - (q & 7))) & 1u);
	}
	return v;
}
static int peek_bits(BitStreamReader *reader, unsigned int n)
{
	(void) reader;
	CHECK(n <= 25, "functional harness: requests of at most 25 bits (the range bits.c shows exact)");
	if (n == 0) return 0;
	if (bs_pos + n > bs_bits) return -1;
	return (int) bs_ref(bs_pos, n);
}
static int read_bits(BitStreamReader *reader, unsigned int n)
{
	int r = peek_bits(reader, n);
	if (r >= 0) bs_pos += n;
	return r;
}
static int read_bit(BitStreamReader *reader) { return read_bits(reader, 1); }
#endif
#endif
