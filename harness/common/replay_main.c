/* native replay entry: calls the harness entry function once */
void HARNESS_MAIN(void);
int main(void) { HARNESS_MAIN(); return 0; }
