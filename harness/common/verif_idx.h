/* Index guard inserted by the driver (harness option member_bounds) around every access `p->member[index]` /
 * `s.member[index]` to an ARRAY member of a struct in the scratch copy of the sources.  Needed because CBMC 6.11's
 * --bounds-check only compares an access through a pointer to a struct with the size of the WHOLE object and has no
 * lower bound at all (p->a[-3] and an overflow from one member array into the next are both "SUCCESS"); with the
 * guard every member-array index is asserted to lie inside its own array. */
#ifndef VERIF_IDX_H
#define VERIF_IDX_H
#ifdef __CPROVER__
static inline long verif_idx(long i, long n)
{
	__CPROVER_assert(i >= 0 && i < n, "MEMBER-ARRAY index within its own array (driver-inserted guard)");
	return i;
}
#else
#include <stdio.h>
#include <stdlib.h>
static inline long verif_idx(long i, long n)
{
	if (!(i >= 0 && i < n)) { printf("REPLAY-CHECK-FAIL: member array index %ld outside [0,%ld)\n", i, n); fflush(stdout); exit(1); }
	return i;
}
#endif
#endif
