/* glibc's islower/tolower go through __ctype_b_loc()/__ctype_tolower_loc(), which have no body under CBMC.
 * Model: the "C" locale (ASCII).  Included before the real source so that <ctype.h> macros are overridden. */
#ifndef CTYPE_MODEL_H
#define CTYPE_MODEL_H
#include <ctype.h>
#undef islower
#undef tolower
#undef isupper
#undef toupper
static int verif_islower(int c) { return c >= 'a' && c <= 'z'; }
static int verif_tolower(int c) { return (c >= 'A' && c <= 'Z') ? c + ('a' - 'A') : c; }
#define islower(c) verif_islower(c)
#define tolower(c) verif_tolower(c)
#endif
