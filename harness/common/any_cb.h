/* Arbitrary decoder input callback for safety harnesses: arbitrary bytes, arbitrary short reads,
 * end of data at any time.  Values come from pre-drawn INPUT arrays so that counterexamples replay. */
#ifndef ANY_CB_H
#define ANY_CB_H
#include "verif.h"
#ifndef ACB_BYTES
#define ACB_BYTES 16
#endif
#ifndef ACB_CALLS
#define ACB_CALLS 8
#endif
static u8 acb_bytes[ACB_BYTES];
static u8 acb_counts[ACB_CALLS];
static unsigned acb_call, acb_used;
static size_t any_cb(void *buf, size_t buf_len, void *user_data)
{
	unsigned n, i;
	(void) user_data;
	n = acb_call < ACB_CALLS ? acb_counts[acb_call] : 0;
	++acb_call;
	if (n > buf_len) n = (unsigned) buf_len;
	if (n > ACB_BYTES - acb_used) n = ACB_BYTES - acb_used;
	for (i = 0; i < n; ++i) ((u8 *) buf)[i] = acb_bytes[acb_used + i];
	acb_used += n;
	return n;
}
static void acb_setup(const u8 *bytes_in, const u8 *counts_in)
{
	unsigned i;
	for (i = 0; i < ACB_BYTES; ++i) acb_bytes[i] = bytes_in[i];
	for (i = 0; i < ACB_CALLS; ++i) acb_counts[i] = counts_in[i];
}
#define ACB_SETUP(b, c) acb_setup((b), (c))
#endif
