/* Reference CRC-16/ARC written from the definition (reflected 0xA001, init 0, no xorout). */
#ifndef REF_CRC16_H
#define REF_CRC16_H
#include <stdint.h>
static uint16_t ref_crc16_step(uint16_t c, uint8_t b)
{
	unsigned k;
	c ^= b;
	for (k = 0; k < 8; ++k) {
		c = (c & 1) ? (uint16_t) ((c >> 1) ^ 0xA001) : (uint16_t) (c >> 1);
	}
	return c;
}
static uint16_t ref_crc16(uint16_t c, const uint8_t *p, unsigned n)
{
	unsigned i;
	for (i = 0; i < n; ++i) {
		c = ref_crc16_step(c, p[i]);
	}
	return c;
}
#endif
