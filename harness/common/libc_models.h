/* Byte-loop models of libc memory functions, used where CBMC's built-in models of memcpy/memmove/memcmp
 * with a symbolic length are too expensive.  Enabled per harness with -Dmemcpy=verif_memcpy etc.
 * (lengths are bounded by small constants in those harnesses; the loops get unwinding assertions). */
#ifndef LIBC_MODELS_H
#define LIBC_MODELS_H
#include <stddef.h>
void *verif_memcpy(void *d, const void *s, size_t n)
{
	size_t i;
	for (i = 0; i < n; ++i) ((unsigned char *) d)[i] = ((const unsigned char *) s)[i];
	return d;
}
void *verif_memmove(void *d, const void *s, size_t n)
{
	size_t i;
	if ((unsigned char *) d <= (const unsigned char *) s) {
		for (i = 0; i < n; ++i) ((unsigned char *) d)[i] = ((const unsigned char *) s)[i];
	} else {
		for (i = n; i > 0; --i) ((unsigned char *) d)[i - 1] = ((const unsigned char *) s)[i - 1];
	}
	return d;
}
int verif_memcmp(const void *a, const void *b, size_t n)
{
	size_t i;
	for (i = 0; i < n; ++i) {
		unsigned char x = ((const unsigned char *) a)[i], y = ((const unsigned char *) b)[i];
		if (x != y) return x < y ? -1 : 1;
	}
	return 0;
}
#endif
