/* C06 / H06.glob: src/filter.c match_glob(pattern, string) == the textbook definition of wildcard matching:
 *   '*' matches any run of characters (including the empty run), '?' matches exactly one character, every
 *   other pattern byte matches itself (case-sensitive), and the whole string must be consumed.
 * All patterns of <= GL bytes and strings of <= NL bytes (all byte values).  The recursion of the real function
 * is bounded by the number of '*' (<= GL): the plan gives that bound and CBMC's recursion unwinding assertion
 * proves it sufficient. */
#include "verif.h"
#include "src/filter.c"

#ifndef GL
#define GL 4
#endif
#ifndef NL
#define NL 4
#endif

/* Reference: m[i][j] <=> pattern suffix starting at i matches string suffix starting at j (table filled from the
 * ends; the definition read off directly, no search order involved). */
static int ref_glob(const char *g, unsigned gl, const char *s, unsigned sl)
{
	unsigned char m[GL + 1][NL + 1];
	int i, j;
	for (i = GL; i >= 0; --i) {
		for (j = NL; j >= 0; --j) {
			int v;
			if ((unsigned) i > gl || (unsigned) j > sl) v = 0;          /* outside the strings: unused */
			else if ((unsigned) i == gl) v = ((unsigned) j == sl);
			else if (g[i] == '*') v = m[i + 1][j] || ((unsigned) j < sl && m[i][j + 1]);
			else if ((unsigned) j == sl) v = 0;
			else v = (g[i] == '?' || g[i] == s[j]) && m[i + 1][j + 1];
			m[i][j] = (unsigned char) v;
		}
	}
	return m[0][0];
}

void harness(void)
{
	INPUT_ARRAY(u8, pat, GL + 1); INPUT_ARRAY(u8, str, NL + 1);
	static char g[GL + 1], s[NL + 1];
	unsigned i, gl, sl;
	int got, want;
	ASSUME(pat[GL] == 0 && str[NL] == 0);
	for (i = 0; i <= GL; ++i) g[i] = (char) pat[i];
	for (i = 0; i <= NL; ++i) s[i] = (char) str[i];
	for (gl = 0; g[gl] != '\0'; ++gl) ;
	for (sl = 0; s[sl] != '\0'; ++sl) ;
	got = match_glob(g, s);
	want = ref_glob(g, gl, s, sl);
	CHECK((got != 0) == (want != 0), "C06: match_glob agrees with the definition of '*'/'?' matching");
	if (gl == GL && sl == NL && GL >= 3 && NL >= 3 && g[0] == '*' && g[2] == '*' && g[1] != '*' && g[1] != '?' && got && s[0] != g[1]) WITNESS("*x*.. matches, first star takes a non-empty run");
	if (gl == 1 && g[0] == '*' && sl == 0 && got) WITNESS("'*' matches the empty string");
	if (gl == 2 && sl == 2 && g[0] == '?' && g[1] == 'a' && s[1] == 'A' && !got) WITNESS("case-sensitive");
	if (gl == GL && sl == NL && g[0] == '*' && g[GL - 1] == '*' && g[1] == '*' && got) WITNESS("all-star prefix");
	WITNESS("end");
}
