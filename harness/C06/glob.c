/* C06 / H06.glob: src/filter.c match_glob(pattern, string) == the textbook definition of wildcard matching:
 *   '*' matches any run of characters (including the empty run), '?' matches exactly one character, every
 *   other pattern byte matches itself (case-sensitive), and the whole string must be consumed.
 * ALL patterns of <= GL bytes and ALL strings of <= NL bytes (all byte values).  To keep the pointers of the
 * recursive real function concrete during symbolic execution the space is cut into shapes: (pattern length,
 * which pattern positions hold '*', string length) is enumerated concretely - every shape is checked in the
 * same run - and all the other bytes (including '?') are symbolic. */
#include "verif.h"
#include "src/filter.c"

#ifndef GL
#define GL 4
#endif
#ifndef NL
#define NL 4
#endif

/* Reference: m[i][j] <=> pattern suffix starting at i matches string suffix starting at j (table filled from the
 * ends; the definition read off directly, no search order involved). */
static int ref_glob(const char *g, unsigned gl, const char *s, unsigned sl)
{
	unsigned char m[GL + 1][NL + 1];
	int i, j;
	for (i = (int) gl; i >= 0; --i) {
		for (j = (int) sl; j >= 0; --j) {
			int v;
			if ((unsigned) i == gl) v = ((unsigned) j == sl);
			else if (g[i] == '*') v = m[i + 1][j] || ((unsigned) j < sl && m[i][j + 1]);
			else if ((unsigned) j == sl) v = 0;
			else v = (g[i] == '?' || g[i] == s[j]) && m[i + 1][j + 1];
			m[i][j] = (unsigned char) v;
		}
	}
	return m[0][0];
}

static u8 pat_b[GL], str_b[NL];         /* the symbolic bytes: pattern bytes that are not '*', string bytes */
static unsigned n_match, n_nomatch, n_star_empty, n_backtrack;

static void check_shape(unsigned gl, unsigned mask, unsigned sl)
{
	char g[GL + 1], s[NL + 1];
	unsigned i;
	int got, want;
	for (i = 0; i < gl; ++i) g[i] = ((mask >> i) & 1) ? '*' : (char) pat_b[i];
	g[gl] = '\0';
	for (i = 0; i < sl; ++i) s[i] = (char) str_b[i];
	s[sl] = '\0';
	got = match_glob(g, s);
	want = ref_glob(g, gl, s, sl);
	CHECK((got != 0) == (want != 0), "C06: match_glob agrees with the definition of '*'/'?' matching");
	if (got) ++n_match; else ++n_nomatch;
	if (gl == 1 && mask == 1 && sl == 0 && got) ++n_star_empty;
	/* "*x*y"-like pattern on a full-length string where the first x in the string is not the right one */
	if (gl == GL && GL >= 4 && mask == 5 && sl == NL && NL >= 4 && got && s[0] == g[1] && s[1] != g[3] && s[2] == g[1]) ++n_backtrack;
}

void harness(void)
{
	INPUT_ARRAY(u8, pat, GL); INPUT_ARRAY(u8, str, NL);
	unsigned gl, mask, sl, i;
	for (i = 0; i < GL; ++i) { ASSUME(pat[i] != 0 && pat[i] != '*'); pat_b[i] = pat[i]; }
	for (i = 0; i < NL; ++i) { ASSUME(str[i] != 0); str_b[i] = str[i]; }
	for (gl = 0; gl <= GL; ++gl)
		for (mask = 0; mask < (1u << gl); ++mask)
			for (sl = 0; sl <= NL; ++sl)
				check_shape(gl, mask, sl);
	if (n_star_empty == 1) WITNESS("'*' matches the empty string");
	if (n_backtrack == 1) WITNESS("second star has to skip a false start");
	if (pat[0] == 'a' && str[0] == 'A' && n_match >= 1 && n_nomatch >= 1) WITNESS("case-sensitive: some shapes match, some do not");
	WITNESS("end");
}
