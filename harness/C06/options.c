/* C06 / H06.overwrite (options part): src/main.c parse_options maps the option letters after the command letter
 * to the option fields:  f -> overwrite all;  i -> ignore stored directory paths;  n -> dry run;  v -> verbose;
 * q[digit] -> quiet level (digit, default 2) and overwrite all;  w[=]DIR -> extract into DIR (rest of the
 * argument);  any other letter -> rejected.  All option strings of <= N bytes. */
#include "verif.h"
#include <stdio.h>
#include <stdlib.h>
#include <string.h>
#define main lha_main
#include "src/main.c"
#undef main

#ifndef N
#define N 5
#endif

void harness(void)
{
	INPUT_ARRAY(u8, arg, N + 1);
	static char s[N + 1];
	LHAOptions o;
	unsigned i;
	int ok;
	/* reference */
	int r_ok = 1, r_policy = LHA_OVERWRITE_PROMPT, r_quiet = 0, r_verbose = 0, r_dry = 0, r_use_path = 1, r_w = -1;

	ASSUME(arg[N] == 0);
	for (i = 0; i <= N; ++i) s[i] = (char) arg[i];
	init_options(&o);
	CHECK(o.overwrite_policy == LHA_OVERWRITE_PROMPT && o.quiet == 0 && o.verbose == 0 && o.dry_run == 0 && o.extract_path == NULL && o.use_path == 1,
	      "C06/C19: defaults - ask before overwriting, not quiet, real run, stored paths used, current directory");
	ok = parse_options(s, &o);

	i = 0;
	while (s[i] != '\0' && r_ok && r_w < 0) {
		char c = s[i];
		if (c == 'f') { r_policy = LHA_OVERWRITE_ALL; ++i; }
		else if (c == 'i') { r_use_path = 0; ++i; }
		else if (c == 'n') { r_dry = 1; ++i; }
		else if (c == 'v') { r_verbose = 1; ++i; }
		else if (c == 'q') {
			r_policy = LHA_OVERWRITE_ALL;
			if (s[i + 1] >= '0' && s[i + 1] <= '9') { r_quiet = s[i + 1] - '0'; i += 2; } else { r_quiet = 2; ++i; }
		}
		else if (c == 'w') { r_w = (int) (s[i + 1] == '=' ? i + 2 : i + 1); }
		else r_ok = 0;
	}
	CHECK((ok != 0) == (r_ok != 0), "C06/C19: exactly the option letters f i n q v w are accepted");
	if (r_ok) {
		CHECK((int) o.overwrite_policy == r_policy, "C06/C19: f and q select 'overwrite all'");
		CHECK(o.quiet == r_quiet, "C06/C19: q[digit] sets the quiet level (2 without digit)");
		CHECK(o.verbose == r_verbose && o.dry_run == r_dry && o.use_path == r_use_path, "C06/C19: v, n, i set verbose, dry-run, ignore-paths");
		if (r_w < 0) CHECK(o.extract_path == NULL, "C06/C19: no w option - no extract directory");
		else CHECK(o.extract_path == s + r_w, "C06/C19: w[=]DIR - the rest of the argument is the extract directory");
	}
	if (ok && r_w == 3 && s[0] == 'q' && s[1] == '1') WITNESS("q1w=D");
	if (ok && r_quiet == 2 && r_use_path == 0 && r_dry && r_policy == LHA_OVERWRITE_ALL && r_verbose) WITNESS("all of f/q i n v");
	if (!ok && s[0] == 'f') WITNESS("rejected after a valid letter");
	WITNESS("end");
}
