/* C06 / H06.macbin: lib/macbinary.c
 *  entry harness_detect: is_macbinary_header(128 bytes, header) <=> reference predicate written from the field
 *      table of the MacBinary envelope MacLHA writes (Z = must be zero, C = compared with the .lzh header,
 *      I = ignored):  0x00 Z | 0x01 C name length (<= 63) | 0x02..0x40 C name, zero padded | 0x41..0x49 I |
 *      0x4a Z | 0x4b..0x51 I | 0x52 Z | 0x53..0x56 data fork length, 0x57..0x5a resource fork length (C: both
 *      plus the 128 envelope bytes, rounded up to a multiple of 128, equal the member length) | 0x5b..0x5e I |
 *      0x5f..0x62 C modification date (seconds since 1904, not before 1970, within 14 h of the header stamp) |
 *      0x63..0x7f Z.   All 128 bytes symbolic; member name of <= FN bytes.
 *  entry harness_strip: macbinary_decoder_init + macbinary_decoder_read over a stub inner decoder that delivers
 *      arbitrary piece sizes and ends at an arbitrary point: when the envelope is recognised the output starts at
 *      inner position 128 and is limited to the data fork (resource fork if there is no data fork); otherwise
 *      (or for members shorter than 128 bytes) the inner stream is passed through unchanged from position 0. */
#include "verif.h"
#include "libc_models.h"
#include <stdlib.h>
#include <string.h>
#define memcpy verif_memcpy
#define memcmp verif_memcmp
#include "lib/macbinary.c"
#undef memcpy
#undef memcmp

#ifndef FN
#define FN 3
#endif

static u32 be32(const u8 *p) { return ((u32) p[0] << 24) | ((u32) p[1] << 16) | ((u32) p[2] << 8) | (u32) p[3]; }

static int ref_is_macbinary(const u8 *d, const char *name, u64 member_len, u32 stamp)
{
	unsigned o, n = d[1], name_len = 0;
	u64 total;
	u32 mod, unix_mod, diff;
	while (name[name_len] != '\0') ++name_len;
	if (n > 63 || n != name_len) return 0;
	for (o = 0; o < 128; ++o) {
		if (o == 0x00 || o == 0x4a || o == 0x52 || o >= 0x63) { if (d[o] != 0) return 0; }
		else if (o >= 0x02 && o <= 0x40) {
			unsigned k = o - 2;
			if (k < n) { if (d[o] != (u8) name[k]) return 0; }
			else if (d[o] != 0) return 0;
		}
	}
	total = (u64) be32(d + 0x53) + (u64) be32(d + 0x57) + 128u;
	total = (total + 127u) / 128u * 128u;
	if (member_len != total) return 0;
	mod = be32(d + 0x5f);
	if (mod < 2082844800u) return 0;
	unix_mod = mod - 2082844800u;
	diff = unix_mod > stamp ? unix_mod - stamp : stamp - unix_mod;
	return diff <= 14u * 60u * 60u;
}

void harness_detect(void)
{
	INPUT_ARRAY(u8, data, 128); INPUT_ARRAY(u8, fname, FN + 1); INPUT(u64, mlen); INPUT(u32, stamp);
	static LHAFileHeader hdr;
	static char nm[FN + 1];
	static u8 d[128];
	unsigned i;
	int got, want;
	ASSUME(fname[FN] == 0);
	for (i = 0; i <= FN; ++i) nm[i] = (char) fname[i];
	for (i = 0; i < 128; ++i) d[i] = data[i];
	/* the real code adds the fork lengths in 32 bits; sums that do not fit (members of 4 GiB) are outside the bound */
	ASSUME((u64) be32(d + 0x53) + (u64) be32(d + 0x57) + 255u <= 0xffffffffu);
	hdr.filename = nm; hdr.length = (size_t) mlen; hdr.timestamp = stamp;
	got = is_macbinary_header(d, &hdr);
	want = ref_is_macbinary(d, nm, mlen, stamp);
	CHECK((got != 0) == (want != 0), "C06: is_macbinary_header <=> the envelope's field table");
	if (got && d[1] == FN && be32(d + 0x53) == 5 && be32(d + 0x57) == 300 && d[0x45] != 0) WITNESS("recognised envelope, both forks, creator set");
	if (!got && want == 0 && d[0] == 0 && d[1] == 2 && nm[2] == 0 && d[2] == (u8) nm[0] && d[3] == (u8) nm[1] && d[0x40] == 1) WITNESS("rejected only because of a non-zero byte in the name padding");
	if (got && stamp > be32(d + 0x5f) - 2082844800u) WITNESS("time zone west of UTC");
	WITNESS("end");
}

/* ------------------------------------------------------------------------------------------------ */
#define CALLS 7
static u8 hdr_bytes[128];
static u64 inner_pos;                    /* bytes delivered by the inner decoder so far */
static unsigned n_calls;
static u32 piece[CALLS];                 /* arbitrary size of each piece; 0 = end of the inner stream */
static int inner_eof;
static uint8_t *last_dest; static size_t last_n, last_r; static u64 last_pos; static unsigned reads_in_call;
static LHADecoder inner_token;
static int in_init;
#ifndef HSPLIT
#define HSPLIT 0      /* 0: envelope arrives in one piece; 1: as 100 + 28 bytes; 2: the stream ends after 100 bytes */
#endif
size_t lha_decoder_read(LHADecoder *dec, uint8_t *buf, size_t buf_len)
{
	size_t r, i;
	CHECK(dec == &inner_token, "C06: reads go to the wrapped decoder");
	if (inner_eof || n_calls >= CALLS) { inner_eof = 1; return 0; }
	r = piece[n_calls++];
	if (r > buf_len) r = buf_len;
	if (r == 0) { inner_eof = 1; return 0; }
	if (reads_in_call == 0) { last_dest = buf; last_n = buf_len; last_r = r; last_pos = inner_pos; }
	++reads_in_call;
	/* only the envelope bytes carry data in this model (delivered during init, at concrete positions - see
	 * HSPLIT); later bytes are identified by their position */
	if (in_init) for (i = 0; i < r; ++i) buf[i] = hdr_bytes[inner_pos + i];
	inner_pos += r;
	return r;
}

void harness_strip(void)
{
	INPUT_ARRAY(u8, data, 128); INPUT_ARRAY(u8, fname, FN + 1); INPUT(u64, mlen); INPUT(u32, stamp);
	INPUT_ARRAY(u32, pieces, CALLS); INPUT(u8, hsplit);
	static LHAFileHeader hdr;
	static char nm[FN + 1];
	static MacBinaryDecoder mb;
	static uint8_t out[OUTPUT_BUFFER_SIZE];
	MacBinaryDecoderClosure closure;
	unsigned i;
	int ok, is_mac, call;
	u64 remaining, out_total = 0, expect_pos;

	ASSUME(fname[FN] == 0);
	for (i = 0; i <= FN; ++i) nm[i] = (char) fname[i];
	for (i = 0; i < 128; ++i) hdr_bytes[i] = data[i];
	ASSUME((u64) be32(hdr_bytes + 0x53) + (u64) be32(hdr_bytes + 0x57) + 255u <= 0xffffffffu);
	ASSUME(mlen <= 0xffffffffu);               /* the archive format stores member lengths in 32 bits */
	for (i = 0; i < CALLS; ++i) piece[i] = pieces[i];
#if HSPLIT == 0
	piece[0] = 128;
#elif HSPLIT == 1
	piece[0] = 100; piece[1] = 28;
#else
	piece[0] = 100; piece[1] = 0;
#endif
	(void) hsplit;
	hdr.filename = nm; hdr.length = (size_t) mlen; hdr.timestamp = stamp;
	closure.decoder = &inner_token; closure.header = &hdr;

	in_init = 1;
	ok = macbinary_decoder_init(&mb, NULL, &closure);
	in_init = 0;
	if (mlen < 128) {
		CHECK(ok && inner_pos == 0 && mb.mb_header_bytes == 0 && mb.stream_remaining == mlen, "C06: members shorter than an envelope are passed through untouched");
		is_mac = 0; expect_pos = 0; remaining = mlen;
	} else if (HSPLIT == 2) {
		CHECK(!ok, "C07: a stream that ends inside the first 128 bytes of a >= 128 byte member is a failure");
#if HSPLIT == 2
		WITNESS("stream ends inside the envelope");
#endif
		return;
	} else {
		CHECK(ok && inner_pos == 128, "C06: exactly 128 bytes are inspected");
		is_mac = ref_is_macbinary(hdr_bytes, nm, mlen, stamp);
		if (is_mac) {
			u32 dfl = be32(hdr_bytes + 0x53), rfl = be32(hdr_bytes + 0x57);
			CHECK(mb.mb_header_bytes == 0, "C06: a recognised envelope is dropped");
			CHECK(mb.stream_remaining == (dfl > 0 ? dfl : rfl), "C06: output is limited to the data fork, or the resource fork when there is no data fork");
		} else {
			CHECK(mb.mb_header_bytes == 128, "C06: unrecognised first 128 bytes are kept for output");
		}
		expect_pos = 128; remaining = mb.stream_remaining;
	}
	for (call = 0; call < 2; ++call) {
		size_t pending = mb.mb_header_bytes, got;
		u64 before = mb.stream_remaining;
		int was_eof = inner_eof;
		reads_in_call = 0;
		got = macbinary_decoder_read(&mb, out);
		if (pending) {
			CHECK(pending == 128 && call == 0 && !is_mac, "C06: kept bytes are emitted once, first");
			for (i = 0; i < 128; ++i) CHECK(out[i] == hdr_bytes[i], "C06: the first 128 bytes of a plain file come out unchanged");
		}
		if (reads_in_call > 0) {
			CHECK(last_dest == out + pending, "C06: stream data is placed directly after what is already in the buffer");
			CHECK(last_pos == expect_pos, "C06: output continues at the next inner position - nothing skipped, nothing repeated");
			CHECK(last_n == (before < OUTPUT_BUFFER_SIZE - pending ? before : OUTPUT_BUFFER_SIZE - pending), "C06: never asks for more than the fork has left or the buffer holds");
			CHECK(got == pending + last_r && mb.stream_remaining == before - last_r, "C06: result counts exactly the bytes delivered");
			expect_pos += last_r;
		} else {
			CHECK(got == pending, "C06: nothing but the kept bytes when the inner stream gives nothing");
			CHECK(was_eof || inner_eof || before == 0 || pending == OUTPUT_BUFFER_SIZE, "C06: ... which only happens at the end");
		}
		CHECK(mb.mb_header_bytes == 0, "C06: kept bytes are not emitted twice");
		if (mb.stream_remaining == 0) CHECK(inner_eof, "C07: at the end of the fork the inner decoder is run to its end (so that its length/CRC verdict is complete)");
		out_total += got;
	}
	CHECK(out_total <= (is_mac ? 0u : (mlen >= 128 ? 128u : 0u)) + remaining, "C06: total output never exceeds the announced length");
#if HSPLIT != 2
	if (is_mac && out_total == be32(hdr_bytes + 0x53) && out_total > 0 && be32(hdr_bytes + 0x57) > 0) WITNESS("data fork delivered completely, resource fork dropped");
	if (!is_mac && mlen >= 128 && out_total > 128) WITNESS("plain file from a Mac archive passed through");
#endif
	if (mlen < 128 && out_total == mlen && mlen > 0) WITNESS("short member");
	WITNESS("end");
}
