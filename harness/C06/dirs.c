/* C06 / H06.dirs (and the C10 clause "directory metadata only for directories this run created"):
 * real lha_reader_next_file / lha_reader_extract (extract_directory, end_of_top_dir, set_directory_metadata,
 * extract_file, open_output_file, set_timestamps_from_header) driven like the tool drives them over a well-formed
 * archive of 3 members, against a small MODEL FILESYSTEM that implements the arch layer with owner permission
 * semantics:
 *    creating an object needs an existing parent directory with owner write+search permission and stamps the
 *    parent's modification time; chmod/utime need the object and search permission on its parent.
 * The nesting comes from a concrete catalogue (one instance per -DCAT); permissions, timestamps, extra flags,
 * ownership results, pre-existing directories and the directory policy are symbolic.
 * Claim at the end of the run, for the two deferring policies (END_OF_DIR is what the tool uses): every entry
 * reported success; every file exists (even below a directory whose recorded mode forbids writing) with its
 * recorded mode and time; every directory this run created has its recorded mode and its recorded time, the
 * time not disturbed afterwards; a directory that existed before is left exactly as it was.  For the PLAIN
 * policy only: metadata directly follows the mkdir and no directory is handed out a second time. */
#include "verif.h"
#include "C10/run_env.h"

#ifndef CAT
#define CAT 0
#endif
#if M != 3
#error "catalogue is written for 3 members"
#endif
/* kind: 'd' directory, 'f' file; par: index of the member that is its parent directory, -1 = extraction root */
#if CAT == 0      /* nested directories, file in the innermost */
#define P0 "a/"
#define N0 NULL
#define K0 'd'
#define R0 -1
#define P1 "a/b/"
#define N1 NULL
#define K1 'd'
#define R1 0
#define P2 "a/b/"
#define N2 "f"
#define K2 'f'
#define R2 1
#elif CAT == 1    /* directory with a file, then a sibling directory */
#define P0 "a/"
#define N0 NULL
#define K0 'd'
#define R0 -1
#define P1 "a/"
#define N1 "f"
#define K1 'f'
#define R1 0
#define P2 "c/"
#define N2 NULL
#define K2 'd'
#define R2 -1
#elif CAT == 2    /* empty directory, then a directory with a file */
#define P0 "a/"
#define N0 NULL
#define K0 'd'
#define R0 -1
#define P1 "c/"
#define N1 NULL
#define K1 'd'
#define R1 -1
#define P2 "c/"
#define N2 "f"
#define K2 'f'
#define R2 1
#elif CAT == 3    /* directory with two files */
#define P0 "a/"
#define N0 NULL
#define K0 'd'
#define R0 -1
#define P1 "a/"
#define N1 "f"
#define K1 'f'
#define R1 0
#define P2 "a/"
#define N2 "g"
#define K2 'f'
#define R2 0
#elif CAT == 4    /* inner directory ends, outer one continues */
#define P0 "a/"
#define N0 NULL
#define K0 'd'
#define R0 -1
#define P1 "a/b/"
#define N1 NULL
#define K1 'd'
#define R1 0
#define P2 "a/"
#define N2 "g"
#define K2 'f'
#define R2 0
#elif CAT == 5    /* name that merely starts like the open directory ("ab/" after "a/") */
#define P0 "a/"
#define N0 NULL
#define K0 'd'
#define R0 -1
#define P1 "a/"
#define N1 "f"
#define K1 'f'
#define R1 0
#define P2 "ab/"
#define N2 NULL
#define K2 'd'
#define R2 -1
#elif CAT == 6    /* NOT contiguous (outside the property's precondition): only the END_OF_FILE policy copes */
#define P0 "a/"
#define N0 NULL
#define K0 'd'
#define R0 -1
#define P1 "c/"
#define N1 NULL
#define K1 'd'
#define R1 -1
#define P2 "a/"
#define N2 "g"
#define K2 'f'
#define R2 0
#define ONLY_END_OF_FILE 1
#elif CAT == 7    /* a directory with two sub-directories: the first one ends while the outer one continues with a LONGER path */
#define P0 "a/"
#define N0 NULL
#define K0 'd'
#define R0 -1
#define P1 "a/b/"
#define N1 NULL
#define K1 'd'
#define R1 0
#define P2 "a/c/"
#define N2 NULL
#define K2 'd'
#define R2 0
#endif
static char cp0[] = P0, cp1[] = P1, cp2[] = P2;
static char cn0[] = "f", cn1[] = "f", cn2[] = "g";
static const int par[3] = { R0, R1, R2 };
static const char kindc[3] = { K0, K1, K2 };

/* ---- model filesystem ---- */
enum { O_NONE = 0, O_FILE = 1, O_DIR = 2 };
static u8 obj[3], dirty[3], made_by_run[3], pre[3];
static u32 mode[3], mtime[3], pre_mode[3], pre_mtime[3];
static u8 chown_ok;
static unsigned n_fake, plain_pending_idx = 99, plain_pending;   /* PLAIN: metadata still expected for this dir */
static unsigned policy_g;

static int idx_of(char *path)
{
	int i = env_index(rd.curr_file);
	CHECK(i >= 0 && path == out_name[i], "C10: the arch layer is handed the caller's output path of the current member");
	return i;
}
static int can_create_in(int p) { return p < 0 || (obj[p] == O_DIR && (mode[p] & 0300) == 0300); }
static int can_search(int p) { return p < 0 || (obj[p] == O_DIR && (mode[p] & 0100) == 0100); }
static void touch_parent(int p) { if (p >= 0) { dirty[p] = 1; mtime[p] = 0xfffffffeu; } }
static void other_member_op(int i) { if (policy_g == LHA_READER_DIR_PLAIN && plain_pending && (unsigned) i != plain_pending_idx) CHECK(0, "C06 (PLAIN): directory metadata directly follows the mkdir"); }

int lha_arch_mkdir(char *path, unsigned int m)
{
	int i = idx_of(path);
	if (i < 0) return 0;
	other_member_op(i);
	CHECK((m & 0300) == 0300, "C06: directories are created writable and searchable for the owner, whatever mode is recorded");
	CHECK((m & 077) == 0 || !(rd.curr_file->extra_flags & LHA_FILE_UNIX_PERMS), "C06: with recorded permissions the directory starts owner-only");
	if (obj[i] != O_NONE || !can_create_in(par[i])) return 0;
	obj[i] = O_DIR; mode[i] = m; mtime[i] = 0xfffffffeu; dirty[i] = 0; made_by_run[i] = 1;
	touch_parent(par[i]);
	if (policy_g == LHA_READER_DIR_PLAIN) {
		plain_pending_idx = (unsigned) i;
		plain_pending = (rd.curr_file->timestamp != 0 ? 1u : 0u) | ((rd.curr_file->extra_flags & LHA_FILE_UNIX_PERMS) ? 2u : 0u);
	}
	return 1;
}
LHAFileType lha_arch_exists(char *path)
{
	int i = idx_of(path);
	if (i < 0) return LHA_FILE_ERROR;
	return obj[i] == O_NONE ? LHA_FILE_NONE : obj[i] == O_DIR ? LHA_FILE_DIRECTORY : LHA_FILE_FILE;
}
FILE *lha_arch_fopen(char *path, int uid, int gid, int perms)
{
	int i = idx_of(path);
	LHAFileHeader *h = rd.curr_file;
	if (i < 0) return NULL;
	other_member_op(i);
	if (h->extra_flags & LHA_FILE_UNIX_PERMS) CHECK(perms == (int) h->unix_perms, "C06: file is created with its recorded permission bits"); else CHECK(perms == -1, "C06: no recorded permissions - default mode");
	if (h->extra_flags & LHA_FILE_UNIX_UID_GID) CHECK(uid == (int) h->unix_uid && gid == (int) h->unix_gid, "C06: recorded owner passed on"); else CHECK(uid == -1 && gid == -1, "C06: no recorded owner");
	if (!can_create_in(par[i])) return NULL;
	obj[i] = O_FILE; mode[i] = perms >= 0 ? (u32) perms : 0600u; mtime[i] = 0xfffffffeu; made_by_run[i] = 1;
	touch_parent(par[i]);
	++env_open_streams;
	return &env_file;
}
int lha_arch_chmod(char *path, int perms)
{
	int i = idx_of(path);
	if (policy_g == LHA_READER_DIR_PLAIN && i >= 0 && (unsigned) i == plain_pending_idx) plain_pending &= ~2u;
	if (i < 0 || obj[i] == O_NONE || !can_search(par[i])) return 0;
	CHECK(made_by_run[i], "C10: permissions are only changed on objects this run created");
	mode[i] = (u32) perms;
	return 1;
}
int lha_arch_chown(char *path, int u, int g)
{
	int i = idx_of(path);
	(void) u; (void) g;
	if (i >= 0) CHECK(made_by_run[i], "C10: ownership is only changed on objects this run created");
	return chown_ok & 1;           /* usually fails for ordinary users; must not matter */
}
int lha_arch_utime(char *path, unsigned int t)
{
	int i = idx_of(path);
	if (policy_g == LHA_READER_DIR_PLAIN && i >= 0 && (unsigned) i == plain_pending_idx) plain_pending &= ~1u;
	if (i < 0 || obj[i] == O_NONE || !can_search(par[i])) return 0;
	CHECK(made_by_run[i], "C10: timestamps are only changed on objects this run created");
	mtime[i] = t; dirty[i] = 0;
	return 1;
}
int lha_arch_symlink(char *path, char *target) { (void) path; (void) target; CHECK(0, "harness: no symlinks in this catalogue"); return 0; }

void harness(void)
{
	INPUT_ARRAY(u32, hextra, 3); INPUT_ARRAY(u32, hperms, 3); INPUT_ARRAY(u32, hts, 3); INPUT_ARRAY(u32, hlen, 3); INPUT_ARRAY(u16, hcrc, 3);
	INPUT_ARRAY(u8, v_pre, 3); INPUT_ARRAY(u32, v_pre_mode, 3); INPUT_ARRAY(u32, v_pre_mtime, 3); INPUT_ARRAY(u8, rdlen, 3);
	INPUT(u8, policy); INPUT(u8, v_chown);
	unsigned i, it;
	int all_ok = 1;
	LHAFileHeader *h = NULL;

	ASSUME(policy <= 2);
#ifdef ONLY_END_OF_FILE
	ASSUME(policy == LHA_READER_DIR_END_OF_FILE);
#endif
	policy_g = policy; chown_ok = v_chown;
	hdrs[0]->path = cp0; hdrs[1]->path = cp1; hdrs[2]->path = cp2;
	hdrs[0]->filename = K0 == 'f' ? cn0 : NULL; hdrs[1]->filename = K1 == 'f' ? cn1 : NULL; hdrs[2]->filename = K2 == 'f' ? cn2 : NULL;
	for (i = 0; i < 3; ++i) {
		memcpy(hdrs[i]->compress_method, kindc[i] == 'd' ? "-lhd-" : "-lh5-", 6);
		hdrs[i]->symlink_target = NULL;
		hdrs[i]->extra_flags = hextra[i]; hdrs[i]->unix_perms = hperms[i]; hdrs[i]->timestamp = hts[i];
		hdrs[i]->unix_uid = 7; hdrs[i]->unix_gid = 8; hdrs[i]->os_type = LHA_OS_TYPE_UNIX;
		hdrs[i]->length = hlen[i]; hdrs[i]->crc = hcrc[i];
		ASSUME(hperms[i] <= 07777);                  /* permission bits as the header parser delivers them for this check */
		/* payload decodes correctly (decoders/CRC are C01-C04/C07's subject) */
		env_dec_ok[i] = 1; env_rd_len[i] = rdlen[i]; env_dec_len[i] = hlen[i]; env_dec_crc[i] = hcrc[i];
		/* a directory may exist before the run (then it is usable: owner rwx); files do not */
		pre[i] = (kindc[i] == 'd') && (v_pre[i] & 1);
		if (pre[i]) { ASSUME((v_pre_mode[i] & 0700) == 0700); obj[i] = O_DIR; mode[i] = pre_mode[i] = v_pre_mode[i]; mtime[i] = pre_mtime[i] = v_pre_mtime[i]; }
	}
	env_reader_init(policy);

	for (it = 0; it < 7; ++it) {
		int idx, r;
		h = lha_reader_next_file(&rd);
		if (h == NULL) break;
		idx = env_index(h);
		CHECK(idx >= 0, "the reader returns one of the archive's headers");
		if (lha_reader_current_is_fake(&rd)) { ++n_fake; CHECK(kindc[idx] == 'd' && made_by_run[idx], "C10: only directories this run created come back for their metadata"); }
		r = lha_reader_extract(&rd, out_name[idx], NULL, NULL);
		if (!r) all_ok = 0;
	}
	CHECK(h == NULL && rd.curr_file_type == CURR_FILE_EOF && rd.dir_stack == NULL, "C06: the run ends with no directory left waiting for its metadata");
	CHECK(env_open_streams == 0, "C20: every output stream was closed");
	CHECK(env_refs[0] == 0 && env_refs[1] == 0 && env_refs[2] == 0, "C20: every header reference taken for the directory stack was released");

	if (policy != LHA_READER_DIR_PLAIN) {
		CHECK(all_ok, "C06: every entry of a well-formed archive extracts successfully");
		for (i = 0; i < 3; ++i) {
			if (kindc[i] == 'f') {
				CHECK(obj[i] == O_FILE, "C06: every file exists - also below a directory whose recorded mode forbids writing");
				if (hts[i] != 0) CHECK(mtime[i] == hts[i], "C06: file has its recorded modification time");
				if (hextra[i] & LHA_FILE_UNIX_PERMS) CHECK(mode[i] == hperms[i], "C06: file has its recorded permission bits");
			} else if (pre[i]) {
				CHECK(obj[i] == O_DIR && mode[i] == pre_mode[i], "C10: a directory that existed before keeps its permissions");
				if (!dirty[i]) CHECK(mtime[i] == pre_mtime[i], "C10: ... and is not re-timed by the tool");
			} else {
				CHECK(obj[i] == O_DIR, "C06: every directory exists");
				if (hextra[i] & LHA_FILE_UNIX_PERMS) CHECK(mode[i] == hperms[i], "C06: directory has its recorded permissions at the end");
				else CHECK(mode[i] == 0777, "C06: directory without recorded permissions keeps the default mode");
				if (hts[i] != 0) CHECK(mtime[i] == hts[i] && !dirty[i], "C06: directory has its recorded modification time, applied after its last child was written");
			}
		}
	} else {
		CHECK(n_fake == 0, "C06 (PLAIN): no directory is handed out twice");
		CHECK(plain_pending == 0, "C06 (PLAIN): metadata applied right after creation");
	}
	{
		int d = par[2] >= 0 ? par[2] : par[1];          /* a directory of the catalogue that has a child */
		unsigned ndirs = (K0 == 'd') + (K1 == 'd') + (K2 == 'd');
#ifndef ONLY_END_OF_FILE
		if (policy == LHA_READER_DIR_END_OF_DIR && n_fake >= 1 && (hextra[d] & LHA_FILE_UNIX_PERMS) && (hperms[d] & 0200) == 0 && !pre[d] && hts[d] != 0)
			WITNESS("read-only directory received its children first");
		if (pre[0] && all_ok && policy == LHA_READER_DIR_END_OF_DIR) WITNESS("pre-existing directory reused and left alone");
		if (policy == LHA_READER_DIR_PLAIN && all_ok) WITNESS("PLAIN policy run");
#endif
		if (policy == LHA_READER_DIR_END_OF_FILE && n_fake == ndirs && (hextra[d] & LHA_FILE_UNIX_PERMS) && (hperms[d] & 0300) == 0) WITNESS("END_OF_FILE: all directories finished at the end, one of them unwritable");
	}
	WITNESS("end");
}
