/* C06 ('p' writes exactly each selected file's contents to standard output): real src/extract.c
 * print_archived_file over a reader stub that hands out an arbitrary sequence of pieces (each <= 3 arbitrary
 * bytes, then end) and an fwrite stub that records what reaches stdout (arbitrary short write = failure). */
#include "verif.h"
#include <stdio.h>
#include <stdlib.h>
#include <string.h>
#define fwrite verif_fwrite
static size_t verif_fwrite(const void *p, size_t sz, size_t n, FILE *f);
#include "src/extract.c"
#undef fwrite

#ifndef PIECES
#define PIECES 3
#endif
static u8 plen[PIECES], pdata[PIECES][3];
static unsigned piece;
static u8 out[PIECES * 3 + 1];
static unsigned out_n, short_at, writes, wrote_to_stdout = 1;
size_t lha_reader_read(LHAReader *r, void *b, size_t n)
{
	unsigned i, k;
	(void) r;
	CHECK(n == 512, "reads use the 512-byte buffer");
	if (piece >= PIECES) return 0;
	k = plen[piece];
	for (i = 0; i < 3; ++i) if (i < k) ((u8 *) b)[i] = pdata[piece][i];
	++piece;
	return k;
}
static size_t verif_fwrite(const void *p, size_t sz, size_t n, FILE *f)
{
	size_t i, k = n;
	if (f != stdout) wrote_to_stdout = 0;
	CHECK(sz == 1, "byte-wise write");
	++writes;
	if (writes == short_at && n > 0) k = n - 1;
	for (i = 0; i < k; ++i) if (out_n + i < sizeof(out)) out[out_n + i] = ((const u8 *) p)[i];
	out_n += (unsigned) k;
	return k;
}
LHAFileHeader *lha_filter_next_file(LHAFilter *filter) { (void) filter; return NULL; }
int lha_reader_check(LHAReader *r, LHADecoderProgressCallback cb, void *d) { (void) r; (void) cb; (void) d; return 0; }
int lha_reader_extract(LHAReader *r, char *f, LHADecoderProgressCallback cb, void *d) { (void) r; (void) f; (void) cb; (void) d; return 0; }
int lha_reader_current_is_fake(LHAReader *r) { (void) r; return 0; }
LHAFileType lha_arch_exists(char *f) { (void) f; return LHA_FILE_NONE; }
int lha_arch_mkdir(char *p, unsigned int m) { (void) p; (void) m; return 1; }
int safe_printf(char *format, ...) { (void) format; return 0; }
int safe_fprintf(FILE *stream, char *format, ...) { (void) stream; (void) format; return 0; }

void harness(void)
{
	INPUT_ARRAY(u8, lens, PIECES); INPUT_ARRAY(u8, bytes, PIECES * 3); INPUT(u8, shortw);
	u8 flat[PIECES * 3];
	unsigned i, j, total = 0, stopped = 0;
	int r;
	for (i = 0; i < PIECES; ++i) { ASSUME(lens[i] <= 3); plen[i] = lens[i]; for (j = 0; j < 3; ++j) pdata[i][j] = bytes[3 * i + j]; }
	short_at = shortw;
	/* what the member decodes to: pieces up to the first empty one */
	for (i = 0; i < PIECES; ++i) if (!stopped) { if (lens[i] == 0) stopped = 1; else for (j = 0; j < 3; ++j) if (j < lens[i]) flat[total++] = bytes[3 * i + j]; }
	r = print_archived_file((LHAReader *) 0);
	CHECK(wrote_to_stdout, "C06: the print command writes to standard output");
	if (r) {
		CHECK(out_n == total, "C06: exactly the file's bytes are written");
		for (i = 0; i < PIECES * 3; ++i) if (i < total) CHECK(out[i] == flat[i], "C06: the bytes written are the file's contents, in order");
	} else {
		CHECK(shortw != 0 && shortw <= writes, "failure is reported only when a write was cut short");
	}
	if (r && total == PIECES * 3) WITNESS("full-length print");
	if (!r) WITNESS("short write reported");
	WITNESS("end");
}
