/* C06 / H06.glob (selection): src/filter.c matches_filter / lha_filter_next_file return exactly the members whose
 * stored path (path followed by file name) is matched by at least one wildcard argument, in archive order; no
 * arguments select everything.  match_glob itself is replaced by a recording stub with an arbitrary verdict per
 * (filter, member) - its meaning is H06.glob's subject - which checks that it is asked about the right string. */
#include "verif.h"
#include <stdlib.h>
#include <string.h>

#ifndef M
#define M 3
#endif
#ifndef NF
#define NF 2
#endif
#ifndef SL
#define SL 2
#endif
static char path_buf[2 * SL + 4];
static unsigned path_live;
static void *verif_malloc(size_t n) { CHECK(path_live == 0 && n <= sizeof(path_buf), "harness: one joined path alive at a time"); path_live = 1; return path_buf; }
static void verif_free(void *p) { if (p == (void *) path_buf) path_live = 0; }
#define malloc verif_malloc
#define free verif_free
#include "src/filter.c"
#undef malloc
#undef free

static LHAFileHeader h0, h1, h2, h3;
static LHAFileHeader *const hdrs[4] = { &h0, &h1, &h2, &h3 };
static char sp0[SL + 1], sp1[SL + 1], sp2[SL + 1], sp3[SL + 1], sf0[SL + 1], sf1[SL + 1], sf2[SL + 1], sf3[SL + 1];
static char *const sp[4] = { sp0, sp1, sp2, sp3 };
static char *const sf[4] = { sf0, sf1, sf2, sf3 };
static char f0[2] = "a", f1[2] = "b", f2[2] = "c";
static char *filters[3] = { f0, f1, f2 };
static unsigned served;
static u8 verdict[3][4];
static unsigned asked[3][4];
LHAFileHeader *lha_reader_next_file(LHAReader *r) { (void) r; if (served >= M) return NULL; return hdrs[served++]; }

static int match_glob(char *glob, char *str)
{
	unsigned fi, mi = served - 1, i, o = 0;
	const LHAFileHeader *h;
	CHECK(served >= 1 && served <= M, "harness: a member is current");
	for (fi = 0; fi < NF; ++fi) if (glob == filters[fi]) break;
	CHECK(fi < NF, "C06: every pattern tried is one of the command line arguments");
	h = hdrs[mi];
	/* the string matched is path immediately followed by file name */
	if (h->path != NULL) for (i = 0; h->path[i] != '\0'; ++i) { CHECK(str[o] == h->path[i], "C06: wildcard is applied to the stored path + name"); ++o; }
	if (h->filename != NULL) for (i = 0; h->filename[i] != '\0'; ++i) { CHECK(str[o] == h->filename[i], "C06: wildcard is applied to the stored path + name"); ++o; }
	CHECK(str[o] == '\0', "C06: ... and nothing else");
	if (fi < 3 && mi < 4) ++asked[fi][mi];
	return (fi < 3 && mi < 4) ? (verdict[fi][mi] & 1) : 0;
}

void harness(void)
{
	INPUT_ARRAY(u8, hp, M * (SL + 1)); INPUT_ARRAY(u8, hf, M * (SL + 1)); INPUT_ARRAY(u8, has, M);
	INPUT_ARRAY(u8, v, 12); INPUT(u8, nf);
	LHAFilter filter;
	LHAFileHeader *got[M + 1];
	unsigned i, j, ngot = 0, k = 0;
	ASSUME(nf <= NF);
	for (i = 0; i < M; ++i) {
		for (j = 0; j <= SL; ++j) { sp[i][j] = (char) hp[i * (SL + 1) + j]; sf[i][j] = (char) hf[i * (SL + 1) + j]; }
		ASSUME(sp[i][SL] == 0 && sf[i][SL] == 0);
		hdrs[i]->path = (has[i] & 1) ? sp[i] : NULL;
		hdrs[i]->filename = (has[i] & 2) ? sf[i] : NULL;
	}
	for (i = 0; i < 3; ++i) for (j = 0; j < 4; ++j) verdict[i][j] = v[i * 4 + j];
	lha_filter_init(&filter, NULL, filters, nf);
	for (i = 0; i <= M; ++i) {
		LHAFileHeader *h = lha_filter_next_file(&filter);
		if (h == NULL) break;
		got[ngot++] = h;
	}
	CHECK(i <= M && served == M, "C06: the filter runs through the whole archive and then reports the end");
	/* expected selection, in archive order */
	for (i = 0; i < M; ++i) {
		int sel = (nf == 0);
		for (j = 0; j < nf; ++j) if (verdict[j][i] & 1) sel = 1;
		if (sel) { CHECK(k < ngot && got[k] == hdrs[i], "C06: every member matched by some wildcard is returned, in archive order"); ++k; }
	}
	CHECK(k == ngot, "C06: no member that matches no wildcard is returned");
	for (i = 0; i < M; ++i) for (j = 0; j < NF; ++j) CHECK(asked[j][i] <= 1, "a pattern is tried at most once per member");
	if (nf == 2 && ngot == 1 && got[0] == hdrs[M - 1] && (verdict[1][M - 1] & 1) && !(verdict[0][M - 1] & 1)) WITNESS("only the last member selected, by the second wildcard");
	if (nf == 0 && ngot == M) WITNESS("no wildcard selects all");
	WITNESS("end");
}
