/* C06 / H06.overwrite: src/extract.c extract_archived_file - an archived file replaces an existing object only
 * under the overwrite policy in force.  Decision table (from the property text / the tool's prompt
 * "OverWrite ?(Yes/[No]/All/Skip)"):
 *    directory or symlink member                -> never asks (directories are skipped altogether with option i)
 *    nothing exists at the output path          -> extract
 *    exists, policy ALL ('f' or any 'q')        -> extract
 *    exists, policy SKIP                        -> not extracted, reported as success
 *    exists, policy PROMPT: read answer lines; the first character of a line decides, case-insensitively:
 *         y -> extract this one;  n or empty line -> leave it;  a -> extract, policy := ALL;
 *         s -> leave it, policy := SKIP;  anything else -> ask again;  end of input -> the tool exits.
 * Two members are processed in sequence against the same scripted standard input, so that both the policy
 * change and the exact amount of input consumed are observable. */
#include "verif.h"
#include "ctype_model.h"
#include <stdio.h>
#include <stdlib.h>
#include <string.h>

#ifndef L
#define L 5          /* bytes of scripted standard input */
#endif
static u8 script[L];
static unsigned script_len, script_pos;
static int verif_getchar(void) { if (script_pos >= script_len) return EOF; return script[script_pos++]; }
static char path_buf[8], dup_buf[8];
static void *verif_malloc(size_t n) { (void) n; return path_buf; }
static char *verif_strdup(const char *s) { unsigned i; for (i = 0; s[i] != '\0'; ++i) dup_buf[i] = s[i]; dup_buf[i] = '\0'; return dup_buf; }
static void verif_free(void *p) { (void) p; }
#undef getchar
#define getchar verif_getchar
#define malloc verif_malloc
#define strdup verif_strdup
#define free verif_free
#include "src/extract.c"
#undef getchar
#undef malloc
#undef strdup
#undef free

static u8 exists_res[2];
static unsigned member, n_exists_file, n_extract[2], n_mkdir;
static u8 extract_res[2];
LHAFileType lha_arch_exists(char *p)
{
	/* the member's own path: "a" / "b"; a parent would contain no further text here (no '/') */
	(void) p; ++n_exists_file;
	return (LHAFileType) (exists_res[member] % 3);      /* NONE, FILE, DIRECTORY (ERROR makes the tool exit) */
}
int lha_arch_mkdir(char *p, unsigned int m) { (void) p; (void) m; ++n_mkdir; return 1; }
int lha_reader_extract(LHAReader *r, char *f, LHADecoderProgressCallback cb, void *d) { (void) r; (void) cb; (void) d; CHECK(f == path_buf, "C06: extraction goes to the path that was tested for existence"); ++n_extract[member]; return extract_res[member] & 1; }
int lha_reader_check(LHAReader *r, LHADecoderProgressCallback cb, void *d) { (void) r; (void) cb; (void) d; return 1; }
int lha_reader_current_is_fake(LHAReader *r) { (void) r; return 0; }
size_t lha_reader_read(LHAReader *r, void *b, size_t n) { (void) r; (void) b; (void) n; return 0; }
LHAFileHeader *lha_filter_next_file(LHAFilter *filter) { (void) filter; return NULL; }
int safe_printf(char *format, ...) { (void) format; return 0; }
int safe_fprintf(FILE *stream, char *format, ...) { (void) stream; (void) format; return 0; }

/* ---- reference: the decision table ---- */
typedef struct { int extract; int policy; unsigned pos; int eof; } Decision;
static int ref_lower(int c) { return (c >= 'A' && c <= 'Z') ? c - 'A' + 'a' : c; }
static Decision ref_decide(int kind /*0 file 1 dir 2 symlink*/, int use_path, int exists, int policy, unsigned pos)
{
	Decision d; unsigned line;
	d.extract = 1; d.policy = policy; d.pos = pos; d.eof = 0;
	if (kind == 1) { d.extract = use_path; return d; }
	if (kind == 2) return d;
	if (!exists) return d;
	if (policy == LHA_OVERWRITE_ALL) return d;
	if (policy == LHA_OVERWRITE_SKIP) { d.extract = 0; return d; }
	for (line = 0; line <= L; ++line) {
		int first, c;
		unsigned i = d.pos;
		/* a complete line is needed */
		while (i < script_len && script[i] != '\n') ++i;
		if (i >= script_len) { d.eof = 1; return d; }
		first = script[d.pos];
		d.pos = i + 1;
		c = ref_lower(first);
		if (c == 'y') { d.extract = 1; return d; }
		if (c == 'n' || c == '\n') { d.extract = 0; return d; }
		if (c == 'a') { d.extract = 1; d.policy = LHA_OVERWRITE_ALL; return d; }
		if (c == 's') { d.extract = 0; d.policy = LHA_OVERWRITE_SKIP; return d; }
	}
	d.eof = 1;
	return d;
}

void harness(void)
{
	INPUT_ARRAY(u8, in, L); INPUT(u8, inlen);
	INPUT_ARRAY(u8, kind, 2); INPUT_ARRAY(u8, ex, 2); INPUT_ARRAY(u8, xr, 2);
	INPUT(u8, policy); INPUT(u8, use_path); INPUT(u8, quiet);
	static LHAFileHeader hdr[2];
	static char nm[2][2] = { "a", "b" };
	static char tgt[2] = "t";
	LHAOptions options;
	Decision d;
	unsigned i, pos = 0;
	int pol, r;

	ASSUME(inlen <= L && policy <= 2 && quiet <= 2);
	for (i = 0; i < L; ++i) { script[i] = in[i]; ASSUME(in[i] != 0); }    /* a NUL byte cannot be typed as an answer */
	script_len = inlen;
	options.overwrite_policy = (LHAOverwritePolicy) policy; options.quiet = quiet; options.verbose = 0; options.dry_run = 0;
	options.extract_path = NULL; options.use_path = use_path & 1;
	pol = policy;
	for (i = 0; i < 2; ++i) {
		ASSUME(kind[i] <= 2);
		hdr[i].path = NULL; hdr[i].filename = nm[i];
		memcpy(hdr[i].compress_method, kind[i] == 0 ? "-lh5-" : "-lhd-", 6);
		hdr[i].symlink_target = kind[i] == 2 ? tgt : NULL;
		exists_res[i] = ex[i]; extract_res[i] = xr[i];
	}
	for (member = 0; member < 2; ++member) {
		d = ref_decide(kind[member], use_path & 1, (ex[member] % 3) != 0, pol, pos);
		ASSUME(!d.eof);                         /* runs in which standard input ends at a prompt terminate the tool (exit) */
		r = extract_archived_file(NULL, &hdr[member], &options);
		CHECK(n_extract[member] == (d.extract ? 1u : 0u), "C06: member is extracted exactly when the overwrite decision table says so");
		CHECK((int) options.overwrite_policy == d.policy, "C06: answers 'a' / 's' change the policy for the following members, nothing else does");
		CHECK(script_pos == d.pos, "C06: exactly the answer lines are consumed from standard input");
		CHECK((r != 0) == (d.extract ? (xr[member] & 1) : 1), "C07: a member left alone counts as success, an extracted one reports the reader's verdict");
		pol = d.policy; pos = d.pos;
	}
	CHECK(n_mkdir == 0, "no parent directories for plain names");
	if (policy == LHA_OVERWRITE_PROMPT && kind[0] == 0 && kind[1] == 0 && (ex[0] % 3) == 1 && (ex[1] % 3) == 1) {
		if (n_extract[0] == 0 && n_extract[1] == 1 && options.overwrite_policy == LHA_OVERWRITE_PROMPT) WITNESS("no to the first, yes to the second");
		if (in[0] == 'A' && n_extract[1] == 1 && script_pos == 2) WITNESS("'A' answers for all following files without asking again");
		if (in[0] == 'x' && script_pos == L && n_extract[0] == 1) WITNESS("asked again after an unknown answer");
		if (in[0] == '\n' && n_extract[0] == 0) WITNESS("empty line means no");
	}
	if (kind[0] == 1 && !(use_path & 1) && n_extract[0] == 0) WITNESS("directory skipped under option i");
	WITNESS("end");
}
