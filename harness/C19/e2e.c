/* C19: end-to-end cross-check of the decomposition (col.* + head.* + comp.*): the whole real src/list.c + src/safe.c
 * (nothing stubbed but libc and lha_filter_next_file) lists two members for one command per harness (-DCMD) at quiet
 * level -DE2E_QUIET (2: rows only - quick tier; 0: headings, separators, rows, footer - thorough tier), and the complete
 * token stream is compared with the reference renderer.  To keep every token position concrete, names, presence of
 * fields, sizes, CRCs (their hex digits pass through the real safe_output), stamps, `now`, the month and the OS type are
 * concrete; permission bits, uid, gid, header level, OS-9 bits and the other fields of the broken-down time are arbitrary.
 *   member 0: "d/" "a\x1b" Unix file, permissions + ids, 12 -> 34 bytes, -lh5-, recent stamp
 *   member 1: "l" -> "t\x80" directory-type entry (-lhd-) with OS-9 permissions (E2E_OS9) or no permissions (OS name),
 *             no ids, stamp older than six months (l, lv, v) */
#include "C18/sym_header.h"
#include "C19/c19_env.h"
#ifndef CMD
#define CMD 0
#endif
#ifndef E2E_QUIET
#define E2E_QUIET 2
#endif
static char e_path0[] = "d/", e_name0[] = "a\x1b", e_path1[] = "l", e_target1[] = "t\x80";
static void e2e_method(LHAFileHeader *h, const char *m) { unsigned i; for (i = 0; i < 6; ++i) h->compress_method[i] = m[i]; }
void harness(void)
{
	INPUT(u32, perms); INPUT(u32, uid); INPUT(u32, gid); INPUT(u8, level0); INPUT(u8, level1); INPUT(u32, os9);
	const u16 crc0 = 0x9778, crc1 = 0x00ab;
	INPUT(u32, mday); INPUT(u32, hour); INPUT(u32, min); INPUT(u32, sec); INPUT(i32, year);
	LHAFilter filter;
	LHAOptions options;
	LHAFileHeader *members[2];
	unsigned q = E2E_QUIET;
	out_check = 0;
	ASSUME(uid <= 65535 && gid <= 65535);
	sym_time_fill(8, mday, hour, min, sec, year, 1335830400ull);
	hdrs[0].path = e_path0; hdrs[0].filename = e_name0; hdrs[0].symlink_target = NULL;
	e2e_method(&hdrs[0], "-lh5-");
	hdrs[0].extra_flags = LHA_FILE_UNIX_PERMS | LHA_FILE_UNIX_UID_GID; hdrs[0].unix_perms = perms; hdrs[0].unix_uid = uid; hdrs[0].unix_gid = gid;
	hdrs[0].compressed_length = 12; hdrs[0].length = 34; hdrs[0].crc = crc0; hdrs[0].timestamp = 1335830400u - 1000; hdrs[0].header_level = level0; hdrs[0].os_type = 'U';
	hdrs[1].path = e_path1; hdrs[1].filename = NULL; hdrs[1].symlink_target = e_target1;
	e2e_method(&hdrs[1], "-lhd-");
#ifdef E2E_OS9
	hdrs[1].extra_flags = LHA_FILE_OS9_PERMS; hdrs[1].os9_perms = os9; hdrs[1].os_type = '9';
#else
	hdrs[1].extra_flags = 0; hdrs[1].os_type = 'K';
#endif
	hdrs[1].compressed_length = 0; hdrs[1].length = 0; hdrs[1].crc = crc1; hdrs[1].timestamp = 1335830400u - 15552000u; hdrs[1].header_level = level1;
	members[0] = &hdrs[0]; members[1] = &hdrs[1];
	sym_mtime = 946684800u; sym_fstat_fails = 0;
	filter.reader = NULL; filter.filters = NULL; filter.num_filters = 0;
	options.overwrite_policy = LHA_OVERWRITE_PROMPT; options.verbose = CMD & 1;
	options.dry_run = 0; options.extract_path = NULL; options.use_path = 1;
	options.quiet = (int) q; hdr_count = 2; hdr_served = 0;
	if (CMD & 2) list_file_verbose(&filter, &options, stdin);
	else list_file_basic(&filter, &options, stdin);
	ref_listing(CMD, (int) q, members, 2, 946684800u, 1335830400ll);
	CHECK(out_n > (q == 0 ? 200u : 60u), "a complete listing was written");
	if (perms == 0644 && uid == 1000 && level0 == 2) WITNESS("rw-r--r-- 1000 level 2");
	c19_compare();
	WITNESS("end");
}
