/* Reference renderer for the list output of lha (l, lv, v, vv), written from the column description of the
 * Unix LHA list layout (property C19, DESIGN 4.19) and the recorded listings under /repo/test/output - NOT from
 * src/list.c.  It is used twice:
 *   - under CBMC (harness/C19/*.c): the sinks record a token stream that is compared with the token stream the
 *     real src/list.c produces through the output model (harness/common/out_model.h);
 *   - natively (harness/C19/validate/): the sinks print with the real printf, and the result is diffed against
 *     /repo/test/output/.../*-{l,lv,v,vv}.txt for the archives under /repo/test/archives (oracle validation).
 *
 * The includer provides the sinks and the environment:
 *   static void ref_b(u8 c);                                            one output byte
 *   static void ref_num(u8 kind, u8 flags, u8 width, u8 prec, u64 v);   one integer conversion (not rendered here)
 *   static void ref_flt(u8 flags, u8 width, u8 prec, float v);          one %f conversion of a single-precision value
 *   static const struct tm *ref_localtime(u32 stamp);                   local broken-down time of a stamp
 * With REF_MARKERS defined (composition harnesses) every column field is replaced by one marker,
 *   static void ref_mark(u8 field, const void *member, u64 value);      field REF_F_*, the member shown or a footer value
 * (and the heading and separator lines by one marker naming the command)
 * so that the row / footer ASSEMBLY (order of fields, separating blanks, line ends, blank fill, totals) is compared
 * while the fields themselves are compared column by column elsewhere.
 * Token conventions are those of out_model.h: kind 'd' signed decimal, 'u' unsigned decimal (hex digits are bytes); flags 1 = left-justified, 2 = zero-padded; width 0 = none;
 * prec 0xff = none.
 *
 * LAYOUT
 *   row (l)  : PERM(10) ' ' OWNER(11) ' ' SIZE(7) ' ' RATIO(6) ' ' STAMP(12) ' ' NAME '\n'
 *   row (v)  : PERM ' ' OWNER ' ' PACKED(7) ' ' SIZE ' ' RATIO ' ' METHOD(5) ' ' CRC(4 hex digits) ' ' STAMP ' ' NAME '\n'
 *   row (lv) : NAME2 '\n' PERM ' ' OWNER ' ' SIZE ' ' RATIO ' ' STAMP ' ' '[' level ']' '\n'
 *   row (vv) : NAME2 '\n' PERM ' ' OWNER ' ' PACKED ' ' SIZE ' ' RATIO ' ' METHOD ' ' CRC ' ' FULLSTAMP(19) ' ' '[' level ']' '\n'
 *   PERM     : OS-9 permissions if the header has them: 'd' or '-', then s e w r e w r for bits 6..0, then 2 blanks;
 *              else Unix permissions if present: 'd' directory / 'l' symbolic link / '-' other, then rwx for user, group, other;
 *              else the name of the originating OS in brackets, left-justified in 10 columns.
 *   OWNER    : uid right-justified in 5, '/', gid left-justified in 5 - or 11 blanks when the header has no ids.
 *   SIZE     : unsigned decimal, right-justified in 7 (wider values widen the row).
 *   RATIO    : packed*100/original in single precision as %5.1f followed by '%'; 100.0 when original is 0;
 *              "******" for directory entries (method -lhd-, which includes symbolic links).
 *   STAMP    : 12 blanks for stamp 0; else "Mon dd " followed by "hh:mm" if stamp lies within the last six months
 *              (180 days) before now or later, else by " yyyy".
 *   FULLSTAMP: 19 blanks for stamp 0; else "yyyy-mm-dd hh:mm:ss".
 *   NAME     : path, then file name, then " -> target" for symbolic links; NAME2 uses "|target" instead.
 *              Bytes outside 0x20..0x7E are shown as '?' (property C18).
 *   footer   : " Total    " ' ' count(5) " file " / " files" ' ' [PACKED total ' '] SIZE total ' ' RATIO of totals
 *              ("******" when the size total is 0) and then the archive file's own time stamp in the STAMP / FULLSTAMP
 *              form (v, vv: preceded by a blank METHOD/CRC field); totals are 32-bit quantities.
 *   quiet level >= 2 suppresses headings, separator lines and footer. */
#ifndef REF_LIST_H
#define REF_LIST_H
#include <time.h>
#include "lha_file_header.h"

enum { REF_L = 0, REF_LV = 1, REF_V = 2, REF_VV = 3 };
enum { REF_F_PERM = 1, REF_F_OWNER, REF_F_PACKED, REF_F_SIZE, REF_F_RATIO, REF_F_METHOD, REF_F_STAMP, REF_F_FULLSTAMP, REF_F_NAME, REF_F_NAME2, REF_F_LEVEL,
       REF_F_HEADING = 15, REF_F_SEPARATOR = 16,
       REF_F_TOTAL_LABEL = 20, REF_F_TOTAL_COUNT, REF_F_TOTAL_PACKED, REF_F_TOTAL_SIZE, REF_F_TOTAL_RATIO, REF_F_TOTAL_STAMP, REF_F_TOTAL_FULLSTAMP };
#ifdef REF_MARKERS
#define REF_ROW_FIELD(id, h, call)   ref_mark(id, (const void *) (h), 0)
#define REF_FOOT_FIELD(id, v, call)  ref_mark(id, (const void *) 0, (u64) (v))
#else
#define REF_ROW_FIELD(id, h, call)   (call)
#define REF_FOOT_FIELD(id, v, call)  (call)
#endif
#define REF_LEFT 1
#define REF_ZERO 2
#define REF_NOPREC 0xff
#define REF_HALF_YEAR 15552000          /* 180 days in seconds */

static void ref_text(const char *s) { unsigned i; for (i = 0; s[i] != '\0'; ++i) ref_b((u8) s[i]); }
static void ref_blanks(unsigned n) { unsigned i; for (i = 0; i < n; ++i) ref_b(' '); }

static int ref_is_dir_method(const LHAFileHeader *h)
{
	const char *m = h->compress_method;
	return m[0] == '-' && m[1] == 'l' && m[2] == 'h' && m[3] == 'd' && m[4] == '-' && m[5] == '\0';
}

static void ref_shown(const char *s)
{
	unsigned i;
	for (i = 0; s[i] != '\0'; ++i) {
		u8 c = (u8) s[i];
		ref_b((c >= 0x20 && c <= 0x7e) ? c : (u8) '?');
	}
}

/* ---- PERM ---- */
static const char *ref_os_name(u8 os)
{
	switch (os) {
	case 'M': return "[MS-DOS]";   case 'w': return "[Win9x]";    case 'W': return "[WinNT]";   case 'U': return "[Unix]";
	case '2': return "[OS/2]";     case 'C': return "[CP/M]";     case 'm': return "[Mac OS]";  case 'J': return "[Java]";
	case 'F': return "[FLEX]";     case 'R': return "[Runser]";   case 'T': return "[TownsOS]"; case '9': return "[OS-9]";
	case 'K': return "[OS-9/68K]"; case '3': return "[OS-386]";   case 'H': return "[Human68K]"; case 'a': return "[Atari]";
	case 'A': return "[Amiga]";    case ' ': return "[LHARK]";    case 0:   return "[generic]";
	default:  return "[unknown]";
	}
}
static void ref_flag(unsigned word, unsigned mask, char letter) { ref_b((word & mask) ? (u8) letter : (u8) '-'); }
static void ref_perm(const LHAFileHeader *h)
{
	int dir = ref_is_dir_method(h);
	if (h->extra_flags & LHA_FILE_OS9_PERMS) {
		unsigned p = h->os9_perms;
		ref_b(dir ? 'd' : '-');
		ref_flag(p, 0x40, 's'); ref_flag(p, 0x20, 'e'); ref_flag(p, 0x10, 'w'); ref_flag(p, 0x08, 'r');
		ref_flag(p, 0x04, 'e'); ref_flag(p, 0x02, 'w'); ref_flag(p, 0x01, 'r');
		ref_blanks(2);
	} else if (h->extra_flags & LHA_FILE_UNIX_PERMS) {
		unsigned p = h->unix_perms;
		ref_b(!dir ? '-' : h->symlink_target != NULL ? 'l' : 'd');
		ref_flag(p, 0400, 'r'); ref_flag(p, 0200, 'w'); ref_flag(p, 0100, 'x');
		ref_flag(p, 0040, 'r'); ref_flag(p, 0020, 'w'); ref_flag(p, 0010, 'x');
		ref_flag(p, 0004, 'r'); ref_flag(p, 0002, 'w'); ref_flag(p, 0001, 'x');
	} else {
		/* OS name, filled with blanks to 10 columns (no name is longer) */
		const char *n = ref_os_name(h->os_type);
		unsigned i, ended = 0;
		for (i = 0; i < 10; ++i) {
			if (!ended && n[i] == '\0') ended = 1;
			ref_b(ended ? (u8) ' ' : (u8) n[i]);
		}
	}
}

/* ---- OWNER ---- */
static void ref_owner(const LHAFileHeader *h)
{
	if (h->extra_flags & LHA_FILE_UNIX_UID_GID) {
		ref_num('d', 0, 5, REF_NOPREC, (u64) (long) (int) h->unix_uid);
		ref_b('/');
		ref_num('d', REF_LEFT, 5, REF_NOPREC, (u64) (long) (int) h->unix_gid);
	} else {
		ref_blanks(11);
	}
}

/* ---- sizes and ratio ---- */
static void ref_size(u64 v) { ref_num('u', 0, 7, REF_NOPREC, v); }
static void ref_percent(u64 packed, u64 original)
{
	float r;
	if (original == 0) r = 100.0f;
	else r = ((float) packed * 100.0f) / (float) original;
	ref_flt(0, 5, 1, r);
	ref_b('%');
}
static void ref_ratio_row(const LHAFileHeader *h)
{
	if (ref_is_dir_method(h)) ref_text("******");
	else ref_percent((u64) h->compressed_length, (u64) h->length);
}

/* ---- METHOD CRC ---- */
static void ref_method_crc(const LHAFileHeader *h)
{
	static const char hex[] = "0123456789abcdef";
	unsigned i, ended = 0;
	/* the method string (at most 5 characters, shown like a name), filled with blanks to 5 columns */
	for (i = 0; i < 5; ++i) {
		u8 c = (u8) h->compress_method[i];
		if (c == '\0') ended = 1;
		ref_b(ended ? (u8) ' ' : (c >= 0x20 && c <= 0x7e) ? c : (u8) '?');
	}
	ref_b(' ');
	/* the 16-bit CRC as exactly four lower-case hex digits */
	ref_b((u8) hex[(h->crc >> 12) & 15]); ref_b((u8) hex[(h->crc >> 8) & 15]); ref_b((u8) hex[(h->crc >> 4) & 15]); ref_b((u8) hex[h->crc & 15]);
}

/* ---- time stamps ---- */
static void ref_stamp(u32 stamp, long long now)
{
	static const char mon[12][4] = { "Jan", "Feb", "Mar", "Apr", "May", "Jun", "Jul", "Aug", "Sep", "Oct", "Nov", "Dec" };
	const struct tm *t;
	if (stamp == 0) { ref_blanks(12); return; }
	t = ref_localtime(stamp);
	ref_b((u8) mon[t->tm_mon][0]); ref_b((u8) mon[t->tm_mon][1]); ref_b((u8) mon[t->tm_mon][2]);
	ref_b(' ');
	ref_num('d', 0, 2, REF_NOPREC, (u64) (long) t->tm_mday);
	ref_b(' ');
	if ((long long) stamp + REF_HALF_YEAR > now) {
		ref_num('d', REF_ZERO, 2, REF_NOPREC, (u64) (long) t->tm_hour);
		ref_b(':');
		ref_num('d', REF_ZERO, 2, REF_NOPREC, (u64) (long) t->tm_min);
	} else {
		ref_b(' ');
		ref_num('d', REF_ZERO, 4, REF_NOPREC, (u64) (long) (t->tm_year + 1900));
	}
}
static void ref_full_stamp(u32 stamp)
{
	const struct tm *t;
	if (stamp == 0) { ref_blanks(19); return; }
	t = ref_localtime(stamp);
	ref_num('d', REF_ZERO, 4, REF_NOPREC, (u64) (long) (t->tm_year + 1900)); ref_b('-');
	ref_num('d', REF_ZERO, 2, REF_NOPREC, (u64) (long) (t->tm_mon + 1)); ref_b('-');
	ref_num('d', REF_ZERO, 2, REF_NOPREC, (u64) (long) t->tm_mday); ref_b(' ');
	ref_num('d', REF_ZERO, 2, REF_NOPREC, (u64) (long) t->tm_hour); ref_b(':');
	ref_num('d', REF_ZERO, 2, REF_NOPREC, (u64) (long) t->tm_min); ref_b(':');
	ref_num('d', REF_ZERO, 2, REF_NOPREC, (u64) (long) t->tm_sec);
}

/* ---- names, header level ---- */
static void ref_name(const LHAFileHeader *h, int own_line)
{
	if (h->path != NULL) ref_shown(h->path);
	if (h->filename != NULL) ref_shown(h->filename);
	if (h->symlink_target != NULL) {
		if (own_line) ref_b('|'); else ref_text(" -> ");
		ref_shown(h->symlink_target);
	}
	if (own_line) ref_b('\n');
}
static void ref_level(const LHAFileHeader *h)
{
	ref_b('[');
	ref_num('d', 0, 0, REF_NOPREC, (u64) (long) h->header_level);
	ref_b(']');
}

/* ---- rows, headings, footer ---- */
static void ref_row(int cmd, const LHAFileHeader *h, long long now)
{
	int wide = (cmd == REF_V || cmd == REF_VV), own_line = (cmd == REF_LV || cmd == REF_VV);
	if (own_line) REF_ROW_FIELD(REF_F_NAME2, h, ref_name(h, 1));
	REF_ROW_FIELD(REF_F_PERM, h, ref_perm(h)); ref_b(' ');
	REF_ROW_FIELD(REF_F_OWNER, h, ref_owner(h)); ref_b(' ');
	if (wide) { REF_ROW_FIELD(REF_F_PACKED, h, ref_size((u64) h->compressed_length)); ref_b(' '); }
	REF_ROW_FIELD(REF_F_SIZE, h, ref_size((u64) h->length)); ref_b(' ');
	REF_ROW_FIELD(REF_F_RATIO, h, ref_ratio_row(h)); ref_b(' ');
	if (wide) { REF_ROW_FIELD(REF_F_METHOD, h, ref_method_crc(h)); ref_b(' '); }
	if (cmd == REF_VV) REF_ROW_FIELD(REF_F_FULLSTAMP, h, ref_full_stamp(h->timestamp));
	else REF_ROW_FIELD(REF_F_STAMP, h, ref_stamp(h->timestamp, now));
	ref_b(' ');
	if (own_line) REF_ROW_FIELD(REF_F_LEVEL, h, ref_level(h));
	else REF_ROW_FIELD(REF_F_NAME, h, ref_name(h, 0));
	ref_b('\n');
}

static void ref_heading(int cmd)
{
	switch (cmd) {
	case REF_L:  ref_text(" PERMSSN    UID  GID      SIZE  RATIO     STAMP           NAME\n"); break;
	case REF_LV: ref_text(" PERMSSN    UID  GID      SIZE  RATIO     STAMP     LV\n"); break;
	case REF_V:  ref_text(" PERMSSN    UID  GID    PACKED    SIZE  RATIO METHOD CRC     STAMP          NAME\n"); break;
	default:     ref_text(" PERMSSN    UID  GID    PACKED    SIZE  RATIO METHOD CRC     STAMP            LV\n"); break;
	}
}
static void ref_separator(int cmd)
{
	switch (cmd) {
	case REF_L:  ref_text("---------- ----------- ------- ------ ------------ --------------------\n"); break;
	case REF_LV: ref_text("---------- ----------- ------- ------ ------------ ---\n"); break;
	case REF_V:  ref_text("---------- ----------- ------- ------- ------ ---------- ------------ -------------\n"); break;
	default:     ref_text("---------- ----------- ------- ------- ------ ---------- ------------------- ---\n"); break;
	}
}
static void ref_total_label(void) { ref_text(" Total    "); }
static void ref_total_count(u32 count)
{
	ref_num('d', 0, 5, REF_NOPREC, (u64) (long) (int) count);
	ref_text(count == 1 ? " file " : " files");
}
static void ref_total_ratio(u32 packed_total, u32 size_total)
{
	if (size_total == 0) ref_text("******"); else ref_percent(packed_total, size_total);
}
static void ref_footer(int cmd, u32 count, u32 packed_total, u32 size_total, u32 archive_stamp, long long now)
{
	int wide = (cmd == REF_V || cmd == REF_VV);
	(void) now;
	REF_FOOT_FIELD(REF_F_TOTAL_LABEL, 0, ref_total_label()); ref_b(' ');
	REF_FOOT_FIELD(REF_F_TOTAL_COUNT, count, ref_total_count(count)); ref_b(' ');
	if (wide) { REF_FOOT_FIELD(REF_F_TOTAL_PACKED, packed_total, ref_size(packed_total)); ref_b(' '); }
	REF_FOOT_FIELD(REF_F_TOTAL_SIZE, size_total, ref_size(size_total)); ref_b(' ');
	REF_FOOT_FIELD(REF_F_TOTAL_RATIO, ((u64) packed_total << 32 | size_total), ref_total_ratio(packed_total, size_total));
	ref_b(' ');
	if (wide) { ref_blanks(10); ref_b(' '); }
	if (cmd == REF_VV) REF_FOOT_FIELD(REF_F_TOTAL_FULLSTAMP, archive_stamp, ref_full_stamp(archive_stamp));
	else REF_FOOT_FIELD(REF_F_TOTAL_STAMP, archive_stamp, ref_stamp(archive_stamp, now));
	ref_b('\n');
}

/* a whole listing: members in the order given */
static void ref_listing(int cmd, int quiet, LHAFileHeader *const *members, unsigned n, u32 archive_stamp, long long now)
{
	unsigned i;
	u32 packed_total = 0, size_total = 0;
	if (quiet < 2) { REF_FOOT_FIELD(REF_F_HEADING, cmd, ref_heading(cmd)); REF_FOOT_FIELD(REF_F_SEPARATOR, cmd, ref_separator(cmd)); }
	for (i = 0; i < n; ++i) {
		ref_row(cmd, members[i], now);
		packed_total += (u32) members[i]->compressed_length;
		size_total += (u32) members[i]->length;
	}
	if (quiet < 2) { REF_FOOT_FIELD(REF_F_SEPARATOR, cmd, ref_separator(cmd)); ref_footer(cmd, n, packed_total, size_total, archive_stamp, now); }
}
#endif
