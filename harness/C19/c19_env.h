/* C19 environment: real src/list.c + src/safe.c over the recording output model, and the reference renderer
 * (ref_list.h) with recording sinks.  c19_compare() asserts equality of the two token streams. */
#ifndef C19_ENV_H
#define C19_ENV_H
#define OUT_RECORD 1
#ifndef OUT_TOKENS
#define OUT_TOKENS 96
#endif
#include "C18/sym_header.h"
#include "C18/list_env.h"

static OutTok ref_tok[OUT_TOKENS];
static unsigned ref_n;
static u64 ref_localtime_arg;
static unsigned ref_localtime_calls;
static void ref_emit(u8 kind, u8 flags, u8 width, u8 prec, u64 value, float fval)
{
	if (ref_n < OUT_TOKENS) {
		ref_tok[ref_n].meta = OUT_META(kind, flags, width, prec); ref_tok[ref_n].value = value; ref_tok[ref_n].fval = fval;
	}
	++ref_n;
}
static void ref_b(u8 c) { ref_emit('b', 0, 0, 0, c, 0.0f); }
static void ref_num(u8 kind, u8 flags, u8 width, u8 prec, u64 v) { ref_emit(kind, flags, width, prec, v, 0.0f); }
static void ref_flt(u8 flags, u8 width, u8 prec, float v) { ref_emit('f', flags, width, prec, 0, v); }
/* the same arbitrary broken-down time the real code receives from localtime(); the stamp asked for is recorded */
static const struct tm *ref_localtime(u32 stamp) { ref_localtime_arg = stamp; ++ref_localtime_calls; return &sym_tm; }
#ifdef REF_MARKERS
/* composition mode: one marker token per column field; a row field names the member it shows, a footer field its value */
static void ref_mark(u8 field, const void *member, u64 value)
{
	if (member != NULL) value = (u64) ((const LHAFileHeader *) member - hdrs);
	ref_emit('H', field, 0, 0, value, 0.0f);
}
static void out_mark(u8 field, const void *member, u64 value)
{
	if (member != NULL) value = (u64) ((const LHAFileHeader *) member - hdrs);
	out_token('H', field, 0, 0, value);
}
#endif
#include "C19/ref_list.h"

static void c19_compare(void)
{
	unsigned i;
	CHECK(ref_n <= OUT_TOKENS, "harness: reference rendering fits the token buffer");
	CHECK(out_n == ref_n, "C19: the output has as many tokens as the reference rendering");
	for (i = 0; i < OUT_TOKENS; ++i) {
		if (i < ref_n && i < out_n) {
			CHECK((out_tok[i].meta & 0xff) == (ref_tok[i].meta & 0xff) && out_tok[i].value == ref_tok[i].value, "C19: output token (byte / converted integer) equals the reference rendering");
			CHECK(out_tok[i].fval == ref_tok[i].fval, "C19: floating-point value passed to the conversion equals the reference (single precision)");
			CHECK(out_tok[i].meta == ref_tok[i].meta, "C19: conversion kind, width, justification and precision equal the reference rendering");
		}
	}
	if (ref_localtime_calls != 0) CHECK(sym_localtime_calls != 0 && sym_localtime_arg == ref_localtime_arg, "C19: the broken-down time printed is that of the right time stamp");
}

/* end of one compared segment: compare, then restart both streams (keeps token positions concrete for the next
 * segment) */
static unsigned c19_segments;
static void c19_segment(void)
{
	c19_compare();      /* only positions below out_n == ref_n are compared, so stale tokens need no clearing */
	out_n = 0; ref_n = 0; out_bytes = 0; ref_localtime_calls = 0; sym_localtime_calls = 0; sym_time_calls = 0;
	++c19_segments;
}

/* header value ranges of the property's quantifier */
#define C19_HEADER_RANGES() do_c19_ranges(uid, gid, clen, len)
static void do_c19_ranges(u32 uid, u32 gid, u64 clen, u64 len)
{
	ASSUME(uid <= 65535 && gid <= 65535 && clen <= 0xffffffffu && len <= 0xffffffffu);
}
#endif
