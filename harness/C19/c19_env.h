/* C19 environment: real src/list.c + src/safe.c over the recording output model, and the reference renderer
 * (ref_list.h) with recording sinks.  c19_compare() asserts equality of the two token streams. */
#ifndef C19_ENV_H
#define C19_ENV_H
#define OUT_RECORD 1
#ifndef OUT_TOKENS
#define OUT_TOKENS 96
#endif
#include "C18/sym_header.h"
#include "C18/list_env.h"

static OutTok ref_tok[OUT_TOKENS];
static unsigned ref_n;
static u64 ref_localtime_arg;
static unsigned ref_localtime_calls;
static void ref_emit(u8 kind, u8 flags, u8 width, u8 prec, u64 value)
{
	if (ref_n < OUT_TOKENS) {
		ref_tok[ref_n].kind = kind; ref_tok[ref_n].flags = flags; ref_tok[ref_n].width = width;
		ref_tok[ref_n].prec = prec; ref_tok[ref_n].value = value;
	}
	++ref_n;
}
static void ref_b(u8 c) { ref_emit('b', 0, 0, 0, c); }
static void ref_num(u8 kind, u8 flags, u8 width, u8 prec, u64 v) { ref_emit(kind, flags, width, prec, v); }
/* the same arbitrary broken-down time the real code receives from localtime(); the stamp asked for is recorded */
static const struct tm *ref_localtime(u32 stamp) { ref_localtime_arg = stamp; ++ref_localtime_calls; return &sym_tm; }
#include "C19/ref_list.h"

static void c19_compare(void)
{
	unsigned i;
	CHECK(ref_n <= OUT_TOKENS, "harness: reference rendering fits the token buffer");
	CHECK(out_n == ref_n, "C19: the output has as many tokens as the reference rendering");
	for (i = 0; i < OUT_TOKENS; ++i) {
		if (i < ref_n && i < out_n) {
			CHECK(out_tok[i].kind == ref_tok[i].kind && out_tok[i].value == ref_tok[i].value, "C19: output token (byte / converted value) equals the reference rendering");
			CHECK(out_tok[i].flags == ref_tok[i].flags && out_tok[i].width == ref_tok[i].width && out_tok[i].prec == ref_tok[i].prec, "C19: conversion width, justification and precision equal the reference rendering");
		}
	}
	if (ref_localtime_calls != 0) CHECK(sym_localtime_calls != 0 && sym_localtime_arg == ref_localtime_arg, "C19: the broken-down time printed is that of the right time stamp");
}

/* header value ranges of the property's quantifier */
#define C19_HEADER_RANGES() do_c19_ranges(hmethod, uid, gid, clen, len)
static void do_c19_ranges(const u8 *m, u32 uid, u32 gid, u64 clen, u64 len)
{
	unsigned i;
	for (i = 0; i < 5; ++i) ASSUME(m[i] >= 0x20 && m[i] <= 0x7e);
	ASSUME(uid <= 65535 && gid <= 65535 && clen <= 0xffffffffu && len <= 0xffffffffu);
}
#endif
