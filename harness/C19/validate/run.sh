#!/bin/sh
# Validate the C19 reference renderer against the recorded listings of the repository's test corpus.
# Builds validate.c against the real library (fresh objects, /repo is not touched), lists every archive under
# /repo/test/archives with l, lv, v, vv and diffs with /repo/test/output/<archive>-<cmd>.txt.
# Environment as in /repo/test/test_common.sh + test-list-output (TZ, TEST_NOW_TIME, archive mtime 2000-01-01).
set -eu
REPO=${LHASA_REPO:-/repo}
here=$(cd "$(dirname "$0")" && pwd)
work=$(mktemp -d)
trap 'rm -rf "$work"' EXIT
gcc -O1 -w -DHAVE_CONFIG_H -I"$REPO" -I"$REPO/lib" -I"$REPO/lib/public" -I"$here/.." \
    "$here/validate.c" $(ls "$REPO"/lib/*.c | grep -v 'lha_arch_win32\|bit_stream_reader\|lh_new_decoder\|tree_decode\|pma_common') \
    -o "$work/validate"
export TZ=Europe/London TEST_NOW_TIME=1335830400
ok=0; bad=0
cd "$REPO/test/archives"
# the archives the repository's own test-list-output checks (lines "test_archive X" that are not commented out)
for a in $(sed -n 's/^test_archive[ \t][ \t]*\([^ \t]*\).*/\1/p' "$REPO/test/test-list-output"); do
    [ -e "$REPO/test/output/$a-l.txt" ] || continue
    cp "$a" "$work/arc"; touch -t 200001010000 "$work/arc"
    for m in l lv v vv; do
        if "$work/validate" $m "$work/arc" > "$work/out.txt" 2>/dev/null && cmp -s "$work/out.txt" "$REPO/test/output/$a-$m.txt"; then
            ok=$((ok + 1))
        else
            bad=$((bad + 1)); echo "MISMATCH $a $m"; diff "$work/out.txt" "$REPO/test/output/$a-$m.txt" | head -6 || true
        fi
    done
done
echo "reference renderer: $ok listings identical, $bad different"
[ "$bad" -eq 0 ]
