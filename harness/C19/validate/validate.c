/* Oracle validation for C19 (not evidence for the property): the reference renderer harness/C19/ref_list.h,
 * compiled natively with a real printf back end, lists an archive whose headers are read with the real
 * liblhasa.  run.sh diffs its output with the listings recorded under /repo/test/output.
 * usage: validate l|lv|v|vv ARCHIVE   (TZ and TEST_NOW_TIME as in /repo/test/test_common.sh) */
#include <stdio.h>
#include <stdlib.h>
#include <string.h>
#include <stdint.h>
#include <time.h>
#include <sys/stat.h>
#include "lha_reader.h"

typedef uint8_t u8; typedef uint16_t u16; typedef uint32_t u32; typedef uint64_t u64;

static void ref_b(u8 c) { putchar(c); }
static void ref_num(u8 kind, u8 flags, u8 width, u8 prec, u64 v)
{
	char fmt[32], *p = fmt;
	*p++ = '%';
	if (flags & 1) *p++ = '-';
	if (flags & 2) *p++ = '0';
	if (width) p += sprintf(p, "%u", width);
	if (prec != 0xff) p += sprintf(p, ".%u", prec);
	*p++ = 'l';
	*p++ = (kind == 'd') ? 'd' : 'u';
	*p = 0;
	if (kind == 'd') printf(fmt, (long) v); else printf(fmt, (unsigned long) v);
}
static void ref_flt(u8 flags, u8 width, u8 prec, float v)
{
	char fmt[32], *p = fmt;
	*p++ = '%';
	if (flags & 1) *p++ = '-';
	if (flags & 2) *p++ = '0';
	if (width) p += sprintf(p, "%u", width);
	if (prec != 0xff) p += sprintf(p, ".%u", prec);
	*p++ = 'f'; *p = 0;
	printf(fmt, (double) v);
}
static const struct tm *ref_localtime(u32 stamp) { time_t t = (time_t) stamp; return localtime(&t); }
#include "ref_list.h"

int main(int argc, char **argv)
{
	static LHAFileHeader *members[4096];
	unsigned n = 0;
	int cmd;
	FILE *f;
	LHAInputStream *in;
	LHAReader *rd;
	LHAFileHeader *h;
	struct stat st;
	long long now;
	const char *e = getenv("TEST_NOW_TIME");
	if (argc != 3) return 2;
	cmd = !strcmp(argv[1], "l") ? REF_L : !strcmp(argv[1], "lv") ? REF_LV : !strcmp(argv[1], "v") ? REF_V : REF_VV;
	now = e ? atoll(e) : (long long) time(NULL);
	f = fopen(argv[2], "rb");
	if (f == NULL || fstat(fileno(f), &st) != 0) return 2;
	in = lha_input_stream_from_FILE(f);
	rd = lha_reader_new(in);
	while ((h = lha_reader_next_file(rd)) != NULL && n < 4096) { lha_file_header_add_ref(h); members[n++] = h; }
	ref_listing(cmd, 0, members, n, (u32) st.st_mtime, now);
	return 0;
}
