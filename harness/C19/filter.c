/* -DWHICH=1 (filter.sel): lha_filter_next_file / matches_filter real, match_glob replaced (driver rename_defs) by a stub that
 *            returns the verdict of the reference matcher - justified by
 * -DWHICH=2 (glob.match): the real recursive match_glob against the reference matcher for every pattern / name within the bound.
 *
 * C19 (member selection): real src/filter.c - lha_filter_next_file / matches_filter / match_glob - over a reader stub that
 * serves NM members; the rows a list command prints are exactly the members whose path+filename matches one of the
 * wildcard arguments (all members when there are none), in archive order.
 * Reference (independent, iterative): a pattern matches a WHOLE name; '*' stands for any run of characters (also none),
 * '?' for exactly one character, every other character for itself. */
#include "verif.h"
#include <stdlib.h>
#include <string.h>
#ifndef NM
#define NM 2
#endif
#ifndef PATL
#define PATL 3
#endif
#ifndef NAML
#define NAML 2
#endif
static char fpool[8];
static unsigned fpool_live;
static void *verif_malloc(size_t n) { CHECK(n <= sizeof(fpool) && fpool_live == 0, "harness: one small allocation at a time"); fpool_live = 1; return fpool; }
static void verif_free(void *p) { if (p == (void *) fpool) fpool_live = 0; }
#define malloc verif_malloc
#define free verif_free
#include "src/filter.c"
#undef malloc
#undef free

static LHAFileHeader hdrs[NM];
static unsigned served;
LHAFileHeader *lha_reader_next_file(LHAReader *reader) { (void) reader; return served < NM ? &hdrs[served++] : NULL; }

#ifndef WHICH
#define WHICH 1
#endif
/* reference: set of pattern positions reachable after each name character */
static int ref_glob(const char *pat, unsigned plen, const char *str, unsigned slen)
{
	u8 reach[PATL + 1], next[PATL + 1];
	unsigned i, j;
	for (j = 0; j <= PATL; ++j) reach[j] = 0;
	reach[0] = 1;
	for (j = 0; j < PATL; ++j) if (j < plen && reach[j] && pat[j] == '*') reach[j + 1] = 1;
	for (i = 0; i < NAML + 1; ++i) {
		if (i >= slen) break;
		for (j = 0; j <= PATL; ++j) next[j] = 0;
		for (j = 0; j < PATL; ++j) {
			if (j < plen && reach[j]) {
				if (pat[j] == '*') next[j] = 1;
				else if (pat[j] == '?' || pat[j] == str[i]) next[j + 1] = 1;
			}
		}
		for (j = 0; j < PATL; ++j) if (j < plen && next[j] && pat[j] == '*') next[j + 1] = 1;
		for (j = 0; j <= PATL; ++j) reach[j] = next[j];
	}
	return reach[plen];
}
static unsigned ref_len(const char *s, unsigned max) { unsigned n = 0; while (n < max && s[n] != '\0') ++n; return n; }

#if WHICH == 1
static unsigned glob_calls;
static int match_glob(char *glob, char *str)
{
	++glob_calls;
	CHECK(glob != NULL && str == fpool, "match_glob is given a wildcard argument and the joined path+filename");
	return ref_glob(glob, ref_len(glob, PATL), str, ref_len(str, NAML + 1));
}
#endif

#if WHICH == 2
void harness(void)
{
	INPUT_ARRAY(u8, p, PATL + 1); INPUT_ARRAY(u8, s, NAML + 2);
	static char pat[PATL + 1], str[NAML + 2];
	unsigned i;
	int real, ref;
	for (i = 0; i < PATL; ++i) pat[i] = (char) p[i];
	pat[PATL] = '\0';
	for (i = 0; i < NAML + 1; ++i) str[i] = (char) s[i];
	str[NAML + 1] = '\0';
	real = match_glob(pat, str);
	ref = ref_glob(pat, ref_len(pat, PATL), str, ref_len(str, NAML + 1));
	CHECK((real != 0) == (ref != 0), "C19: match_glob agrees with the wildcard semantics (* any run, ? one character, whole name)");
	if (real && p[0] == '*' && p[1] == 'b' && p[2] == '*' && s[0] == 'a' && s[1] == 'b' && s[2] == 'c') WITNESS("*b* matches abc");
	if (!real && p[0] == '?' && p[1] == 0 && s[0] != 0 && s[1] != 0) WITNESS("? does not match two characters");
	if (real && p[0] == '*' && p[1] == '*' && p[2] == 0 && s[0] == 0) WITNESS("** matches the empty name");
	WITNESS("end");
}
#else
void harness(void)
{
	INPUT_ARRAY(u8, pats, 2 * (PATL + 1)); INPUT_ARRAY(u8, dirs, NM); INPUT_ARRAY(u8, names, NM * (NAML + 1)); INPUT(u8, npat); INPUT_ARRAY(u8, have_dir, NM);
	static char pat[2][PATL + 1], dir[NM][2], nam[NM][NAML + 1], whole[NM][NAML + 2];
	char *filters[2];
	LHAFilter filter;
	unsigned i, j, k, expect_n = 0, got_n = 0;
	LHAFileHeader *expect[NM], *h;
	ASSUME(npat <= 2);
	for (i = 0; i < 2; ++i) { for (j = 0; j < PATL; ++j) pat[i][j] = (char) pats[i * (PATL + 1) + j]; pat[i][PATL] = '\0'; filters[i] = pat[i]; }
	for (i = 0; i < NM; ++i) {
		unsigned w = 0;
		dir[i][0] = (char) dirs[i]; dir[i][1] = '\0';
		for (j = 0; j < NAML - 1; ++j) nam[i][j] = (char) names[i * (NAML + 1) + j];
		nam[i][NAML - 1] = '\0';
		hdrs[i].path = (have_dir[i] & 1) ? dir[i] : NULL;
		hdrs[i].filename = nam[i];
		/* the name a pattern is matched against: path followed by file name */
		if ((have_dir[i] & 1) && dir[i][0] != '\0') whole[i][w++] = dir[i][0];
		for (k = 0; k < NAML - 1 && nam[i][k] != '\0'; ++k) whole[i][w++] = nam[i][k];
		whole[i][w] = '\0';
	}
	for (i = 0; i < NM; ++i) {
		int sel = (npat == 0);
		for (j = 0; j < 2; ++j)
			if (j < npat && ref_glob(pat[j], ref_len(pat[j], PATL), whole[i], ref_len(whole[i], NAML + 1))) sel = 1;
		if (sel) expect[expect_n++] = &hdrs[i];
	}
	lha_filter_init(&filter, NULL, filters, npat);
	for (i = 0; i <= NM; ++i) {
		h = lha_filter_next_file(&filter);
		if (h == NULL) break;
		CHECK(got_n < expect_n && h == expect[got_n], "C19: members are selected by the wildcard arguments, in archive order");
		++got_n;
	}
	CHECK(got_n == expect_n, "C19: every member matching a wildcard argument is listed");
	CHECK(fpool_live == 0, "the joined name is released");
	if (npat == 1 && pat[0][0] == '*' && pat[0][1] == '?' && pat[0][2] == '\0' && got_n == NM) WITNESS("*? selects every non-empty name");
	if (npat == 2 && got_n == 1 && expect[0] == &hdrs[NM - 1]) WITNESS("only the last member selected");
	if (npat == 1 && got_n == 0) WITNESS("nothing selected");
	WITNESS("end");
}
#endif
