/* C19: one column handler of src/list.c per harness (-DWHICH) against the reference renderer, on a symbolic header.
 *  1 permission  2 uid/gid  3 packed+size  4 ratio (row)  5 method/CRC  6 timestamp  7 full timestamp
 *  8 name  9 whole-line name  10 header level  11 ratio footer + size/packed/count footers  12 timestamp footers */
#include "C18/sym_header.h"
#include "C19/c19_env.h"
#ifndef WHICH
#define WHICH 1
#endif
void harness(void)
{
	SYM_HEADER_INPUTS;
	SYM_TIME_INPUTS;
	INPUT(u32, st_files); INPUT(u32, st_clen); INPUT(u32, st_len); INPUT(u32, st_ts);
	LHAFileHeader *h = &hdrs[0];
	FileStatistics stats;
	out_check = 0;
	SYM_HEADER_FILL(h);
	SYM_TIME_FILL();
	C19_HEADER_RANGES();
	stats.num_files = st_files; stats.compressed_length = st_clen; stats.length = st_len; stats.timestamp = st_ts;
#if WHICH == 1
	permission_column_print(h); ref_perm(h);
	CHECK(out_n == 10, "C19: the permission column is 10 characters wide");
	if ((flags & 0x11) == 0x01 && (perms & 0777) == 0754 && have_target && hmethod[3] == 'd' && hmethod[0] == '-' && hmethod[1] == 'l' && hmethod[2] == 'h' && hmethod[4] == '-') WITNESS("lrwxr-xr-- symlink");
	if ((flags & 0x10) && os9 == 013) WITNESS("OS-9 permissions 013");
	if (!(flags & 0x11) && os == 'K') WITNESS("OS name [OS-9/68K]");
#elif WHICH == 2
	unix_uid_gid_column_print(h); ref_owner(h);
	if ((flags & 2) && uid == 65535 && gid == 7) WITNESS("uid 65535 gid 7");
	if (!(flags & 2)) WITNESS("no ids");
#elif WHICH == 3
	packed_column_print(h); verif_printf(" "); size_column_print(h);
	ref_size(clen); ref_b(' '); ref_size(len);
	if (clen == 0xffffffffu && len == 0) WITNESS("packed 2^32-1, size 0");
#elif WHICH == 4
	ratio_column_print(h); ref_ratio_row(h);
	if (len == 0 && clen != 0 && hmethod[3] != 'd') WITNESS("original size 0");
	if (clen > len && len > 0) WITNESS("packed > original");
	if (out_n == 6) WITNESS("directory stars");
#elif WHICH == 5
	method_crc_column_print(h); ref_method_crc(h);
	if (crc == 0x00ab) WITNESS("crc 00ab");
#elif WHICH == 6
	timestamp_column_print(h); ref_stamp(ts, (long long) now);
	if (ts != 0) CHECK(sym_localtime_calls == 1 && sym_time_calls == 1, "timestamp column consults the clock");
	if (ts != 0 && (u64) ts + 15552000 == now) WITNESS("exactly six months old: year form");
	if (ts != 0 && (u64) ts + 15552000 == now + 1) WITNESS("one second younger than six months: time of day");
	if (ts > now && now > 0) WITNESS("stamp in the future");
	if (ts == 0) WITNESS("blank stamp");
#elif WHICH == 7
	full_timestamp_column_print(h); ref_full_stamp(ts);
	if (ts == 0xffffffffu && sec == 60) WITNESS("last 32-bit stamp, leap second");
#elif WHICH == 8
	{
		/* every presence pattern of path / filename / link target, one compared segment each */
		unsigned pat;
		for (pat = 0; pat < 8; ++pat) {
			h->path = (pat & 1) ? sh_path : NULL; h->filename = (pat & 2) ? sh_name : NULL; h->symlink_target = (pat & 4) ? sh_target : NULL;
			name_column_print(h); ref_name(h, 0);
			if (pat == 7 && out_n == 3 * SL + 4) WITNESS("path + name -> target, all of full length");
			if (pat == 0) CHECK(out_n == 0, "nothing to print for an entry without names");
			c19_segment();
		}
	}
#elif WHICH == 9
	{
		unsigned pat;
		for (pat = 0; pat < 8; ++pat) {
			h->path = (pat & 1) ? sh_path : NULL; h->filename = (pat & 2) ? sh_name : NULL; h->symlink_target = (pat & 4) ? sh_target : NULL;
			whole_line_name_column_print(h); ref_name(h, 1);
			if (pat == 6 && out_n == 2 * SL + 2) WITNESS("name|target");
			c19_segment();
		}
	}
#elif WHICH == 10
	header_level_column_print(h); ref_level(h);
	if (level == 3) WITNESS("level 3");
#elif WHICH == 11
	/* count, packed total, size total, ratio of totals: as they appear in the v footer */
	permission_column_footer(&stats); verif_printf(" "); unix_uid_gid_column_footer(&stats); verif_printf(" "); packed_column_footer(&stats); verif_printf(" ");
	size_column_footer(&stats); verif_printf(" "); ratio_column_footer(&stats);
	ref_total_label(); ref_b(' '); ref_total_count(st_files); ref_b(' ');
	ref_size(st_clen); ref_b(' '); ref_size(st_len); ref_b(' ');
	ref_total_ratio(st_clen, st_len);
	if (st_files == 1) WITNESS("1 file");
	if (st_len == 0 && st_clen != 0) WITNESS("empty total");
#elif WHICH == 12
	timestamp_column_footer(&stats); ref_stamp(st_ts, (long long) now);
	if (st_ts != 0 && (u64) st_ts + 15552000 > now) WITNESS("recent archive");
	c19_segment();
	full_timestamp_column_footer(&stats); ref_full_stamp(st_ts);
#endif
	c19_compare();
	WITNESS("end");
}
