/* C19: assembly of the listing by src/list.c - list_file_basic / list_file_verbose -> list_file_contents ->
 * print_columns, print_footers (all real) - for one command per harness
 * (-DCMD 0 l, 1 lv, 2 v, 3 vv), every quiet level 0..2 and 0..NHDR members with arbitrary sizes.
 * The per-column handlers and footers are replaced (driver rename_defs) by stubs that emit ONE marker token naming
 * the field and the member shown (footers: the total they are given); the reference renderer runs in the same
 * marker mode; print_list_headings / print_list_separators are likewise replaced by one marker naming the column set
 * (their bytes are compared by head.*).  Compared: presence and place of heading and separator lines, the order of rows and of the fields in a row,
 * separating blanks, line ends, blank fill of footer-less columns, count and 32-bit totals, quiet handling.
 * What each handler prints for its field is compared with the reference by the col.* harnesses. */
#define REF_MARKERS 1
#include "C18/sym_header.h"
#include "C19/c19_env.h"
#ifndef CMD
#define CMD 0
#endif

static void permission_column_print(LHAFileHeader *header) { out_mark(REF_F_PERM, header, 0); }
static void unix_uid_gid_column_print(LHAFileHeader *header) { out_mark(REF_F_OWNER, header, 0); }
static void packed_column_print(LHAFileHeader *header) { out_mark(REF_F_PACKED, header, 0); }
static void size_column_print(LHAFileHeader *header) { out_mark(REF_F_SIZE, header, 0); }
static void ratio_column_print(LHAFileHeader *header) { out_mark(REF_F_RATIO, header, 0); }
static void method_crc_column_print(LHAFileHeader *header) { out_mark(REF_F_METHOD, header, 0); }
static void timestamp_column_print(LHAFileHeader *header) { out_mark(REF_F_STAMP, header, 0); }
static void full_timestamp_column_print(LHAFileHeader *header) { out_mark(REF_F_FULLSTAMP, header, 0); }
static void name_column_print(LHAFileHeader *header) { out_mark(REF_F_NAME, header, 0); }
static void whole_line_name_column_print(LHAFileHeader *header) { out_mark(REF_F_NAME2, header, 0); }
static void header_level_column_print(LHAFileHeader *header) { out_mark(REF_F_LEVEL, header, 0); }
static void permission_column_footer(FileStatistics *stats) { (void) stats; out_mark(REF_F_TOTAL_LABEL, NULL, 0); }
static void unix_uid_gid_column_footer(FileStatistics *stats) { out_mark(REF_F_TOTAL_COUNT, NULL, stats->num_files); }
static void packed_column_footer(FileStatistics *stats) { out_mark(REF_F_TOTAL_PACKED, NULL, stats->compressed_length); }
static void size_column_footer(FileStatistics *stats) { out_mark(REF_F_TOTAL_SIZE, NULL, stats->length); }
static void ratio_column_footer(FileStatistics *stats) { out_mark(REF_F_TOTAL_RATIO, NULL, (u64) stats->compressed_length << 32 | stats->length); }
static void timestamp_column_footer(FileStatistics *stats) { out_mark(REF_F_TOTAL_STAMP, NULL, stats->timestamp); }
static void full_timestamp_column_footer(FileStatistics *stats) { out_mark(REF_F_TOTAL_FULLSTAMP, NULL, stats->timestamp); }

static u64 comp_set_of(ListColumn **columns)
{
	return columns == normal_column_headers ? REF_L : columns == normal_column_headers_verbose ? REF_LV
	     : columns == verbose_column_headers ? REF_V : columns == verbose_column_headers_verbose ? REF_VV : 99;
}
static void print_list_headings(ListColumn **columns) { out_mark(REF_F_HEADING, NULL, comp_set_of(columns)); }
static void print_list_separators(ListColumn **columns) { out_mark(REF_F_SEPARATOR, NULL, comp_set_of(columns)); }

void harness(void)
{
	INPUT_ARRAY(u32, clens, NHDR); INPUT_ARRAY(u32, lens, NHDR); INPUT(u32, mtime); INPUT(u64, now);
	LHAFilter filter;
	LHAOptions options;
	LHAFileHeader *members[NHDR];
	unsigned i, q, n, rows = 0;
	out_check = 0;
	for (i = 0; i < NHDR; ++i) { hdrs[i].compressed_length = clens[i]; hdrs[i].length = lens[i]; members[i] = &hdrs[i]; }
	sym_mtime = mtime; sym_fstat_fails = 0; sym_now = (time_t) (now >> 24);
	filter.reader = NULL; filter.filters = NULL; filter.num_filters = 0;
	options.overwrite_policy = LHA_OVERWRITE_PROMPT; options.verbose = CMD & 1;
	options.dry_run = 0; options.extract_path = NULL; options.use_path = 1;
	for (q = 0; q < 3; ++q) {
		for (n = 0; n <= NHDR; ++n) {
			options.quiet = (int) q; hdr_count = n; hdr_served = 0;
			if (CMD & 2) list_file_verbose(&filter, &options, stdin);
			else list_file_basic(&filter, &options, stdin);
			CHECK(hdr_served == n, "C19: every selected member is listed");
			ref_listing(CMD, (int) q, members, n, mtime, (long long) (now >> 24));
			if (q == 0 && n == NHDR) {
				if ((u64) lens[0] + lens[1] > 0xffffffffu) WITNESS("32-bit size total wraps");
				rows = out_n;
			}
			if (q == 2 && n == 0) CHECK(out_n == 0, "C19: a quiet listing of no members is empty");
			c19_segment();
		}
	}
	CHECK(rows > 3 + 3 * 10 + 10, "headings, separators, rows and footer were written");
	CHECK(c19_segments == 3 * (NHDR + 1), "all quiet levels and member counts were compared");
	WITNESS("end");
}
