/* C19: headings and separator lines of one column set of src/list.c (-DCMD 0 l, 1 lv, 2 v, 3 vv) against the
 * reference renderer (head.*): print_list_headings(set), print_list_separators(set), byte for byte.
 * (WHICH 1 / 3 - a whole row / footer with every field symbolic - do not finish under CBMC: token positions become
 * symbolic after the first variable-length field; rows and footers are covered by col.* + comp.* + e2e.* instead.) */
#include "C18/sym_header.h"
#include "C19/c19_env.h"
#ifndef CMD
#define CMD 0
#endif
#ifndef WHICH
#define WHICH 2
#endif
#ifndef PAT
#define PAT 3
#endif
static ListColumn **c19_set(int cmd)
{
	return cmd == REF_L ? normal_column_headers : cmd == REF_LV ? normal_column_headers_verbose
	     : cmd == REF_V ? verbose_column_headers : verbose_column_headers_verbose;
}
void harness(void)
{
	SYM_HEADER_INPUTS;
	SYM_TIME_INPUTS;
	INPUT(u32, st_files); INPUT(u32, st_clen); INPUT(u32, st_len); INPUT(u32, st_ts);
	LHAFileHeader *h = &hdrs[0];
	FileStatistics stats;
	out_check = 0;
	SYM_HEADER_FILL(h);
	SYM_TIME_FILL();
	C19_HEADER_RANGES();
	stats.num_files = st_files; stats.compressed_length = st_clen; stats.length = st_len; stats.timestamp = st_ts;
#if WHICH == 1
	h->path = (PAT & 1) ? sh_path : NULL; h->filename = (PAT & 2) ? sh_name : NULL; h->symlink_target = (PAT & 4) ? sh_target : NULL;
	print_columns(c19_set(CMD), h);
	ref_row(CMD, h, (long long) now);
	if ((flags & 0x13) == 0x03 && ts != 0 && (u64) ts + 15552000 > now && len > 0 && clen > len) WITNESS("Unix row, ids, recent stamp, packed > original");
	if ((flags & 0x13) == 0 && ts == 0) WITNESS("OS name, no ids, blank stamp");
#elif WHICH == 2
	print_list_headings(c19_set(CMD)); ref_heading(CMD);
	c19_segment();
	print_list_separators(c19_set(CMD)); ref_separator(CMD);
#elif WHICH == 3
	print_footers(c19_set(CMD), &stats);
	ref_footer(CMD, st_files, st_clen, st_len, st_ts, (long long) now);
	if (st_files == 1 && st_len == 0) WITNESS("one file, empty total");
	if (st_files == 70000 && st_clen > st_len && st_len > 0) WITNESS("70000 files, packed total > size total");
#endif
	c19_compare();
	WITNESS("end");
}
