CLAIM = ("Termination and work bounds as solver queries: explicit step budgets (ghost counters in the environment stubs) and "
         "unwinding assertions with bounds derived from the input sizes, over the skip loops, the SFX scan, the decoder read loop "
         "and the header-extension loops, the MacBinary envelope loop, the seek path over the 32-bit range; allocation sizes bounded by constants + bytes consumed (header growth by exactly nbytes and <= 1 MiB per request; one decoder <= about 2 MiB from the real method table; at most two decoders alive per reader).")
ASSUMPTIONS = ["source read contract: returns <= requested, 0 at end of data, -1 on error"]
from C16 import SKIP, SKIP_FIX, it
from hdr_common import l1ext, walk, extend
from rsm_common import pos, rsm
HARNESSES = [
    dict(name="skip.fallback", src="C13/skip.c", unwind=9, units=["lib/lha_input_stream.c:lha_input_stream_skip"], timeout=300,
         bounds="skip of 0..70 bytes over a stream of 0..100 bytes the first 3 reads arbitrarily short; budget ceil(bytes/32)+4 source reads",
         stubs=["src_read: symbolic source, symbolic short reads, 0 at end"], unwind_is_property=True),
    dict(name="sizes.table", src="C13/sizes.c", unwind=16, unwindset={"strcmp.0": 7, "memcmp.0": 7}, timeout=300, mem_gb=4,
         extra_srcs=["lib/crc16.c", "lib/null_decoder.c", "lib/lz5_decoder.c", "lib/lzs_decoder.c", "lib/lh1_decoder.c", "lib/lh5_decoder.c", "lib/lh6_decoder.c", "lib/lh7_decoder.c", "lib/lhx_decoder.c", "lib/lk7_decoder.c", "lib/pm1_decoder.c", "lib/pm2_decoder.c"],
         units=["lib/lha_decoder.c:decoders[],lha_decoder_for_name", "the 12 decoder type objects"], bounds="concrete table; one symbolic 5-byte name"),
    dict(name="macbin.term", src="C13/macbin_term.c", defines=["PMIN=32"], unwind=8, unwindset={"read_macbinary_header.0": 6, "block_is_zero.0": 66, "verif_memcmp.0": 66, "strlen.0": 4}, unwind_is_property=True,
         units=["lib/macbinary.c:read_macbinary_header"], timeout=300, mem_gb=4, bounds="inner decoder delivering arbitrary pieces of >= 32 bytes (or the rest), ending anywhere", stubs=["inner decoder: arbitrary piece sizes"]),
    SKIP] + SKIP_FIX[:2] + [dict(name="skip.seek", src="C16/skip.c", entry="harness_seek", unwind=6, units=["lib/lha_input_stream.c:file_source_skip"], timeout=120, mem_gb=4,
         bounds="any position/length, any skip distance 0..2^32-1 on a seekable stream", stubs=["FILE: (position, length, seekable, eof) model"]),
    it(len0=0, ret=24, timeout=120), it(len0=12, ret=1, timeout=120), it(len0=3, ret=0, timeout=120), l1ext(13), walk(16), extend(3), pos(3), rsm(2, 4, timeout=600),
    dict(name="decread.b4", src="C09/decread.c", defines=["BUFLEN=4"], unwind=8, unwindset={"lha_decoder_read.0": 7, "lha_crc16_buf.0": 6, "verif_memcpy.0": 5}, extra_srcs=["lib/crc16.c"], optional_witnesses=True,
         units=["lib/lha_decoder.c:lha_decoder_read"], timeout=300, mem_gb=4, bounds="inductive step of the decoder read loop: arbitrary bookkeeping state, 4-byte request", stubs=["method read(): arbitrary count <= max_read"]),
]

# memory stays bounded over many members only if each decoder that is created is released again: the allocation
# pairing of lha_decoder_new (init succeeding or failing) is decided by the leak harness shared with C20
from C20 import HARNESSES as _C20H
HARNESSES += [h for h in _C20H if h["name"] == "decoder.new"]
