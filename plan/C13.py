CLAIM = ("Termination and work bounds as solver queries: explicit step budgets (ghost counters in the environment stubs) and "
         "unwinding assertions with bounds derived from the input sizes, over the skip loops, the SFX scan, the decoder read loop "
         "and the header-extension loops; allocation sizes bounded by constants + bytes consumed.")
ASSUMPTIONS = ["source read contract: returns <= requested, 0 at end of data, -1 on error"]
from C16 import SKIP, it
from hdr_common import l1ext, walk, extend
from rsm_common import pos
HARNESSES = [
    dict(name="skip.fallback", src="C13/skip.c", unwind=9, units=["lib/lha_input_stream.c:lha_input_stream_skip"], timeout=300,
         bounds="skip of 0..70 bytes over a stream of 0..100 bytes the first 3 reads arbitrarily short; budget ceil(bytes/32)+4 source reads",
         stubs=["src_read: symbolic source, symbolic short reads, 0 at end"], unwind_is_property=True),
    SKIP, it(len0=0, ret=24, timeout=120), it(len0=12, ret=1, timeout=120), it(len0=3, ret=0, timeout=120), l1ext(13), walk(16), extend(3), pos(3),
]
