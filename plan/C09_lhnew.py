"""C09, lh_new family (-lh4/5/6/7/x-, -lk7-): memory-safety harnesses.  HARNESSES_LHNEW is meant to be appended to
plan/C09.py's HARNESSES; the file is also a plan of its own (bin/check C09_lhnew) for calibration."""
CLAIM = ("lh_new decoders: init establishes the invariant; every table reader is memory safe on arbitrary bits at the real clamps; "
         "one read() from an arbitrary invariant state into a buffer of exactly max_read bytes is memory safe, returns <= max_read and "
         "re-establishes the invariant.")
ASSUMPTIONS = ["callback contract: stores at most buf_len bytes and returns that count",
               "tree builder / tree walk are verified separately on trees satisfying T (C09 tree.* harnesses); here they are contract stubs"]
BITS = {"lib/bit_stream_reader.c": ["peek_bits", "read_bits", "read_bit"]}
BITSTUB = "peek_bits/read_bits/read_bit: arbitrary value of the requested width or failure per call, asserting n <= 31 (justified by bits.safe)"
S_LEN = "read_length_value: any value >= 0 or failure (unbounded unary extension; its only accesses are bit reader calls)"
S_BUILD = "build_tree: contract stub asserting target tree, true tree length, n within capacity, code_lengths[0..n) readable (postcondition T with leaves < n: tree.expand/add.*)"
S_WALK = "read_from_tree: contract stub returning a leaf value within the tree's leaf bound or failure (walk on T-trees in bounds and terminating: tree.walk.*)"
S_OUTB = "output_byte: contract stub asserting room in the max_read buffer and position inside the ring, advancing both (real function: lhnew.outbyte.*)"
S_BLOCK = "start_new_block: contract stub (16-bit count, success/failure, trees stay within the invariant: lhnew.blockhdr + table reader harnesses)"
LHN = "lib/lh_new_decoder.c"
TD = "lib/tree_decode.c"


def rn(extra):
    d = dict(BITS)
    for k, v in extra.items():
        d[k] = d.get(k, []) + v
    return d


def lh(name, entry, defs, renames, unwindset, bounds, stubs, units, tier="both", timeout=300, flags=(), mem_gb=4, backend="default"):
    return dict(name="lhnew." + name, src="C09/lhnew.c", entry=entry, defines=defs, rename_defs=rn(renames), mode="safety", unwindset=unwindset,
                flags=list(flags), tier=tier, timeout=timeout, mem_gb=mem_gb, backend=backend, bounds=bounds, stubs=[BITSTUB] + stubs,
                units=[LHN + ":" + units])


def read_h(tag, inst, longest, tier="both", timeout=600, real_outbyte=False):
    defs = inst + ["H_READ", "STUB_WALK", "STUB_BLOCK"] + ([] if real_outbyte else ["STUB_OUTBYTE"])
    ren = {TD: ["read_from_tree"], LHN: ["start_new_block"] + ([] if real_outbyte else ["output_byte"])}
    return lh("read." + tag, "harness_read", defs, ren, {"lha_lh_new_read.0": 5, "copy_from_history.0": longest + 2},
              "%s: arbitrary ring contents / position / block_remaining (0: up to 3 block headers) / bit buffer, arbitrary code-tree leaf 0..511 and offset-tree leaf 0..MAX_OFFSET_CODES, arbitrary bits; output buffer object of exactly OUTPUT_BUFFER_SIZE bytes; copy of up to %d bytes%s"
              % (tag, longest, " with the real output_byte (ring writes)" if real_outbyte else ""),
              [S_WALK, S_BLOCK] + ([] if real_outbyte else [S_OUTB]),
              "lha_lh_new_read,read_code,read_offset_code,copy_from_history" + (",output_byte" if real_outbyte else "") + (",lhark_decode_copy_count,lhark_read_offset_code" if "LK" in inst or "REAL_LK7" in inst else ""),
              tier=tier, timeout=timeout, flags=[] if real_outbyte else ["--arrays-uf-always"], mem_gb=6)


HARNESSES_LHNEW = [
    lh("init.lh5", "harness_init", ["REAL_LH5", "H_INIT"], {}, {"memset.0": 16386, "init_tree.0": 1022},
       "real lh5 sizes; any tree cell", [], "lha_lh_new_init,init_ring_buffer", mem_gb=6),
    lh("temp", "harness_temp", ["REAL_LH5", "H_TEMP", "STUB_LEN", "STUB_BUILD"], {LHN: ["read_length_value"], TD: ["build_tree"]},
       {"read_temp_table.0": 5, "read_temp_table.1": 33, "harness_temp.0": 64, "t_ok.0": 64},
       "read_temp_table (identical in all instantiations: MAX_TEMP_CODES 31): arbitrary bits, arbitrary length values, arbitrary prior temp tree within T",
       [S_LEN, S_BUILD], "read_temp_table"),
] + [
    lh("offtab." + m, "harness_offtab", [inst, "H_OFFTAB", "STUB_LEN", "STUB_BUILD"], {LHN: ["read_length_value"], TD: ["build_tree"]},
       {"read_offset_table.0": n + 2, "harness_offtab.0": 2 * n + 2, "t_ok.0": 2 * n + 2},
       "read_offset_table at the real OFFSET_BITS of %s (MAX_OFFSET_CODES %d): arbitrary bits and length values, arbitrary prior offset tree within T" % (m, n),
       [S_LEN, S_BUILD], "read_offset_table", tier=tier)
    for m, inst, n, tier in [("lh5", "REAL_LH5", 15, "both"), ("lh7", "REAL_LH7", 31, "both"), ("lk7", "REAL_LK7", 63, "both")]
] + [
] + [
    lh("codetab.%s.k%d" % (m, k), "harness_codetab", [inst, "H_CODETAB", "STUB_WALK", "STUB_BUILD", "KSYM=%d" % k], {TD: ["build_tree", "read_from_tree"]},
       {"read_code_table.0": nc + 3, "read_code_table.1": k + 3},
       "read_code_table at the real NUM_CODES %d of %s: arbitrary n (9 bits, clamped), arbitrary temp symbols 0..31 and skip counts, %d writing loop rounds "
       "(zero runs reach every start index: 0 in round 1; 1, 3..18, 20.. in round 2; every i >= 2 in round 3)" % (nc, m, k),
       [S_WALK, S_BUILD], "read_code_table,read_skip_count", timeout=to, mem_gb=6, flags=["--slice-formula"], tier=tier)
    for m, inst, nc, k, tier, to in [("lh5", "REAL_LH5", 510, 2, "both", 600), ("lh5", "REAL_LH5", 510, 3, "thorough", 1800),
                                     ("lk7", "REAL_LK7", 289, 3, "both", 600)]
] + [
    lh("codetab.nc24", "harness_codetab", ["HB=9", "OB=4", "NC=24", "H_CODETAB", "STUB_WALK", "STUB_BUILD"], {TD: ["build_tree", "read_from_tree"]},
       {"read_code_table.0": 27, "read_code_table.1": 27},
       "read_code_table with the template instantiated at NUM_CODES 24: fully unrolled, any number of rounds", [S_WALK, S_BUILD], "read_code_table,read_skip_count"),
    lh("blockhdr", "harness_blockhdr", ["REAL_LH5", "H_BLOCKHDR"], {LHN: ["read_temp_table", "read_code_table", "read_offset_table"]}, {},
       "start_new_block with arbitrary bits; the three table readers replaced by arbitrary-result stubs",
       ["read_temp_table/read_code_table/read_offset_table: arbitrary success/failure (each has its own harness)"], "start_new_block"),
    lh("outbyte.lh5", "harness_outbyte", ["REAL_LH5", "H_OUTBYTE"], {}, {}, "real output_byte: arbitrary 16 KiB ring, position, buffer fill < max_read", [], "output_byte",
       flags=["--arrays-uf-always"]),
    read_h("lh5", ["REAL_LH5"], 258),
    dict(read_h("lk7.short", ["REAL_LK7", "CODE_LEAF_CAP=283"], 258),
         bounds="lk7 (real lib/lk7_decoder.c): as read.lh5, code-tree leaf restricted to 0..283 (LHARK lengths 3..258, all distance codes 0..63); the remaining length classes: read.lk7"),
    read_h("lk7", ["REAL_LK7"], 514, tier="thorough", timeout=1800),
    read_h("lh6", ["REAL_LH6"], 258, tier="thorough", timeout=1800),
    read_h("lh7", ["REAL_LH7"], 258, tier="thorough", timeout=1800),
    read_h("lhx", ["REAL_LHX"], 258),
    read_h("hb9", ["HB=9", "OB=4"], 258, real_outbyte=True, tier="thorough", timeout=1800),
]
HARNESSES = HARNESSES_LHNEW
