from hdr_common import *
CLAIM = ("Returned paths are clean: collapse_path on all strings up to the bound (component invariant, never longer, clean input unchanged); the name/path "
         "decoders (level-0/1 in-header name, file-name and path extended headers) on symbolic bytes; and the post-processing of lha_file_header_read "
         "(symlink 'name|target' split, all-caps folding, collapse) from arbitrary decoded strings: the returned name has no '/', every '/'-terminated "
         "path component is a real name.")
ASSUMPTIONS = ["C locale for islower/tolower (ASCII model)", "tail harness: the decoded name has no '/' on entry (established by l01.* and ext.01, which assert it)"]
U = ["lib/lha_file_header.c"]
HARNESSES = [
    dict(name="collapse.n6", src="C11/collapse.c", defines=["N=6"], unwind=9, units=U + ["collapse_path"],
         timeout=120, bounds="all NUL-terminated strings of <= 6 bytes (all 256 byte values)",
         claim="collapse_path output satisfies the component invariant, is never longer, never writes past the input; clean paths unchanged"),
    dict(name="collapse.n8", src="C11/collapse.c", defines=["N=8"], unwind=11, units=U + ["collapse_path"],
         timeout=300, bounds="all NUL-terminated strings of <= 8 bytes"),
    dict(name="collapse.n11", src="C11/collapse.c", defines=["N=11"], unwind=14, units=U + ["collapse_path"],
         tier="thorough", timeout=1800, bounds="all NUL-terminated strings of <= 11 bytes"),
    tail(3), l01(40), l01(40, oom=True), ext(0x01, 6), ext(0x02, 6), tail(4, timeout=1800, tier="thorough"), tail(5, timeout=3600, tier="thorough"),
]
