CLAIM = "Returned paths are clean: collapse_path on all strings up to the bound; name/path decoders on symbolic bytes."
ASSUMPTIONS = ["C locale for islower/tolower (ASCII model)"]
U = ["lib/lha_file_header.c"]
HARNESSES = [
    dict(name="collapse.n6", src="C11/collapse.c", defines=["N=6"], unwind=9, units=U + ["collapse_path"],
         timeout=120, bounds="all NUL-terminated strings of <= 6 bytes (all 256 byte values)",
         claim="collapse_path output satisfies the component invariant, is never longer, never writes past the input; clean paths unchanged"),
    dict(name="collapse.n8", src="C11/collapse.c", defines=["N=8"], unwind=11, units=U + ["collapse_path"],
         timeout=300, bounds="all NUL-terminated strings of <= 8 bytes"),
    dict(name="collapse.n11", src="C11/collapse.c", defines=["N=11"], unwind=14, units=U + ["collapse_path"],
         tier="thorough", timeout=1800, bounds="all NUL-terminated strings of <= 11 bytes"),
]
