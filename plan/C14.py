CLAIM = ("lha_decoder_read: self-composition of a split schedule against one maximal read over a scripted decoder with "
         "symbolic chunk sizes/contents (valid and failing streams), symbolic declared length, symbolic read sizes incl. 0 "
         "and oversize; length/CRC accessors against an independent CRC-16; monitor sequence 0,1,2,... for every attach point; inductive single-read step from an arbitrary bookkeeping state (never beyond the declared length for any size_t length, short only at the end or after the method ran dry); lha_decoder_new incl. failing init (nothing leaked).")
ASSUMPTIONS = ["decoder read() contract: returns <= max_read bytes, 0 = end/failure",
               "memcpy modelled by a byte loop"]
U = ["lib/lha_decoder.c", "lib/crc16.c"]
HARNESSES = [
    dict(name="decread.b4", src="C09/decread.c", defines=["BUFLEN=4"], unwind=8, unwindset={"lha_decoder_read.0": 7, "lha_crc16_buf.0": 6, "verif_memcpy.0": 5}, extra_srcs=["lib/crc16.c"], optional_witnesses=True,
         units=["lib/lha_decoder.c:lha_decoder_read"], timeout=300, mem_gb=4, bounds="inductive step: arbitrary bookkeeping state (declared length any 32-bit value), 4-byte request, method read() returning any count <= max_read",
         stubs=["method read(): arbitrary count <= max_read"]),
    dict(name="split.c2r2", src="C14/split.c", defines=["CH=2", "MAXCH=2", "RD=2"], unwind=9, units=U, timeout=300, mem_gb=4,
         bounds="2 chunks x <=2 bytes, 2 reads of size 0..7, declared length 0..6, monitor attached before any read"),
    dict(name="split.c3r3", src="C14/split.c", defines=["CH=3", "MAXCH=2", "RD=3"], unwind=11, units=U, timeout=2400, mem_gb=8, tier="thorough",
         bounds="3 chunks x <=2 bytes, 3 reads of size 0..9, declared length 0..8"),
    dict(name="decoder.new", src="C14/split.c", entry="harness_new", unwind=4, leak=True, units=U, timeout=120,
         bounds="lha_decoder_new with a 4-byte private area and 3-byte output buffer"),
]
