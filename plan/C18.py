CLAIM = "wip"
ASSUMPTIONS = []
LIST_UNITS = ["src/list.c", "src/safe.c"]
OM = {"out_vformat.4": 90, "out_vformat.0": 3, "out_vformat.1": 4, "out_vformat.2": 4, "out_vformat.3": 3, "out_strlen.0": 41, "out_pad.0": 12, "out_str.0": 58, "out_str.1": 41, "out_hex.0": 9, "out_hex.1": 9, "out_hex.2": 9, "lha_arch_vasprintf.0": 65}
def U(**kw):
    d = dict(OM); d.update(kw); return d
LISTL = {"sym_header_fill.0": 4, "sym_header_fill.1": 6, "unix_permissions_print.0": 10, "os9_permissions_print.0": 8, "safe_output.0": 12,
         "last_column.0": 11, "print_list_headings.0": 22, "print_list_headings.1": 11, "print_list_separators.0": 22, "print_list_separators.1": 11,
         "print_columns.0": 11, "print_footers.0": 11, "print_footers.1": 11, "print_footers.2": 12, "print_footers.3": 11, "list_file_contents.0": 3, "harness.0": 6}
EXTL = {"sym_header_fill.0": 4, "sym_header_fill.1": 6, "safe_output.0": 58, "out_strlen.0": 57, "out_str.0": 57, "harness.0": 3, "harness.1": 7, "verif_malloc.0": 4, "verif_free.0": 4, "verif_strdup.0": 24,
        "strlen.0": 12, "strcat.0": 12, "strcat.1": 12, "strchr.0": 12, "file_full_path.0": 5, "file_full_path.1": 5,
        "progress_callback.0": 60, "make_parent_directories.0": 12, "make_parent_directories.1": 12, "make_parent_directories.2": 8,
        "prompt_user.0": 3, "confirm_file_overwrite.0": 4, "test_file_crc.0": 3, "extract_archive_dry_run.0": 3, "extract_archive.0": 3, "print_archive.0": 3, "print_archived_file.0": 2}
HARNESSES = [
    dict(name="safe.output", src="C18/safe.c", defines=["N=6"], unwindset=U(**{"safe_output.0": 12, "harness.0": 7, "harness.1": 7}), units=["src/safe.c"], timeout=120),
    dict(name="list.cols", src="C18/cols.c", defines=["WHICH=1", "SL=3"], unwindset=U(**{"sym_header_fill.0": 4, "sym_header_fill.1": 6, "unix_permissions_print.0": 10, "os9_permissions_print.0": 8, "safe_output.0": 12}), units=LIST_UNITS, timeout=120),
    dict(name="list.name", src="C18/cols.c", defines=["WHICH=2", "SL=3"], unwindset=U(**{"sym_header_fill.0": 4, "sym_header_fill.1": 6, "safe_output.0": 12}), units=LIST_UNITS, timeout=120),
    dict(name="list.method", src="C18/cols.c", defines=["WHICH=3", "SL=3"], unwindset=U(**{"sym_header_fill.0": 4, "sym_header_fill.1": 6, "safe_output.0": 12}), units=LIST_UNITS, timeout=120),
] + [
    dict(name="list."+n, src="C18/rows.c", defines=["CMD=%d" % c, "SL=3"] + (["METHOD_PRINTABLE=1"] if c >= 2 else []),
         unwindset=U(**LISTL), units=LIST_UNITS, timeout=300, mem_gb=4)
    for c, n in enumerate(["l", "lv", "v", "vv"])
] + [
    dict(name="ext."+n, src="C18/ext.c", defines=["WHICH=%d" % w, "SL=3", "XL=2", "OUT_MAXSTR=56"] + (["STUB_PARENTS=1"] if w == 4 else []),
         rename_defs=({"src/extract.c": ["make_parent_directories"]} if w == 4 else {}),
         unwindset=U(**EXTL), units=["src/extract.c", "src/safe.c"], timeout=300, mem_gb=4)
    for w, n in [(1, "msg"), (2, "dryrun"), (3, "test"), (4, "extract"), (5, "print"), (6, "parents")]
]
