CLAIM = ("Real src/list.c (every column handler, heading, separator and footer of the l / lv / v / vv column sets, list_file_basic / "
         "list_file_verbose), real src/extract.c (print_filename*, print_symlink_line, progress_callback, test_archived_file_crc, "
         "extract_archived_file with overwrite prompt / Skipped / parent-directory messages, extract_archive_dry_run, print_archive "
         "banners) and real src/safe.c, executed on a member whose path, filename, symlink_target, compress_method[0..4], unix_username "
         "and unix_group are ARBITRARY bytes (strings of length 0..3 over 0x01..0xFF, any of path/filename/target absent). libc's output "
         "functions are replaced by a model that interprets the concrete format string of every real call site and asserts that every "
         "byte written - format literal, %s / %c argument byte, padding, hex digit - is in {0x20..0x7E, LF, CR, TAB}; lha_arch_vasprintf "
         "is modelled by the same interpreter so that the real safe_output() rewrites the real formatted string. safe.output additionally "
         "proves, for ALL strings of up to 6 bytes, that safe_output/safe_printf/safe_fprintf preserve the length, leave printable bytes "
         "unchanged and write '?' for every other byte; safe.output.long repeats that for formatted output of 253..257 bytes (253 concrete filler bytes + all strings of <= 4 bytes), i.e. across a 256-byte formatting-buffer threshold.")
ASSUMPTIONS = [
    "header strings up to the stated length (3 bytes; 2 for the extract directory given on the command line; 5-6 for bare path strings)",
    "decimal / floating-point conversions (%d %i %u %lu %5.1f) are not rendered: their digits, sign, point and padding are printable by construction (libc trusted)",
    "member data written with fwrite by 'lha p' is outside the property (counted, not checked)",
    "localtime() returns an arbitrary valid broken-down time, time()/fstat() arbitrary values; arch layer, reader verdicts, progress callbacks and stdin are arbitrary",
    "the overwrite prompt is answered within 3 lines of at most 2 characters",
]
LIST_UNITS = ["src/list.c", "src/safe.c"]
EXT_UNITS = ["src/extract.c", "src/safe.c"]
OM = {"out_vformat.4": 90, "out_vformat.0": 8, "out_vformat.1": 8, "out_vformat.2": 8, "out_vformat.3": 8, "out_strlen.0": 57, "out_pad.0": 24,
      "out_str.0": 58, "out_str.1": 57, "out_hex.0": 17, "out_hex.1": 24, "out_hex.2": 17, "lha_arch_vasprintf.0": 65}
LISTL = {"sym_header_fill.0": 4, "sym_header_fill.1": 6, "unix_permissions_print.0": 14, "os9_permissions_print.0": 12, "safe_output.0": 20,
         "last_column.0": 11, "print_list_headings.0": 22, "print_list_headings.1": 11, "print_list_separators.0": 22, "print_list_separators.1": 11,
         "print_columns.0": 11, "print_footers.0": 11, "print_footers.1": 11, "print_footers.2": 12, "print_footers.3": 11, "list_file_contents.0": 4, "harness.0": 7}
EXTL = {"sym_header_fill.0": 4, "sym_header_fill.1": 6, "safe_output.0": 58, "harness.0": 3, "harness.1": 7, "verif_malloc.0": 4, "verif_free.0": 4,
        "verif_strdup.0": 24, "strlen.0": 12, "strcat.0": 12, "strcat.1": 12, "strchr.0": 12, "file_full_path.0": 5, "file_full_path.1": 5,
        "progress_callback.0": 60, "make_parent_directories.0": 12, "make_parent_directories.1": 12, "make_parent_directories.2": 8,
        "prompt_user.0": 3, "confirm_file_overwrite.0": 4, "test_file_crc.0": 3, "extract_archive_dry_run.0": 3, "extract_archive.0": 3,
        "print_archive.0": 3, "print_archived_file.0": 2}
def U(base, **kw):
    d = dict(OM); d.update(base); d.update(kw); return d

S_OUT = "printf/fprintf/vprintf/putchar/putc/fputc/puts/fputs/fflush/fwrite: output model (harness/common/out_model.h), every byte checked"
S_VAS = "lha_arch_vasprintf: the same format interpreter rendering into a static 64-byte buffer (%s %c %x); free() of it is tracked"
S_TIME = "localtime: arbitrary valid struct tm; time, fstat: arbitrary"
S_NEXT = "lha_filter_next_file: serves the harness' member(s) in order (src/filter.c is examined by C19 filter.sel)"
S_EXT = ["lha_arch_exists / lha_arch_mkdir: arbitrary result per call", "lha_reader_check / lha_reader_extract: arbitrary verdict, progress callback invoked 0, 1 or 2 times (block 0, block 1) with <= 3 blocks",
         "lha_reader_current_is_fake: arbitrary; lha_reader_read: end of data", "malloc / strdup / free: pool of three 24-byte strings (sizes checked)",
         "getchar: arbitrary characters, lines <= 2 characters, 'n' forced in the third line", "tolower: ASCII model"]

HARNESSES = [
    dict(name="safe.output", src="C18/safe.c", defines=["N=6", "VAS_MAY_FAIL"], flags=["--max-field-sensitivity-array-size", "320"], unwindset=U({"safe_output.0": 12, "harness.0": 7, "harness.1": 7}), units=["src/safe.c"], timeout=120,
         bounds="ALL strings of 0..6 bytes over 0x01..0xFF; safe_output, safe_printf(\"%s\"), safe_fprintf(stderr, \"%s\"), safe_printf(\" -> %s\")",
         stubs=[S_OUT + " and recorded", S_VAS],
         claim="length preserved; printable bytes unchanged; every byte < 0x20 or >= 0x7F written as '?'; return value = formatted length; buffer released"),
    dict(name="safe.output.long", src="C18/safe.c", defines=["N=4", "FILL=253", "VAS_MAX=272", "OUT_MAXSTR=264", "WHICH_FIX=1"], optional_witnesses=True, flags=["--max-field-sensitivity-array-size", "320"],
         unwindset=U({"safe_output.0": 264, "harness.0": 256, "harness.1": 7, "harness.2": 256, "harness.3": 7, "out_strlen.0": 266, "out_str.0": 266, "out_str.1": 266, "lha_arch_vasprintf.0": 274, "verif_vsnprintf.0": 274, "verif_vsnprintf.1": 274}),
         units=["src/safe.c"], timeout=240, mem_gb=6,
         bounds="safe_printf(\"%s\") on strings of 253 concrete filler bytes followed by ALL strings of 0..4 bytes over 0x01..0xFF (formatted output of 253..257 bytes: crosses 256)",
         stubs=[S_OUT + " and recorded", S_VAS.replace("64-byte", "272-byte")],
         claim="as safe.output, for output longer than 256 bytes (a length threshold that a fixed-size formatting buffer would introduce)"),
    dict(name="list.cols", src="C18/cols.c", defines=["WHICH=1", "SL=3"], unwindset=U(LISTL), units=LIST_UNITS, timeout=120,
         bounds="one header: strings <= 3 arbitrary bytes, 5 arbitrary method bytes, all flags/perms/ids/sizes/stamp/level/OS type arbitrary; arbitrary totals",
         stubs=[S_OUT, S_VAS, S_TIME],
         claim="permission (Unix, OS-9, OS name), uid/gid, packed, size, ratio, timestamp, full timestamp, header level handlers and all seven column footers write printable ASCII only"),
    dict(name="list.name", src="C18/cols.c", defines=["WHICH=2", "SL=3"], unwindset=U(LISTL), units=LIST_UNITS, timeout=180,
         bounds="path, filename, link target: each absent or any string of <= 3 bytes over 0x01..0xFF",
         stubs=[S_OUT, S_VAS], claim="name_column_print and whole_line_name_column_print write printable ASCII only"),
    dict(name="list.method", src="C18/cols.c", defines=["WHICH=3", "SL=3", "SYM_METHOD_ANY=1"], unwindset=U(LISTL), units=LIST_UNITS, timeout=120,
         bounds="compress_method[0..4] arbitrary bytes 0x00..0xFF (copied verbatim from the archive by lib/lha_file_header.c), CRC arbitrary",
         stubs=[S_OUT, S_VAS],
         claim="method_crc_column_print writes printable ASCII only (failed on the tree before /repo commit afe2020: the method bytes went through plain printf)"),
    dict(name="list.heads", src="C18/cols.c", defines=["WHICH=4", "SL=1"], unwindset=U(LISTL, **{"harness.0": 5}), units=LIST_UNITS, timeout=180, object_bits=14,
         bounds="all four column sets: headings, separators, footers for arbitrary totals", stubs=[S_OUT, S_VAS, S_TIME],
         claim="print_list_headings, print_list_separators, print_footers write printable ASCII only"),
] + [
    dict(name="list." + n, src="C18/rows.c", defines=["CMD=%d" % c, "SL=3"], unwindset=U(LISTL), units=LIST_UNITS, timeout=300, mem_gb=4,
         bounds="command lha %s, quiet 0..2, ONE member: strings <= 3 arbitrary bytes (each of path/filename/target present or absent), 5 arbitrary non-NUL method bytes, "
                "every other header field arbitrary; archive mtime arbitrary or fstat failing" % n,
         stubs=[S_OUT, S_VAS, S_TIME, S_NEXT],
         claim="the complete output of the command (headings, separators, row, footer) is printable ASCII plus the tool's own newlines")
    for c, n in enumerate(["l", "lv", "v", "vv"])
] + [
    dict(name="list.%s.second" % n, src="C18/rows.c", defines=["CMD=%d" % c, "SL=2", "NHDR=2", "SYM_INDEX=1"], unwindset=U(LISTL), units=LIST_UNITS, timeout=300, mem_gb=4,
         bounds="command lha %s, quiet 0..2, TWO members: a benign first member and a later member with strings <= 2 arbitrary bytes, 5 arbitrary method bytes, other fields arbitrary" % n,
         stubs=[S_OUT, S_VAS, S_TIME, S_NEXT],
         claim="fields of a later member are sanitised like those of the first")
    for c, n in [(0, "l"), (3, "vv")]
] + [
    dict(name="ext." + n, src="C18/ext.c", defines=["WHICH=%d" % w, "SL=3", "XL=2", "PL=5", "OUT_MAXSTR=56"] + (["STUB_PARENTS=1"] if w == 4 else []),
         rename_defs=({"src/extract.c": ["make_parent_directories"]} if w == 4 else {}),
         unwindset=U(EXTL), units=EXT_UNITS, timeout=300, mem_gb=4, bounds=b,
         stubs=[S_OUT, S_VAS, S_NEXT] + S_EXT + (["make_parent_directories: arbitrary result, no output (its messages: ext.parents)"] if w == 4 else []), claim=cl)
    for w, n, b, cl in [
        (1, "msg", "file name / link target / directory path: any string <= 3 bytes; progress callback for any block <= num_blocks <= 200, quiet 0..2",
         "print_filename, print_filename_brief, print_symlink_line, check_parent_directory (all three messages), progress_callback write printable ASCII + CR/TAB/LF only"),
        (2, "dryrun", "lha xn / en / pn on one member: strings <= 3 arbitrary bytes, extract directory absent or <= 2 arbitrary bytes, use_path 0/1, file exists or not",
         "EXTRACT lines (|target (directory), (directory), but file is exist.) are printable ASCII"),
        (3, "test", "lha t / tn, quiet 0..2, one member as above, arbitrary verdict and progress",
         "VERIFY line, 'Testing  :' progress lines, Tested / CRC error lines are printable ASCII"),
        (4, "extract", "lha x / e, quiet 0..2, overwrite policy prompt/skip/all, one member as above (file, directory or symlink), arbitrary arch/reader results",
         "overwrite prompt, 'Skipped...', 'Melting  :' progress, Melted / Failure, 'Symbolic Link a -> b', 'Failed to read file type' are printable ASCII"),
        (5, "print", "lha p, quiet 0..2, one member as above", "'::::::::' banners with the path and the Symbolic Link line are printable ASCII"),
        (6, "parents", "make_parent_directories on ANY path string of <= 5 bytes over 0x01..0xFF containing a character other than '/'",
         "'Failed to create parent directory', 'Parent path .. is not a directory!', 'Failed to stat' messages are printable ASCII"),
    ]
] + [
    dict(name="list.name.s5", src="C18/cols.c", defines=["WHICH=2", "SL=5"], unwindset=U(LISTL, **{"sym_header_fill.0": 6}), units=LIST_UNITS, timeout=1200, tier="thorough", mem_gb=5,
         bounds="as list.name with strings <= 5 bytes", stubs=[S_OUT, S_VAS], claim="as list.name"),
    dict(name="ext.parents.p6", src="C18/ext.c", defines=["WHICH=6", "SL=1", "XL=1", "PL=6", "OUT_MAXSTR=56"], unwindset=U(EXTL), units=EXT_UNITS, timeout=1200, tier="thorough", mem_gb=5,
         bounds="as ext.parents with paths <= 6 bytes", stubs=[S_OUT, S_VAS] + S_EXT, claim="as ext.parents"),
]
