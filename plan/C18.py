CLAIM = ("Real src/list.c, src/extract.c, src/safe.c executed on a header whose path, name, link target, method, user and group are arbitrary "
         "bytes 0x01..0xFF; libc output is replaced by a model that interprets the (concrete) format string of every real call site and asserts "
         "that every byte of every %s/%c argument and every literal byte is printable ASCII or LF/CR/TAB.")
ASSUMPTIONS = ["strings up to the stated length; digits of numeric conversions are printable by construction (libc trusted)",
               "lha_arch_vasprintf modelled by a bounded %s formatter; localtime/time/fstat arbitrary"]
HARNESSES = [
    dict(name="list.s3", src="C18/list.c", defines=["SL=3", "OUT_MAXSTR=12"], unwind=14, unwindset={"out_vformat.0": 40, "lha_arch_vasprintf.0": 12},
         units=["src/list.c", "src/safe.c"], timeout=600, mem_gb=6,
         bounds="strings of <= 3 arbitrary bytes, 5 arbitrary method bytes, all numeric fields/flags arbitrary; l, lv, v, vv; quiet 0..2",
         stubs=["printf/fprintf: output model", "lha_arch_vasprintf: bounded formatter", "localtime/time: arbitrary", "lha_filter_next_file: one header"]),
]
