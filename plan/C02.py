CLAIM = ("-lh1-: (a) adaptive tree, on scaled instances of the real source (NUM_CODES 3/4/6 through the LHASA_VERIF hook): the real init equals LZHUF "
         "StartHuff (also concretely at 314 symbols, thorough); from an ARBITRARY tree/group state satisfying an explicit invariant one increment_for_code "
         "equals one LZHUF update() node-for-node (freq/son/prnt under node i <-> R-i) and re-establishes the invariant - inductive, so streams of any length: "
         "whole call at NUM_CODES 3 and 4 (inv.*), and cut to one loop iteration with an explicit loop invariant at 4 (quick) and 5, 6 (thorough) "
         "(skeleton.* + entry.* + iter.*); the rebuild is invoked exactly at freq[R] == MAX_FREQ (threshold) and reconstruct_tree equals LZHUF reconst() "
         "from any such state at NUM_CODES 3 and 4 (rebuild.*); read_code's walk equals DecodeChar's (walk.*). "
         "(b) real constants: init_offset_table/read_offset equal LZHUF DecodePosition over d_code/d_len generated from the published length "
         "distribution, for every peeked byte, every low six bits, every alignment and truncation (offset); one lha_lh1_read command from an arbitrary 4 KiB "
         "window equals LZHUF's literal/copy semantics for copy lengths 3..12 (quick) / 3..28 (thorough) at any distance and write position - longer copies "
         "(up to 60) are decided on the window scaled to 64 bytes by the LHASA_VERIF hook (copy.r64p*: whole length range, sequential-definition oracle); the unscaled build uses 314/627/32768/4096/3 (params).")
ASSUMPTIONS = ["tree maintenance is decided on scaled instances (NUM_CODES 3, 4, 6; small limit) of the same source text, not at 314 symbols; "
               "a defect that only shows through the numeric values 314/627/32768 is outside the claim (memory safety of those: C09)",
               "bit reader replaced by its specification (bits of a byte string, MSB first, failure when fewer bits remain): refinement is C01 bits.*",
               "initial window content (4096 spaces) is lhasa's choice; LZHUF addresses the window relatively, so the absolute start position is immaterial"]
RT = {"lib/lh1_decoder.c": ["reconstruct_tree"]}
BITS = {"lib/bit_stream_reader.c": ["peek_bits", "read_bits", "read_bit"]}
BITSPEC = "peek_bits/read_bits/read_bit: specification stub over a symbolic byte string with cursor (BITS_SPEC; refinement shown by C01 bits.*)"
TREE_UNITS = "lib/lh1_decoder.c:increment_for_code,make_group_leader,increment_node_freq,alloc_group,free_group"
PARTNAME = {1: "lock-step with LZHUF", 2: "tree/count/leaf-map consistency", 4: "group consistency", 8: "free-group list",
            16: "group consistency: same group iff same count", 32: "group consistency: group_leader and num_groups",
            64: "tree shape consistency", 128: "count consistency (sorted, sums, root <= limit)", 256: "leaf-map consistency",
            14: "all consistency clauses", 15: "all clauses"}


def sc(n, lim):
    return ["LHASA_VERIF_LH1_NUM_CODES=%d" % n, "LHASA_VERIF_LH1_REORDER_LIMIT=%d" % lim]


def upd_unwind(n):
    return {"increment_for_code.0": n, "lz_update.1": n + 1}


def rb_unwind(n):
    d = {"reconstruct_tree.1": 3, "reconstruct_tree.2": n, "reconstruct_tree.3": n, "lz_reconst.1": n + 1, "lz_reconst.2": n + 1, "lz_reconst.3": n}
    d.update(upd_unwind(n))
    return d


def step(n, s, tier, timeout):
    return dict(name="step.n%d.s%d" % (n, s), src="C02/step.c", defines=sc(n, 64) + ["STEPS=%d" % s], rename_defs=RT, unwind=2 * n + 1,
                unwindset=upd_unwind(n), timeout=timeout, tier=tier, units=[TREE_UNITS + ",init_groups,init_tree"],
                bounds="NUM_CODES=%d (scaled): real init, then %d symbolic symbols; tree compared node-for-node with LZHUF StartHuff/update after every step" % (n, s),
                stubs=["reconstruct_tree: asserts it is not called (root count = %d..%d < limit 64); the rebuild is rebuild.*" % (n, n + s)])


def inv(n, lim, parts, tier, timeout, tag=""):
    return dict(name="inv.n%d%s.p%d" % (n, tag, parts), src="C02/inv.c", entry="harness_inv", defines=sc(n, lim) + ["PARTS=%d" % parts], rename_defs=RT,
                unwind=2 * n + 1, unwindset=upd_unwind(n), timeout=timeout, tier=tier, units=[TREE_UNITS],
                bounds="NUM_CODES=%d (scaled), limit %d: ARBITRARY invariant-satisfying tree/group state with root count < limit, arbitrary symbol, one update; "
                       "asserted here: %s" % (n, lim, PARTNAME[parts]),
                stubs=["reconstruct_tree: recording stub, asserted not to be called below the limit (threshold.*, rebuild.*)"])


def rebuild(n, lim, parts, tier, timeout):
    return dict(name="rebuild.n%d.p%d" % (n, parts), src="C02/rebuild.c", entry="harness_rebuild", defines=sc(n, lim) + ["PARTS=%d" % parts],
                unwind=2 * n + 1, unwindset=rb_unwind(n), timeout=timeout, tier=tier, mem_gb=4 if n < 5 else 6, units=["lib/lh1_decoder.c:reconstruct_tree,init_groups,alloc_group"],
                bounds="NUM_CODES=%d (scaled), limit %d: ARBITRARY invariant-satisfying state with root count == limit, one reconstruct_tree vs LZHUF reconst(); "
                       "asserted here: %s" % (n, lim, PARTNAME[parts]))


def iter_(n, lim, parts, tier, timeout):
    return dict(name="iter.n%d.p%d" % (n, parts), src="C02/iter.c", entry="harness_iter", defines=sc(n, lim) + ["PARTS=%d" % parts], unwind=2 * n + 1,
                timeout=timeout, tier=tier, units=["lib/lh1_decoder.c:make_group_leader,increment_node_freq,alloc_group,free_group"],
                bounds="NUM_CODES=%d (scaled), limit %d: ARBITRARY state satisfying the loop invariant Inv'(x) for an arbitrary pending node x != root; ONE loop iteration "
                       "(real make_group_leader + increment_node_freq) vs one pass of LZHUF update()'s loop; asserted here: %s" % (n, lim, PARTNAME[parts]),
                stubs=["the loop of increment_for_code is represented by its body, called in the order that skeleton.n%d shows the real loop uses" % min(n, 6)])


def iter_aux(n, lim, tier):
    return [
        dict(name="skeleton.n%d" % n, src="C02/iter.c", entry="harness_skeleton", defines=sc(n, lim) + ["SKELETON", "SK=3"],
             rename_defs={"lib/lh1_decoder.c": ["make_group_leader", "increment_node_freq", "reconstruct_tree"]}, unwind=2 * n + 1,
             unwindset={"increment_for_code.0": 4, "harness_skeleton.0": 4, "harness_skeleton.1": 4}, timeout=120, tier=tier,
             units=["lib/lh1_decoder.c:increment_for_code"],
             bounds="NUM_CODES=%d: arbitrary state (no invariant), arbitrary return values of make_group_leader, walks of up to 3 iterations: call sequence and arguments of the real loop" % n,
             stubs=["make_group_leader / increment_node_freq / reconstruct_tree: recording stubs (their behaviour: iter.*, rebuild.*)"]),
        dict(name="entry.n%d" % n, src="C02/iter.c", entry="harness_entry", defines=sc(n, lim), unwind=2 * n + 1, timeout=200, tier=tier,
             bounds="NUM_CODES=%d, limit %d: invariant and root count < limit imply the loop invariant after the statements before the loop" % (n, lim)),
    ]


HARNESSES = [
    # 1. H02.step
    step(3, 3, "both", 120), step(4, 3, "both", 200), step(6, 3, "both", 400),
    step(4, 6, "thorough", 1800), step(6, 5, "thorough", 1800),
    # 2. H02.inv (inductive)
    inv(3, 16, 15, "both", 200),
    inv(4, 32, 1, "both", 300), inv(4, 32, 2, "both", 300), inv(4, 32, 4, "both", 400), inv(4, 32, 8, "both", 300),
    inv(4, 32768, 1, "thorough", 1800, ".real"), inv(4, 32768, 2, "thorough", 1800, ".real"),
    inv(4, 32768, 4, "thorough", 1800, ".real"), inv(4, 32768, 8, "thorough", 1800, ".real"),
    # whole-call step at NUM_CODES=5: only the lock-step and free-list clauses finish (685 s / 677 s); the count clause needs ~1160 s and the
    # group clause has no verdict in 1800 s - those clauses are covered at 5 and 6 by iter.* below
    inv(5, 48, 1, "thorough", 1800), inv(5, 48, 8, "thorough", 1800),
    # 2b. H02.iter: the same inductive claim cut to one loop iteration (reaches NUM_CODES = 6)
    iter_(4, 32, 15, "both", 300),
] + iter_aux(4, 32, "both") + iter_aux(6, 64, "both") + [
    iter_(5, 48, 1, "thorough", 600), iter_(5, 48, 2, "thorough", 900), iter_(5, 48, 4, "thorough", 900), iter_(5, 48, 8, "thorough", 600),
    iter_(6, 64, 1, "thorough", 1800), iter_(6, 64, 2, "thorough", 2700), iter_(6, 64, 4, "thorough", 2700), iter_(6, 64, 8, "thorough", 1800),
    dict(name="walk.n4", src="C02/inv.c", entry="harness_walk", defines=sc(4, 32) + ["WALK_HARNESS", "BITS_SPEC"],
         rename_defs=dict(BITS, **{"lib/lh1_decoder.c": ["increment_for_code"]}), unwind=9, unwindset={"read_code.0": 4, "harness_walk.1": 4}, timeout=120,
         units=["lib/lh1_decoder.c:read_code"], bounds="NUM_CODES=4: arbitrary invariant-satisfying tree, symbolic 2-byte bit string, any alignment, any end of data",
         stubs=[BITSPEC, "increment_for_code: recording stub (its own harnesses: inv.*, threshold.*)"]),
    dict(name="walk.n6", src="C02/inv.c", entry="harness_walk", defines=sc(6, 64) + ["WALK_HARNESS", "BITS_SPEC"],
         rename_defs=dict(BITS, **{"lib/lh1_decoder.c": ["increment_for_code"]}), unwind=13, unwindset={"read_code.0": 6, "harness_walk.1": 6}, timeout=120,
         units=["lib/lh1_decoder.c:read_code"], bounds="NUM_CODES=6: arbitrary invariant-satisfying tree, symbolic 2-byte bit string, any alignment, any end of data",
         stubs=[BITSPEC, "increment_for_code: recording stub (its own harnesses: inv.*, threshold.*)"]),
    # 3. H02.rebuild
    dict(name="threshold.n4", src="C02/inv.c", entry="harness_threshold", defines=sc(4, 32), rename_defs=RT, unwind=9, unwindset=upd_unwind(4), timeout=200,
         units=["lib/lh1_decoder.c:increment_for_code"],
         bounds="NUM_CODES=4, limit 32: arbitrary invariant-satisfying state with ANY root count 4..32, arbitrary symbol: rebuild called iff root count == limit, before the increment",
         stubs=["reconstruct_tree: recording stub"]),
    rebuild(3, 16, 15, "both", 400), rebuild(4, 32, 1, "both", 600), rebuild(4, 32, 14, "both", 600),
        dict(name="rebuild_pre.n4", src="C02/rebuild.c", entry="harness_rebuild_pre", defines=sc(4, 32), unwind=9, timeout=120, tier="thorough",
         bounds="NUM_CODES=4: invariant with root count == limit implies the weaker precondition (leaf entries only) that C09 lh1.rebuild uses"),
    dict(name="rebuild_step.n3", src="C02/rebuild.c", entry="harness_rebuild_step", defines=sc(3, 16), unwind=7, unwindset=rb_unwind(3), timeout=1800, tier="thorough",
         units=[TREE_UNITS + ",reconstruct_tree"],
         bounds="NUM_CODES=3, limit 16: increment_for_code at root count == limit with the real reconstruct_tree inlined vs LZHUF update() incl. reconst() (composition cross-check)"),
    # 4. H02.offset
    dict(name="offset", src="C02/offset.c", defines=["BITS_SPEC"], rename_defs=BITS, unwind=7,
         unwindset={"gen_tables.0": 25, "gen_tables.2": 65, "gen_tables.3": 65, "gen_tables.4": 257, "init_offset_table.0": 25, "fill_offset_range.0": 34, "bs_ref.0": 9},
         timeout=200, units=["lib/lh1_decoder.c:init_offset_table,fill_offset_range,read_offset"],
         bounds="real constants: symbolic 3-byte bit string (all 256 peeked bytes x all low six bits), bit alignment 0..7, end of data anywhere",
         stubs=[BITSPEC]),
    # 5. H02.copy
    dict(name="copy.c12", src="C02/copy.c", defines=["MAXCOUNT=12"], rename_defs={"lib/lh1_decoder.c": ["read_code", "read_offset"]},
         unwindset={"lha_lh1_read.0": 13}, flags=["--arrays-uf-always"], timeout=200, units=["lib/lh1_decoder.c:lha_lh1_read,output_byte"],
         bounds="real constants: arbitrary 4 KiB window and write position; one command: any literal, or any copy of length 3..12 at any distance 0..4095 (self-overlap, ring seam); failures of either read",
         stubs=["read_code: arbitrary symbol 0..313 or failure (walk.*, inv.*)", "read_offset: arbitrary 12-bit distance or failure (offset)"]),
    dict(name="copy.c28", src="C02/copy.c", defines=["MAXCOUNT=28"], rename_defs={"lib/lh1_decoder.c": ["read_code", "read_offset"]},
         unwindset={"lha_lh1_read.0": 29}, flags=["--arrays-uf-always"], timeout=1800, tier="thorough", mem_gb=6, units=["lib/lh1_decoder.c:lha_lh1_read,output_byte"],
         bounds="as copy.c12 with copy lengths 3..28",
         stubs=["read_code: arbitrary symbol 0..313 or failure (walk.*, inv.*)", "read_offset: arbitrary 12-bit distance or failure (offset)"]),
] + [
    dict(name="copy.r64p%d" % kp, src="C02/copy.c", entry="harness_seq", defines=["LHASA_VERIF_RING_BUFFER_SIZE=64", "KPOS=%d" % kp], rename_defs={"lib/lh1_decoder.c": ["read_code", "read_offset"]},
         unwind=66, timeout=900, optional_witnesses=True, tier=("thorough" if kp == 30 else "both"), units=["lib/lh1_decoder.c:lha_lh1_read,output_byte (window scaled to 64 bytes by the LHASA_VERIF hook)"],
         bounds="window scaled to 64 bytes, write position %d, arbitrary window contents: any copy of the WHOLE length range 3..60 at any 12-bit distance, sequential-definition oracle (seam crossing x self-overlap in every combination with this write position)" % kp,
         stubs=["read_code: arbitrary copy symbol 256..313 (walk.*, inv.*)", "read_offset: arbitrary 12-bit distance (offset)"])
    for kp in (0, 30, 63)] + [
    dict(name="copy.init", src="C02/copy.c", entry="harness_init", rename_defs={"lib/lh1_decoder.c": ["read_code", "read_offset"]},
         unwindset={"memset.0": 4098}, timeout=120, units=["lib/lh1_decoder.c:init_ring_buffer"], bounds="all 4096 window positions (symbolic index)"),
    # 6. H02.params
    dict(name="params", src="C02/params.c", unwind=7, unwindset={"lha_decoder_for_name.0": 20, "strcmp.0": 8}, timeout=120,
         units=["lib/lh1_decoder.c (constants, lha_lh1_decoder)", "lib/lha_decoder.c:lha_decoder_for_name"], bounds="concrete: constants of the unscaled build"),
    dict(name="init.real", src="C02/params.c", defines=["INIT_REAL"], unwind=630,
         unwindset={"memset.0": 4098, "lha_decoder_for_name.0": 20, "strcmp.0": 8, "fill_offset_range.0": 34},
         timeout=900, tier="thorough", units=["lib/lh1_decoder.c:lha_lh1_init,init_groups,init_tree"],
         bounds="concrete: real-size (314 symbols) initial tree equals LZHUF StartHuff node-for-node"),
]
