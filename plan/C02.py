CLAIM = "wip"
ASSUMPTIONS = []
RT = {"lib/lh1_decoder.c": ["reconstruct_tree"]}
BITS = {"lib/bit_stream_reader.c": ["peek_bits", "read_bits", "read_bit"]}


def sc(n, lim):
    return ["LHASA_VERIF_LH1_NUM_CODES=%d" % n, "LHASA_VERIF_LH1_REORDER_LIMIT=%d" % lim]


HARNESSES = [
    dict(name="step.n%d.s%d" % (n, s), src="C02/step.c", defines=sc(n, 64) + ["STEPS=%d" % s], rename_defs=RT, unwind=2 * n + 1,
         timeout=300, tier=tier)
    for n, s, tier in [(3, 3, "both"), (4, 3, "both"), (6, 3, "both")]
] + [
    dict(name="inv.n%d" % n, src="C02/inv.c", entry="harness_inv", defines=sc(n, 32768), rename_defs=RT, unwind=2 * n + 1,
         timeout=300, tier=tier)
    for n, tier in [(3, "both"), (4, "both"), (6, "both")]
] + [
    dict(name="x.inv4.%s.p%d" % (tag, parts), src="C02/inv.c", entry="harness_inv", defines=sc(4, lim) + ["PARTS=%d" % parts], rename_defs=RT, unwind=9, timeout=240)
    for tag, lim in [("l16", 16), ("real", 32768)] for parts in (1, 2, 4, 8)
] + [
    dict(name="threshold.n%d" % n, src="C02/inv.c", entry="harness_threshold", defines=sc(n, 32768), rename_defs=RT, unwind=2 * n + 1,
         timeout=300, tier=tier)
    for n, tier in [(4, "both")]
] + [
    dict(name="walk.n%d" % n, src="C02/inv.c", entry="harness_walk", defines=sc(n, 32768) + ["WALK_HARNESS", "BITS_SPEC"],
         rename_defs=dict(BITS, **{"lib/lh1_decoder.c": ["increment_for_code"]}), unwind=2 * n + 1,
         timeout=300, tier=tier)
    for n, tier in [(4, "both"), (6, "both")]
]
