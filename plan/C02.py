CLAIM = "wip"
ASSUMPTIONS = []
RT = {"lib/lh1_decoder.c": ["reconstruct_tree"]}
BITS = {"lib/bit_stream_reader.c": ["peek_bits", "read_bits", "read_bit"]}


def sc(n, lim):
    return ["LHASA_VERIF_LH1_NUM_CODES=%d" % n, "LHASA_VERIF_LH1_REORDER_LIMIT=%d" % lim]


HARNESSES = [
    dict(name="step.n%d.s%d" % (n, s), src="C02/step.c", defines=sc(n, 64) + ["STEPS=%d" % s], rename_defs=RT, unwind=2 * n + 1,
         timeout=300, tier=tier)
    for n, s, tier in [(3, 3, "both"), (4, 3, "both"), (6, 3, "both")]
] + [
    dict(name="inv.n%d" % n, src="C02/inv.c", entry="harness_inv", defines=sc(n, 32768), rename_defs=RT, unwind=2 * n + 1,
         timeout=300, tier=tier)
    for n, tier in [(3, "both"), (4, "both"), (6, "both")]
] + [
    dict(name="x.inv4.%s.p%d" % (tag, parts), src="C02/inv.c", entry="harness_inv", defines=sc(4, lim) + ["PARTS=%d" % parts], rename_defs=RT, unwind=9, timeout=240)
    for tag, lim in [("l16", 16), ("real", 32768)] for parts in (1, 2, 4, 8)
] + [
    dict(name="threshold.n%d" % n, src="C02/inv.c", entry="harness_threshold", defines=sc(n, 32768), rename_defs=RT, unwind=2 * n + 1,
         timeout=300, tier=tier)
    for n, tier in [(4, "both")]
] + [
    dict(name="walk.n%d" % n, src="C02/inv.c", entry="harness_walk", defines=sc(n, 32768) + ["WALK_HARNESS", "BITS_SPEC"],
         rename_defs=dict(BITS, **{"lib/lh1_decoder.c": ["increment_for_code"]}), unwind=2 * n + 1,
         timeout=300, tier=tier)
    for n, tier in [(4, "both"), (6, "both")]
] + [
    dict(name="rebuild.n%d.p%d" % (n, parts), src="C02/rebuild.c", entry="harness_rebuild", defines=sc(n, lim) + ["PARTS=%d" % parts], unwind=2 * n + 1,
         unwindset={"reconstruct_tree.1": n + 1, "reconstruct_tree.2": n + 1, "reconstruct_tree.3": n + 1, "lz_reconst.3": n + 1},
         timeout=300, tier=tier)
    for n, lim, tier in [(3, 16, "both"), (4, 32, "both"), (6, 64, "both")] for parts in (1, 14)
] + [
    dict(name="rebuild_step.n%d" % n, src="C02/rebuild.c", entry="harness_rebuild_step", defines=sc(n, lim), unwind=2 * n + 1,
         unwindset={"reconstruct_tree.1": n + 1, "reconstruct_tree.2": n + 1, "reconstruct_tree.3": n + 1, "lz_reconst.3": n + 1},
         timeout=300, tier=tier)
    for n, lim, tier in [(3, 16, "both"), (4, 32, "both")]
] + [
    dict(name="offset", src="C02/offset.c", defines=["BITS_SPEC"], rename_defs=BITS, unwind=7,
         unwindset={"gen_tables.0": 25, "gen_tables.2": 65, "gen_tables.3": 65, "gen_tables.4": 257, "init_offset_table.0": 25, "fill_offset_range.0": 34, "bs_ref.0": 9},
         timeout=300),
    dict(name="copy.c12", src="C02/copy.c", defines=["MAXCOUNT=12"], rename_defs={"lib/lh1_decoder.c": ["read_code", "read_offset"]},
         unwindset={"lha_lh1_read.0": 13}, flags=["--arrays-uf-always"], timeout=300),
    dict(name="copy.c60", src="C02/copy.c", defines=["MAXCOUNT=60"], rename_defs={"lib/lh1_decoder.c": ["read_code", "read_offset"]},
         unwindset={"lha_lh1_read.0": 61}, flags=["--arrays-uf-always"], timeout=900, tier="thorough"),
    dict(name="copy.init", src="C02/copy.c", entry="harness_init", rename_defs={"lib/lh1_decoder.c": ["read_code", "read_offset"]},
         unwindset={"memset.0": 4098}, timeout=120),
    dict(name="params", src="C02/params.c", unwind=630, unwindset={"memset.0": 4098, "lha_decoder_for_name.0": 20, "strcmp.0": 8, "fill_offset_range.0": 34}, flags=["--max-field-sensitivity-array-size", "700"], timeout=300),
]
