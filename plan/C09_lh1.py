"""C09, -lh1- part: harness list to be appended to plan/C09.py (HARNESSES += HARNESSES_LH1).
Can also be run on its own:  bin/check C09_lh1 --no-evidence"""
CLAIM = ("-lh1-: memory safety of one read, split as in DESIGN 4.9: tree walk + adaptive update + rebuild from an arbitrary "
         "invariant-satisfying tree/group state at scaled NUM_CODES (same source text, hook macros); distance decoding and the "
         "copy loop at the real constants with arbitrary bits, output buffer of exactly max_read bytes.")
ASSUMPTIONS = ["lh1 tree maintenance checked at scaled NUM_CODES (hook), copy/offset paths at real constants",
               "the tree/group invariant (harness/C02/lh1_model.h) is established by init and preserved by every update/rebuild: C02 harnesses step.*, inv.*, rebuild.*"]
BITS = {"lib/bit_stream_reader.c": ["peek_bits", "read_bits", "read_bit"]}
BITSTUB = "peek_bits/read_bits/read_bit: arbitrary value of the requested width or failure per call, asserting n <= 31 (justified by bits.safe)"


def rn(extra):
    d = dict(BITS)
    d.update(extra)
    return d


def sc(n, lim):
    return ["LHASA_VERIF_LH1_NUM_CODES=%d" % n, "LHASA_VERIF_LH1_REORDER_LIMIT=%d" % lim]


def rt_unwind(n):
    return {"reconstruct_tree.1": 3, "reconstruct_tree.2": n, "reconstruct_tree.3": n, "increment_for_code.0": n, "read_code.0": n}


HARNESSES_LH1 = [
    dict(name="lh1.code.n%d" % n, src="C09/lh1.c", entry="harness_code", defines=sc(n, lim) + ["BITS_ANY", "TREE_HARNESS", "STUB_REBUILD"],
         rename_defs=rn({"lib/lh1_decoder.c": ["reconstruct_tree"]}), mode="safety", unwind=2 * n + 1, unwindset=rt_unwind(n),
         units=["lib/lh1_decoder.c:read_code,increment_for_code,make_group_leader,increment_node_freq,alloc_group,free_group"],
         timeout=300 if n < 6 else 1800, mem_gb=4, tier=tier,
         bounds="NUM_CODES=%d (scaled), limit %d; arbitrary invariant-satisfying tree/group state with root count < limit; arbitrary bits / end of data" % (n, lim),
         stubs=[BITSTUB, "reconstruct_tree: asserts it is not called (root count < limit); its own harness is lh1.rebuild.*"])
    for n, lim, tier in [(3, 16, "both"), (4, 32, "both"), (6, 64, "thorough")]
] + [
    dict(name="lh1.rebuild.n%d" % n, src="C09/lh1.c", entry="harness_rebuild", defines=sc(n, lim) + ["BITS_ANY", "TREE_HARNESS"],
         rename_defs=BITS, mode="safety", unwind=2 * n + 1, unwindset=rt_unwind(n),
         units=["lib/lh1_decoder.c:reconstruct_tree,init_groups,alloc_group"], timeout=500 if n < 5 else 1800, mem_gb=4 if n < 5 else 6, tier=tier, flags=["--slice-formula"],
         bounds="NUM_CODES=%d (scaled); arbitrary state with exactly NUM_CODES leaf entries carrying symbols < NUM_CODES (counts, links, groups arbitrary - weaker than the invariant)" % n, stubs=[])
    for n, lim, tier in [(3, 16, "both"), (4, 32, "both")]   # NUM_CODES=5: solver out of memory at 12 GB
] + [
    dict(name="lh1.atlimit.n%d" % n, src="C09/lh1.c", entry="harness_atlimit", defines=sc(n, lim) + ["BITS_ANY", "TREE_HARNESS"],
         rename_defs=BITS, mode="safety", unwind=2 * n + 1, unwindset=rt_unwind(n),
         units=["lib/lh1_decoder.c:read_code,increment_for_code,reconstruct_tree,make_group_leader,increment_node_freq"], timeout=900, mem_gb=6, tier=tier,
         bounds="NUM_CODES=%d (scaled), limit %d; arbitrary invariant-satisfying state with root count == limit; arbitrary bits" % (n, lim), stubs=[BITSTUB])
    for n, lim, tier in [(3, 16, "thorough"), (4, 32, "thorough")]
] + [
    dict(name="lh1.offset", src="C09/lh1.c", entry="harness_offset", defines=["BITS_ANY", "OFFSET_HARNESS"], rename_defs=BITS, mode="safety",
         unwind=7, unwindset={"init_offset_table.0": 25, "fill_offset_range.0": 34},
         units=["lib/lh1_decoder.c:read_offset,init_offset_table,fill_offset_range"], timeout=120,
         bounds="real constants; tables from the real init_offset_table; arbitrary bits / end of data", stubs=[BITSTUB]),
    dict(name="lh1.read", src="C09/lh1.c", entry="harness_read", defines=["BITS_ANY", "READ_HARNESS"], rename_defs=rn({"lib/lh1_decoder.c": ["read_code"]}), mode="safety",
         unwind=7, unwindset={"init_offset_table.0": 25, "fill_offset_range.0": 34, "lha_lh1_read.0": 61}, flags=["--slice-formula"],
         units=["lib/lh1_decoder.c:lha_lh1_read,output_byte,read_offset,init_offset_table"], timeout=300, mem_gb=4,
         bounds="real constants; arbitrary write position < 4096; one command: literal or copy of 3..60 bytes at any distance; output buffer = heap object of exactly the declared max_read bytes",
         stubs=[BITSTUB, "read_code: arbitrary symbol < NUM_CODES or failure (justified by lh1.code.*: decoded symbol < NUM_CODES)"]),
]
HARNESSES = HARNESSES_LH1
