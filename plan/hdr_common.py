# shared harness descriptions for the header parser (used by C05, C08, C11, C12 plans)
HDR_UNITS = ["lib/lha_file_header.c", "lib/ext_header.c", "lib/lha_endian.c"]
HDR_X = ["lib/lha_endian.c", "lib/crc16.c"]
HDR_STUBS = ["extend_raw_data: in-place stub on a typed static header slot (moving realloc: own harness)",
             "lha_input_stream_read: symbolic byte array of symbolic length, all-or-nothing",
             "mktime: records argument, arbitrary result", "islower/tolower: ASCII", "memcpy: byte loop"]
RN = {"lib/lha_file_header.c": ["extend_raw_data"]}


def l01(smax, mode="functional", timeout=600, tier="both"):
    return dict(name="l01.s%d%s" % (smax, ".safe" if mode == "safety" else ""), src="hdr/l01.c", defines=["S_MAX=%d" % smax], rename_defs=RN,
                extra_srcs=HDR_X, mode=mode, unwind=smax + 2, units=HDR_UNITS + ["decode_level0_header", "process_level0_path", "process_level0_extended_area", "decode_ftime", "check_l0_checksum"],
                timeout=timeout, mem_gb=8, tier=tier, stubs=HDR_STUBS,
                bounds="arbitrary input of 0..%d bytes, level byte 0 or 1 (all other bytes, lengths, checksum symbolic)" % smax)
