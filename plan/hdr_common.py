# shared harness descriptions for the header parser (used by C05, C08, C11, C12 plans)
HDR_UNITS = ["lib/lha_file_header.c", "lib/ext_header.c", "lib/lha_endian.c"]
HDR_X = ["lib/lha_endian.c", "lib/crc16.c"]
HDR_STUBS = ["extend_raw_data: in-place stub on a typed static header slot (moving realloc: own harness)",
             "lha_input_stream_read: symbolic byte array of symbolic length, all-or-nothing",
             "mktime: records argument, arbitrary result", "islower/tolower: ASCII", "memcpy: byte loop"]
RN = {"lib/lha_file_header.c": ["extend_raw_data"]}


def l01(smax, mode="functional", timeout=600, tier="both", rawend=False, oom=False):
    # no_shift_check: decode_ftime shifts a negative int left for DOS years >= 2044 (UB-NOTE, not a memory access; DESIGN.md section 5)
    return dict(name="l01.s%d%s%s%s" % (smax, ".rawend" if rawend else "", ".oom" if oom else "", ".safe" if mode == "safety" else ""), src="hdr/l01.c",
                defines=["S_MAX=%d" % smax] + (["RAW_END_ALIGNED"] if rawend else []) + (["ALLOC_MAY_FAIL"] if oom else []), rename_defs=RN, no_shift_check=True,
                extra_srcs=HDR_X, mode=mode, unwind=smax + 2, units=HDR_UNITS + ["decode_level0_header", "process_level0_path", "process_level0_extended_area", "decode_ftime", "check_l0_checksum"],
                timeout=timeout, mem_gb=8, tier=tier, stubs=HDR_STUBS,
                bounds="arbitrary input of 0..%d bytes, level byte 0 or 1 (all other bytes, lengths, checksum symbolic)" % smax
                       + ("; every string allocation may fail" if oom else "") + ("; raw header placed so that its declared end is the end of its object (reads past the header's own bytes are out of bounds)" if rawend else ""))


EXT_TYPES = [(0x00, 5), (0x01, 6), (0x02, 6), (0x41, 26), (0x50, 5), (0x51, 7), (0x52, 5), (0x53, 5), (0x54, 7), (0xcc, 14)]


def l01long(timeout=900, tier="both"):
    # length bytes 250..255: 8-bit arithmetic on length + 2 / the checksum length (seeded changes C05a3, C12b3)
    return dict(name="l01.long", src="hdr/l01.c", defines=["S_MAX=260", "SYM_BYTES=34", "HL_MIN=250", "PLEN_MAX=3"], rename_defs=RN, no_shift_check=True,
                extra_srcs=HDR_X, unwind=262, units=HDR_UNITS + ["decode_level0_header", "check_l0_checksum"], timeout=timeout, mem_gb=8, tier=tier, stubs=HDR_STUBS,
                bounds="input of 0..260 bytes, level 0 or 1, length byte 250..255, name length <= 3, first 34 bytes arbitrary and zero filler behind them")


def l01fix(hl, timeout=300, tier="both", sym=34):
    # one concrete length byte per variant (quick-tier counterpart of l01.long)
    return dict(name="l01.hl%d" % hl, src="hdr/l01.c", defines=["S_MAX=260", "SYM_BYTES=%d" % sym, "HL_MIN=250", "PLEN_MAX=3", "HL_FIX=%d" % hl], rename_defs=RN, no_shift_check=True,
                extra_srcs=HDR_X, unwind=262, units=HDR_UNITS + ["decode_level0_header", "check_l0_checksum"], timeout=timeout, mem_gb=8, tier=tier, stubs=HDR_STUBS,
                optional_witnesses=True,
                bounds="input of 0..260 bytes, level 0 or 1, length byte %d (concrete), name length <= 3, first %d bytes arbitrary and zero filler behind them" % (hl, sym))


def ext(num, dl, mode="functional", leak=False, timeout=300, tier="both"):
    tag = "other" if num is None else "%02x" % num
    return dict(name="ext.%s%s%s" % (tag, ".safe" if mode == "safety" else "", ".leak" if leak else ""), src="hdr/ext.c",
                defines=["DL=%d" % dl] + ([] if num is None else ["NUMSEL=%d" % num]),
                mode=mode, leak=leak, unwind=dl + 2, unwindset={"ext_header_for_num.0": 12, "verif_memcmp.0": 260}, extra_srcs=["lib/lha_endian.c"],
                units=["lib/lha_endian.c", "lib/ext_header.c:lha_ext_header_decode,ext_header_for_num + decoder of type " + tag],
                timeout=timeout, mem_gb=4, tier=tier,
                bounds="type %s, data of any length 0..%d in an object of exactly that size, arbitrary prior header strings/flags" % (tag, dl))


def ext_all(mode="functional", leak=False, tier="both"):
    return [ext(n, d, mode, leak, tier=tier) for n, d in EXT_TYPES] + [ext(None, 4, mode, leak, tier=tier)]


def walk(rl=20, mode="functional", timeout=300, tier="both"):
    return dict(name="walk.r%d%s" % (rl, ".safe" if mode == "safety" else ""), src="hdr/walk.c", defines=["RL=%d" % rl], extra_srcs=["lib/lha_endian.c"],
                mode=mode, unwind=rl + 2, unwindset={"decode_extended_headers.0": rl // 3 + 2, "harness.1": rl // 3 + 3},
                units=["lib/lha_file_header.c:decode_extended_headers", "lib/lha_endian.c"], timeout=timeout, mem_gb=4, tier=tier,
                stubs=["lha_ext_header_decode: recording stub asserting its data lies inside the raw header (decoders: ext.* harnesses)"],
                bounds="raw header of any length 0..%d bytes (object of exactly that size), any start offset, levels 1-3, all bytes symbolic" % rl)


def l23(level, smax=44, mode="functional", timeout=600, tier="both"):
    return dict(name="l%d.s%d%s" % (level, smax, ".safe" if mode == "safety" else ""), src="hdr/l23.c", defines=["S_MAX=%d" % smax] + (["LEVEL3"] if level == 3 else []),
                rename_defs={"lib/lha_file_header.c": ["extend_raw_data", "decode_extended_headers"]}, extra_srcs=HDR_X, mode=mode, unwind=smax + 2,
                units=HDR_UNITS + ["decode_level%d_header" % level], timeout=timeout, mem_gb=6, tier=tier,
                stubs=HDR_STUBS + ["decode_extended_headers: recording stub with arbitrary result (justified by walk.*)"],
                bounds="arbitrary input of 0..%d bytes with level byte %d; length fields, word size, OS type symbolic" % (smax, level))


def l1ext(smax=24, mode="functional", timeout=600, tier="both"):
    return dict(name="l1ext.s%d%s" % (smax, ".safe" if mode == "safety" else ""), src="hdr/l1ext.c", defines=["S_MAX=%d" % smax],
                rename_defs=RN, extra_srcs=HDR_X, mode=mode, unwind=smax + 2, unwindset={"read_l1_extended_headers.0": smax // 3 + 3, "harness.2": smax // 3 + 4},
                units=HDR_UNITS + ["read_l1_extended_headers", "read_next_ext_header"], timeout=timeout, mem_gb=6, tier=tier, stubs=HDR_STUBS,
                bounds="arbitrary remaining stream of 0..%d bytes, arbitrary first size field and packed size" % smax)


def tail(ns=3, mode="functional", timeout=600, tier="both", leak=False):
    return dict(name="tail.n%d%s%s" % (ns, ".safe" if mode == "safety" else "", ".leak" if leak else ""), src="hdr/tail.c", defines=["NS=%d" % ns],
                rename_defs={"lib/lha_file_header.c": ["decode_level0_header", "decode_level1_header", "decode_level2_header", "decode_level3_header"]},
                extra_srcs=["lib/crc16.c"], mode=mode, leak=leak, unwind=2 * ns + 3, unwindset={"lha_crc16_buf.0": 6, "ref_crc16_step.0": 9},
                units=["lib/lha_file_header.c:lha_file_header_read (tail),parse_symlink,split_header_filename,fix_msdos_allcaps,collapse_path,os9_to_unix_permissions,check_common_crc,lha_file_header_full_path,lha_file_header_free", "lib/crc16.c"],
                timeout=timeout, mem_gb=6, tier=tier,
                stubs=["decode_level0..3_header: install arbitrary decoded fields (justified by l01/l2/l3/l1ext/walk/ext harnesses)", "calloc/free of the header block: typed static slot",
                       "sprintf(\"%s%s\"): concatenation model", "strdup: malloc+copy", "islower/tolower: ASCII"],
                bounds="name and path strings of 0..%d arbitrary bytes each (name without '/'), present or absent; method, OS type, level, flags, permission words, common CRC over 4 raw bytes: all symbolic" % ns)


def extend(n=4, mode="safety", timeout=300, tier="both"):
    return dict(name="extend.move%d%s" % (n, ".safe" if mode == "safety" else ""), src="hdr/extend.c", defines=["L0=%d" % n, "NB=%d" % n], mode=mode, unwind=n + 2, malloc_may_fail=True, leak=True,
                units=["lib/lha_file_header.c:extend_raw_data,lha_file_header_free"], timeout=timeout, mem_gb=4, tier=tier,
                stubs=["realloc: CBMC's moving model (new block, old block freed), may return NULL", "lha_input_stream_read: writes the requested bytes into the destination or fails"],
                bounds="old raw length 0..%d, stream 0..%d bytes, nbytes arbitrary (64 bit)" % (n, n))


def whole(level, smax=40, timeout=1800, tier="thorough", mode="functional"):
    return dict(name="whole.l%d.s%d%s" % (level, smax, ".safe" if mode == "safety" else ""), src="hdr/whole.c", defines=["S_MAX=%d" % smax, "LEVEL=%d" % level], rename_defs=RN,
                extra_srcs=["lib/lha_endian.c", "lib/crc16.c"], mode=mode, unwind=smax + 2, no_shift_check=True,
                unwindset={"ext_header_for_num.0": 12, "lha_crc16_buf.0": smax + 10, "decode_extended_headers.0": smax // 3 + 2, "read_l1_extended_headers.0": smax // 3 + 2},
                units=HDR_UNITS + ["lha_file_header_read (complete, level %d)" % level], timeout=timeout, mem_gb=10, tier=tier, stubs=HDR_STUBS + ["calloc/free of the header block: typed slot"],
                bounds="arbitrary input of 0..%d bytes with level byte %d, everything else symbolic; whole parser, no callee stubs except the block allocation" % (smax, level))
