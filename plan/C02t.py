import C02 as _m
CLAIM = _m.CLAIM; ASSUMPTIONS = _m.ASSUMPTIONS
HARNESSES = [dict(h, tier="both", timeout=min(h["timeout"], 1200)) for h in _m.HARNESSES if h.get("tier") == "thorough"]
