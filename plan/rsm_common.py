# reader state machine harness (harness/rsm/rsm.c), shared by C15, C20, C08, C10
RSM_UNITS = ["lib/lha_reader.c", "lib/lha_basic_reader.c", "lib/lha_file_header.c:lha_file_header_free,lha_file_header_add_ref,lha_file_header_full_path"]
RSM_STUBS = ["lha_file_header_read: serves up to M abstract members (file/dir/harmless symlink/dangerous symlink, paths from {none,a/,a/b/,c/}) (parser: hdr.* harnesses)",
             "decoder API (lha_decoder_new/free/read/get_length/get_crc, lha_decoder_for_name, lha_macbinary_passthrough): counted allocations, arbitrary results (decoder: C14/C09)",
             "arch layer and fwrite/fclose: arbitrary results; lha_arch_fopen returns a counted handle",
             "allocator: counted wrappers around malloc/calloc/free (ghost live-block count), optional single failure",
             "lha_input_stream_skip/read: succeed", "sprintf(\"%s%s\"): concatenation model"]


def rsm(m, k, mode="functional", fail=False, timeout=600, tier="both", dirs=False):
    return dict(name="rsm.m%dk%d%s%s%s" % (m, k, ".dirs" if dirs else "", ".fail" if fail else "", ".safe" if mode == "safety" else ""), src="rsm/rsm.c",
                defines=["M=%d" % m, "K=%d" % k] + (["ALLOC_FAIL"] if fail else []) + (["DIRS_ONLY"] if dirs else []), rename_defs={"lib/lha_file_header.c": ["lha_file_header_read"]},
                mode=mode, unwind=8, unwindset={"harness.0": max(m, k) + 2, "harness.1": max(m, k) + 2, "harness.2": max(m, k) + 2, "harness.3": max(m, k) + 2, "harness.4": max(m, k) + 2, "do_decode.0": 4,
                                                "lha_reader_free.0": m + 1, "extract_placeholder_symlink.0": m + 1, "model_next.0": m + 1},
                units=RSM_UNITS, stubs=RSM_STUBS, timeout=timeout, mem_gb=6, tier=tier, optional_witnesses=dirs,
                bounds=("<= %d directory members with paths from {a/, a/b/, c/, a/c/}, any %d operations from {next, extract}, any directory policy%s; archive abandoned after the last operation" if dirs else
                        "<= %d members, any %d operations from {next, read, check, extract, extract-as, is-fake} (one decode / one extract per entry), any directory policy%s; archive abandoned after the last operation") % (m, k, ", any single library allocation failing" if fail else ""))


def pos(r=3, timeout=300, tier="both"):
    return dict(name="pos.r%d" % r, src="rsm/pos.c", defines=["R=%d" % r], unwind=r + 2, units=["lib/lha_basic_reader.c"], timeout=timeout, mem_gb=4, tier=tier,
                stubs=["input stream: position/length model (64-bit position, all-or-nothing reads and skips)", "lha_file_header_read: 30-byte header with arbitrary packed size, records where it parses",
                       "calloc: typed static arena"],
                bounds="two members, packed sizes over the full 32-bit range, stream length arbitrary (64 bit), %d reads of arbitrary sizes" % r)


THREADS = dict(name="threads.decode2", src="rsm/threads.c", unwind=4, flags=["--arrays-uf-always"], units=["lib/lha_reader.c:do_decode,lha_reader_read"], timeout=600, mem_gb=6, replay="concrete",
               bounds="two threads, one reader each, one member of one byte each; all interleavings (CBMC's concurrency encoding)",
               stubs=["decoder: one identifying byte per reader, then end", "fwrite: records the first byte per output handle"])

# not in any plan: CBMC 6.11 refuses this harness ("pointer handling for concurrency is unsound": the decoder's function and buffer pointers are
# dereferenced in both threads); kept for reference, see DESIGN.md 9.4
THREADS2 = dict(name="threads.check2", src="rsm/threads2.c", unwind=6, unwindset={"ref_crc16_step.0": 9, "lha_crc16_buf.0": 4, "verif_memcpy.0": 8, "check_progress_callback.0": 3},
                defines=["free=verif_free_noop"], extra_srcs=["lib/crc16.c"], flags=["--arrays-uf-always"], replay="concrete",
                units=["lib/lha_reader.c:lha_reader_check,open_decoder,do_decode,lha_reader_read", "lib/lha_decoder.c:lha_decoder_read,lha_decoder_get_length,lha_decoder_get_crc", "lib/crc16.c"], timeout=900, mem_gb=8,
                bounds="two threads, one reader + decoder each, one member of two bytes each; all interleavings",
                stubs=["method read(): two identifying bytes per decoder, then end", "lha_basic_reader_decode: hands each reader its own pre-built decoder object"])

STREAM = dict(name="stream.life", src="rsm/stream.c", unwind=4, leak=True, malloc_may_fail=True, units=["lib/lha_input_stream.c:lha_input_stream_from,lha_input_stream_from_FILE,lha_input_stream_new,lha_input_stream_free,file_source_close"],
              timeout=120, mem_gb=4, bounds="three ways of creating a stream, fopen and calloc each succeeding or failing, close callback present or not",
              stubs=["fopen/fclose: handle counter", "calloc: may return NULL (CBMC), --memory-leak-check"])
