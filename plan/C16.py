CLAIM = ("Same members from any stream kind and behind a self-extractor prefix: (scan.iter) ONE iteration of the real self-extractor scan loop from an ARBITRARY loop state (carried-over bytes, decoy-skip state, position; LHASA_VERIF_SFX_RESUME hook) equals a sequential scan of the window positions - by induction the scan equals the sequential scan for every prefix length, every alignment against the 24-byte window and every short-read pattern, up to the real 256 KiB limit; (read.*) after the scan the caller gets the buffered bytes then the source's bytes, in order, and the buffer is empty once the smallest header has been read; (skip.kinds, skip.seek) seek-based, read-fallback and callback-without-skip skipping leave the same observable state on a (position, length, seekable) model of FILE, for any 32-bit distance on the seek path; (main.cmd) the archive name '-' reads standard input.")
ASSUMPTIONS = ['one (carried-over length, refill count) pair per harness: 10 pairs in the quick tier, all 260 in the thorough tier', 'FILE/stdio replaced by a position/length model; real FILE buffering outside', 'the header parser consumes at least 24 bytes for the first header (l01.*: length >= minimum)']
U = ["lib/lha_input_stream.c"]
def scan(pmax, calls, timeout, tier="both"):
    return dict(name="scan.p%d" % pmax, src="C16/scan.c", defines=["PMAX=%d" % pmax, "SRC_CALLS=%d" % calls, "LHASA_VERIF_MAX_SFX_HEADER_LEN=96", "memcpy=verif_memcpy", "memmove=verif_memmove", "memcmp=verif_memcmp"], unwind=13,
         unwindset={"skip_sfx.0": 3 + calls + (pmax + 26) // 12, "skip_sfx.1": 13, "harness.0": pmax + 3, "harness.1": pmax + 27, "harness.2": calls + 1, "src_read.0": 25, "verif_memcmp.0": 13, "verif_memmove.0": 25, "verif_memmove.1": 25, "verif_memcpy.0": 25, "marker_at.0": 8, "marker_at.1": 13},
         units=U, timeout=timeout, mem_gb=6, tier=tier,
         bounds="prefix 0..%d symbolic bytes + 26 archive bytes; first %d source reads arbitrarily short; first read of 1..8 bytes" % (pmax, calls),
         stubs=["src_read: symbolic source with short reads"])
def it(mode="functional", timeout=300, len0=None, ret=None, tier="both"):
    return dict(name="scan.iter%s%s" % ("" if len0 is None else ".l%dr%d" % (len0, ret), ".safe" if mode == "safety" else ""), src="C16/iter.c", tier=tier,
                defines=["LHASA_VERIF_SFX_RESUME"] + ([] if len0 is None else ["LEN0=%d" % len0, "RET=%d" % ret]), mode=mode, unwind=38, optional_witnesses=True, unwind_is_property=True,
                unwindset={"skip_sfx.0": 14, "skip_sfx.1": 3, "verif_memmove.0": 26, "verif_memmove.1": 26, "verif_memcmp.0": 14, "verif_memcpy.0": 26, "src_read.0": 26, "is_marker_at.0": 8, "is_marker_at.1": 13},
                units=["lib/lha_input_stream.c:skip_sfx,file_header_match,empty_leadin,do_read"], timeout=timeout, mem_gb=4,
                bounds="one loop iteration from an arbitrary loop state: <= 12 carried-over bytes (invariant), arbitrary refill count -1..free space, all 24 window bytes symbolic, skip state 0/1, filepos arbitrary (real 256 KiB limit)",
                stubs=["source read callback: arbitrary count/bytes once, then end of data", "LHASA_VERIF_SFX_RESUME hook: loop state settable/observable", "memmove/memcmp: byte loops"])


def rd(len0, buflen, mode="functional", timeout=120, tier="both", failed=0):
    return dict(name="read.l%db%d%s%s" % (len0, buflen, ".failed" if failed else "", ".safe" if mode == "safety" else ""), src="C16/read.c",
                defines=["BL=%d" % max(buflen, 1), "LEN0=%d" % len0, "BUFLEN=%d" % buflen, "FAILED=%d" % failed], mode=mode, optional_witnesses=True,
                unwind=max(buflen, 24) + 2, unwindset={"skip_sfx.0": 1, "skip_sfx.1": 1}, units=["lib/lha_input_stream.c:lha_input_stream_read,empty_leadin,do_read"], timeout=timeout, mem_gb=4, tier=tier,
                bounds="lead-in buffer of %d arbitrary bytes, request of %d bytes into an object of exactly that size, arbitrary source result (count -1..asked, bytes)" % (len0, buflen),
                stubs=["source read callback: arbitrary count/bytes", "memmove/memcpy: byte loops"])


SKIP = dict(name="skip.kinds", src="C16/skip.c", unwind=6, optional_witnesses=True, unwind_is_property=True, units=["lib/lha_input_stream.c:file_source_skip,file_source_skip_fallback,file_source_read,lha_input_stream_skip"], timeout=300, mem_gb=4,
            bounds="any position/length (< 2^40), skip distance 0..70 (three 32-byte pieces), following read of 1..4 bytes",
            stubs=["FILE: (position, length, seekable, eof) model behind fread/ftell/fseek/feof (fread counts whole items of the given size); fseek may move past the end"])
SKIP_FIX = [dict(SKIP, name="skip.kinds.d%d" % d, defines=["DFIX=%d" % d], unwind=d // 32 + 6,
                 tier=("thorough" if d > 512 else "both"), timeout=(1200 if d > 512 else 300),
                 bounds="any position/length (< 2^40), skip distance %d (concrete), following read of 1..4 bytes" % d) for d in (255, 256, 257, 512, 1024)]
Q_ITER = [(0, 24), (0, 13), (0, 12), (0, 1), (12, 12), (12, 1), (5, 9), (7, 17), (3, -1), (3, 0)]
ALL_ITER = [(l, r) for l in range(13) for r in range(-1, 25 - l)]
Q_READ = [(24, 22), (13, 22), (0, 22), (24, 24), (5, 3), (0, 0), (1, 1)]
HARNESSES = ([it(len0=l, ret=r, timeout=120) for l, r in Q_ITER] + [it("safety", len0=l, ret=r, timeout=120) for l, r in [(0, 24), (12, 12), (7, 17)]] +
             [rd(l, b) for l, b in Q_READ] + [rd(7, 9, failed=1)] + [rd(l, b, "safety") for l, b in [(24, 22), (13, 22), (5, 3)]] + [SKIP] + SKIP_FIX +
             [it(len0=l, ret=r, timeout=300, tier="thorough") for l, r in ALL_ITER if (l, r) not in Q_ITER])
MAIN = dict(name="main.cmd", src="C16/main.c", unwind=6, defines=["printf=verif_printf_noop"], units=["src/main.c:main,do_command,parse_command_line,mode_for_char,parse_options,init_options"], timeout=300, mem_gb=4,
            bounds="command word of <= 3 arbitrary bytes, archive name of 1-2 arbitrary bytes, fopen success/failure, command result arbitrary",
            stubs=["command functions (list/test/extract/print), lha_reader_new/free, lha_input_stream_from_FILE/free, lha_filter_init, fopen/fclose: recording stubs", "exit(): ends the path", "printf (help page): no-op"])
HARNESSES.append(MAIN)
HARNESSES.append(dict(name="read.drained", src="C16/read.c", entry="harness_leadin_drained", defines=["BL=30"], unwind=34, unwindset={"skip_sfx.0": 1, "skip_sfx.1": 1},
                      units=["lib/lha_input_stream.c:lha_input_stream_read,empty_leadin"], timeout=300, mem_gb=4,
                      bounds="arbitrary lead-in buffer content and fill (0..full), two reads of 22 and 2 bytes", stubs=["source read callback: end of data", "memmove/memcpy: byte loops"]))
HARNESSES.append(dict(name="skip.seek", src="C16/skip.c", entry="harness_seek", unwind=6, units=["lib/lha_input_stream.c:file_source_skip"], timeout=120, mem_gb=4,
                      bounds="any position/length (< 2^40), any skip distance 0..2^32-1 on a seekable stream", stubs=["FILE: (position, length, seekable, eof) model"]))
