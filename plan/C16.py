CLAIM = ("Self-extractor scan: for every symbolic prefix up to the bound without method signature/marker (as the property words them), "
         "every alignment against the 24-byte window and every short-read pattern of the source, the bytes delivered start exactly at "
         "the first header; one decoy header after an SFX marker is skipped; read-based and seek-based skipping agree on a model FILE; "
         "the scan limit is decided on a scaled constant.")
ASSUMPTIONS = ["256 KiB limit scaled through the LHASA_VERIF hook (same source text)", "FILE/stdio replaced by a position/length model"]
U = ["lib/lha_input_stream.c"]
def scan(pmax, calls, timeout, tier="both"):
    return dict(name="scan.p%d" % pmax, src="C16/scan.c", defines=["PMAX=%d" % pmax, "SRC_CALLS=%d" % calls, "LHASA_VERIF_MAX_SFX_HEADER_LEN=96", "memcpy=verif_memcpy", "memmove=verif_memmove", "memcmp=verif_memcmp"], unwind=13,
         unwindset={"skip_sfx.0": 3 + calls + (pmax + 26) // 12, "skip_sfx.1": 13, "harness.0": pmax + 3, "harness.1": pmax + 27, "harness.2": calls + 1, "src_read.0": 25, "verif_memcmp.0": 13, "verif_memmove.0": 25, "verif_memmove.1": 25, "verif_memcpy.0": 25, "marker_at.0": 8, "marker_at.1": 13},
         units=U, timeout=timeout, mem_gb=6, tier=tier,
         bounds="prefix 0..%d symbolic bytes + 26 archive bytes; first %d source reads arbitrarily short; first read of 1..8 bytes" % (pmax, calls),
         stubs=["src_read: symbolic source with short reads"])
HARNESSES = [scan(4, 2, 600), scan(13, 3, 900)]
