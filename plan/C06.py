CLAIM = "C06 (partial) TODO"
ASSUMPTIONS = []
HARNESSES = [
    dict(name="glob.3x3", src="C06/glob.c", defines=["GL=3", "NL=3"], unwind=20,
         units=["src/filter.c:match_glob"], timeout=120,
         bounds="all patterns of <= 3 bytes x all strings of <= 3 bytes (all byte values), as 15 x 4 concrete shapes with symbolic bytes"),
    dict(name="filter.m3", src="C06/filter.c", defines=["M=3", "NF=2", "SL=2"], unwind=6, rename_defs={"src/filter.c": ["match_glob"]},
         units=["src/filter.c:matches_filter,lha_filter_next_file,lha_filter_init"], timeout=200,
         bounds="3 members (path, name each NULL or <= 2 arbitrary bytes), 0..2 wildcard arguments, arbitrary match verdict per (wildcard, member)",
         stubs=["match_glob: recording stub with arbitrary verdict (verified by glob.*)", "lha_reader_next_file: serves the members", "malloc/free: static buffer"]),
    dict(name="overwrite.l5", src="C06/overwrite.c", defines=["L=5"], unwind=8,
         units=["src/extract.c:extract_archived_file,confirm_file_overwrite,prompt_user,file_exists"], timeout=300,
         bounds="two members in sequence (file/dir/symlink each), existing or not, 3 initial policies, option i, quiet 0..2, scripted standard input of <= 5 arbitrary non-NUL bytes",
         stubs=["getchar: scripted input then EOF", "lha_arch_exists: arbitrary NONE/FILE/DIRECTORY", "lha_reader_extract: counting stub, arbitrary verdict", "malloc/strdup/free: static buffers", "tolower: ASCII model"]),
    dict(name="options.n5", src="C06/options.c", defines=["N=5"], unwind=8,
         units=["src/main.c:parse_options,init_options"], timeout=200,
         bounds="all option strings of <= 5 bytes (all byte values)"),
]
