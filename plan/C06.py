CLAIM = ("C06, solver-decidable parts (bounded symbolic execution of the real sources): "
         "(glob) src/filter.c match_glob == the textbook definition of '*'/'?' wildcard matching (case-sensitive, whole string) for all patterns x strings up to "
         "the bound; matches_filter/lha_filter_next_file return exactly the members whose path+name is matched by some wildcard, in archive order; "
         "(path) file_full_path == [w=DIR '/'] + stored path without leading '/' (omitted under option i) + name; make_parent_directories visits exactly the "
         "parents of that path, outermost first, creating the missing ones with 0755; "
         "(overwrite/options) extract_archived_file extracts an existing file exactly when the decision table (policy, prompt answers y/n/empty/a/s, re-prompt "
         "otherwise) says so, consuming exactly the answer lines; parse_options maps f i n v q[digit] w[=]DIR to the option fields for all option strings up to the bound; "
         "(dirs) over a catalogue of well-formed 3-member archives (nested, sibling, two sub-directories of one parent, look-alike names) and a model filesystem with owner-permission semantics the real reader creates every "
         "directory owner-writable first, writes the children, and applies recorded mode and time afterwards (END_OF_DIR and END_OF_FILE policies), so that "
         "read-only directories still receive their children and keep their recorded time; files get recorded mode and time; "
         "(arch) lha_arch_fopen/mkdir/chmod/chown/utime issue exactly the corresponding libc calls with the recorded values; "
         "(macbin) is_macbinary_header <=> the envelope field table on 128 symbolic bytes; the pass-through decoder drops exactly a recognised 128-byte "
         "envelope, limits output to the data (else resource) fork and otherwise passes the inner stream through unchanged.")
ASSUMPTIONS = [
    "NOT encoded: real file I/O, the kernel's open/mkdir/chmod/utime/symlink behaviour, umask, ownership rules, time zone handling of utime; the model filesystem "
    "of dirs.* is the harness author's statement of owner-permission semantics (create needs parent w+x, chmod/utime need parent x, creation stamps the parent)",
    "decoding of payload bytes is outside (C01-C04, C07): the decoder below the reader is a stub",
    "archives of the dirs.* catalogue are well-formed (each directory entry directly followed by its contents), 3 members, nesting depth <= 2; deeper/larger trees are not covered",
    "the print command's byte copy (print_archived_file) and symlink targets' recreation are not covered by a C06 harness (link creation order is C10's defer.*)",
    "glob bound: patterns and strings of <= 3 bytes in the quick tier, <= 4 in the thorough tier",
    "overwrite prompt: answers contain no NUL byte; a run whose standard input ends at a prompt exits (not a verdict)",
    "MacBinary: member length fits 32 bits (format field width) and the two fork lengths sum below 4 GiB (the real code adds them in 32 bits)",
    "C locale for tolower (ASCII model)",
]
SHAPE_STUBS = ["lha_arch_exists / lha_arch_mkdir: recording stubs, arbitrary results per call", "malloc/strdup/free: typed static buffers (size asked is checked)", "safe_printf/safe_fprintf: no-ops"]
MB_UW = {"harness_strip.1": 130, "harness_strip.3": 130, "ref_is_macbinary.1": 130, "block_is_zero.0": 66, "verif_memcmp.0": 5, "verif_memcpy.0": 130,
         "lha_decoder_read.0": 130, "harness_strip.2": 9, "decode_to_end.0": 9, "read_macbinary_header.0": 4}
HARNESSES = [
    dict(name="glob.3x3", src="C06/glob.c", defines=["GL=3", "NL=3"], unwind=6, unwindset={"match_glob": 3, "match_glob.0": 4, "match_glob.1": 4},
         units=["src/filter.c:match_glob"], timeout=200,
         bounds="all patterns of <= 3 bytes x all strings of <= 3 bytes (all byte values); recursion depth 3 proved sufficient by the recursion unwinding assertion"),
    dict(name="glob.4x4", src="C06/glob.c", defines=["GL=4", "NL=4"], unwind=7, unwindset={"match_glob": 4, "match_glob.0": 5, "match_glob.1": 5}, tier="thorough",
         units=["src/filter.c:match_glob"], timeout=1800,
         bounds="all patterns of <= 4 bytes x all strings of <= 4 bytes (all byte values)"),
    dict(name="filter.m3", src="C06/filter.c", defines=["M=3", "NF=2", "SL=2"], unwind=6, rename_defs={"src/filter.c": ["match_glob"]},
         units=["src/filter.c:matches_filter,lha_filter_next_file,lha_filter_init"], timeout=400,
         bounds="3 members (path, name each NULL or <= 2 arbitrary bytes), 0..2 wildcard arguments, arbitrary match verdict per (wildcard, member)",
         stubs=["match_glob: recording stub with arbitrary verdict (its meaning is decided by glob.*)", "lha_reader_next_file: serves the members", "malloc/free: static buffer"]),
    dict(name="path.s3", src="C10/shape.c", defines=["SL=3"], unwind=13,
         units=["src/extract.c:file_full_path,make_parent_directories,check_parent_directory"], timeout=300,
         bounds="path, filename, extract_path: all strings of <= 3 bytes within the C11 guarantee (extract_path unconstrained), each may be NULL; use_path 0/1 (option i); lha_arch_exists/mkdir results arbitrary per call",
         stubs=SHAPE_STUBS),
    dict(name="path.s4", src="C10/shape.c", defines=["SL=4"], unwind=16, tier="thorough",
         units=["src/extract.c:file_full_path,make_parent_directories,check_parent_directory"], timeout=900,
         bounds="as path.s3 with strings of <= 4 bytes", stubs=SHAPE_STUBS),
    dict(name="overwrite.l5", src="C06/overwrite.c", defines=["L=5"], unwind=8,
         units=["src/extract.c:extract_archived_file,confirm_file_overwrite,prompt_user,file_exists"], timeout=300,
         bounds="two members in sequence (file/dir/symlink each), existing or not, 3 initial policies, option i, quiet 0..2, scripted standard input of <= 5 arbitrary non-NUL bytes",
         stubs=["getchar: scripted input then EOF", "lha_arch_exists: arbitrary NONE/FILE/DIRECTORY", "lha_reader_extract: counting stub, arbitrary verdict", "malloc/strdup/free: static buffers", "tolower: ASCII model"]),
    dict(name="options.n5", src="C06/options.c", defines=["N=5"], unwind=8,
         units=["src/main.c:parse_options,init_options"], timeout=200,
         bounds="all option strings of <= 5 bytes (all byte values)"),
    dict(name="arch.trace", src="C10/excl.c", unwind=12,
         units=["lib/lha_arch_unix.c:lha_arch_fopen,lha_arch_mkdir,lha_arch_chmod,lha_arch_chown,lha_arch_utime,lha_arch_exists"], timeout=200,
         bounds="arbitrary uid/gid/perms/mode/timestamp; every libc call returns an arbitrary value within its contract",
         stubs=["libc file calls (unlink/open/fchown/fchmod/fdopen/close/remove/mkdir/chown/chmod/utime/stat): recording stubs with arbitrary results"]),
    dict(name="macbin.detect", src="C06/macbin.c", entry="harness_detect", defines=["FN=3"], unwind=5, extra_srcs=["lib/lha_endian.c"],
         unwindset={"harness_detect.1": 130, "ref_is_macbinary.1": 130, "block_is_zero.0": 66, "verif_memcmp.0": 5},
         units=["lib/macbinary.c:is_macbinary_header,block_is_zero,check_modification_time", "lib/lha_endian.c:lha_decode_be_uint32"], timeout=400,
         bounds="all 128 envelope bytes symbolic, member name <= 3 arbitrary bytes, member length (64 bit) and timestamp arbitrary; fork lengths summing below 4 GiB",
         stubs=["memcmp: byte-loop model"]),
] + [
    dict(name="macbin.strip%d" % hs, src="C06/macbin.c", entry="harness_strip", defines=["FN=3", "HSPLIT=%d" % hs], unwind=5, extra_srcs=["lib/lha_endian.c"], unwindset=MB_UW,
         units=["lib/macbinary.c:macbinary_decoder_init,read_macbinary_header,macbinary_decoder_read,decode_to_end,is_macbinary_header"], timeout=600, mem_gb=6,
         bounds="envelope bytes, name, timestamp as macbin.detect, member length 32 bit; envelope %s; afterwards the inner decoder delivers pieces of arbitrary size and ends anywhere (<= 7 calls); two read calls" % d,
         stubs=["lha_decoder_read (inner decoder): arbitrary piece sizes, position-tagged data", "memcpy/memcmp: byte-loop models"])
    for hs, d in [(0, "delivered in one piece"), (1, "delivered as 100 + 28 bytes"), (2, "cut short after 100 bytes")]
] + [
    dict(name="dirs.cat%d" % c, src="C06/dirs.c", defines=["M=3", "CAT=%d" % c], unwind=9,
         units=["lib/lha_reader.c:lha_reader_next_file,lha_reader_extract,extract_directory,end_of_top_dir,set_directory_metadata,extract_file,open_output_file,set_timestamps_from_header"], timeout=400, mem_gb=6,
         bounds="catalogue entry %d: %s; per member arbitrary extra flags, permission bits (<= 07777), timestamp, length, CRC; directories may pre-exist (owner rwx) with arbitrary mode/time; chown succeeds or fails; %s" % (c, d, "END_OF_FILE policy only" if c == 6 else "3 directory policies"),
         stubs=["lha_arch_*: model filesystem (owner permission semantics, parent mtime stamping)", "lha_basic_reader_*: serves the 3 headers", "decoder: payload decodes with matching length/CRC, one read", "fwrite/fclose: succeed"])
    for c, d in [(0, "a/ a/b/ a/b/f"), (1, "a/ a/f c/"), (2, "a/ c/ c/f"), (3, "a/ a/f a/g"), (4, "a/ a/b/ a/g"), (5, "a/ a/f ab/"), (6, "a/ c/ a/g (not contiguous)"), (7, "a/ a/b/ a/c/ (two sub-directories)")]
]

HARNESSES.append(dict(name="print.copy", src="C06/print.c", unwind=11, unwindset={"print_archived_file.0": 5, "strlen.0": 3, "strcat.0": 3, "strcat.1": 3, "strchr.0": 3}, units=["src/extract.c:print_archived_file"], timeout=300, mem_gb=4,
                      bounds="3 pieces of 0..3 arbitrary bytes, any one write cut short", stubs=["lha_reader_read: scripted pieces", "fwrite: recording stub with one optional short write"]))
