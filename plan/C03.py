CLAIM = ("-lzs-/-lz5-/stored: each decoder's read function, started from an ARBITRARY ring content and write position "
         "(so the step covers every history), decodes K consecutive commands of symbolic bits exactly as the format "
         "definition says, including self-overlapping copies and ring wrap-around; init states equal the specified fill. The copy kernels are additionally decided on the window scaled to 32 bytes by the LHASA_VERIF hook (same ring arithmetic) against the sequential definition of an LZ77 copy, at concrete write positions with start, length and contents arbitrary - seam crossing and self-overlap in every combination, robust to bulk-copy rewrites of the kernel.")
ASSUMPTIONS = ["input callback contract: returns <= requested bytes, 0 only at end of data"]
HARNESSES = [
    dict(name="lzs.step", src="C03/lzs.c", unwind=18, unwindset={"cb_read.0": 5, "peek_bits.0": 5, "peek_bits.1": 5, "ref_bits.0": 12},
         flags=["--arrays-uf-always"], units=["lib/lzs_decoder.c", "lib/bit_stream_reader.c"], timeout=600, mem_gb=4,
         bounds="one command (literal or copy, any position 0..2047, any length 2..17) from an arbitrary 2 KiB ring, write position and bit alignment 0..7; arbitrary short reads of the callback",
         stubs=["cb_read: symbolic 4-byte stream, symbolic short reads"]),
] + [
    dict(name="lzs.kernel.r32p%d" % kp, src="C03/lzs.c", entry="harness_kernel_seq", unwind=34, defines=["LHASA_VERIF_RING_BUFFER_SIZE=32", "KPOS=%d" % kp], optional_witnesses=True,
         units=["lib/lzs_decoder.c:output_block,output_byte (window scaled to 32 bytes by the LHASA_VERIF hook)"], timeout=300, mem_gb=4,
         bounds="one copy of any length 2..17 from any start position, arbitrary 32-byte ring (scaled), write position %d; sequential-definition oracle; default array encoding" % kp)
    for kp in (0, 5, 16, 27, 31)] + [
    dict(name="lzs.init", src="C03/lzs.c", entry="harness_init", unwind=2050, units=["lib/lzs_decoder.c"], timeout=120,
         bounds="concrete", claim="ring = spaces, pos = 2048-17"),
    dict(name="lz5.kernel", src="C03/lz5.c", entry="harness_kernel", unwind=19, flags=["--arrays-uf-always"],
         units=["lib/lz5_decoder.c:output_block,output_byte"], timeout=600, mem_gb=4,
         bounds="one copy of any length 3..18 from any start position, arbitrary 4 KiB ring, write position, output fill; plus one literal"),
] + [
    dict(name="lz5.kernel.r32p%d" % kp, src="C03/lz5.c", entry="harness_kernel_seq", unwind=34, defines=["LHASA_VERIF_RING_BUFFER_SIZE=32", "KPOS=%d" % kp], optional_witnesses=True,
         units=["lib/lz5_decoder.c:output_block,output_byte (window scaled to 32 bytes by the LHASA_VERIF hook)"], timeout=300, mem_gb=4,
         bounds="one copy of any length 3..18 from any start position, arbitrary 32-byte ring (scaled), write position %d; sequential-definition oracle - seam crossing and self-overlap in every combination with this write position; default array encoding" % kp)
    for kp in (0, 5, 16, 27, 31)] + [
    dict(name="lz5.run", src="C03/lz5.c", entry="harness_run", defines=["RUN_HARNESS", "CB_N=17"],
         rename_defs={"lib/lz5_decoder.c": ["output_byte", "output_block"]}, unwind=9, unwindset={"cb_read.0": 3, "harness_run.0": 18},
         units=["lib/lz5_decoder.c:lha_lz5_read"], timeout=300,
         stubs=["output_byte/output_block replaced by recording stubs (verified by lz5.kernel)", "cb_read: symbolic stream of symbolic length <= 17 (flag byte + 8 copies)"],
         bounds="one run: any flag byte, any 8 commands, stream ending at any byte"),
    dict(name="lz5.init", src="C03/lz5.c", entry="harness_init", unwind=4100, units=["lib/lz5_decoder.c:fill_initial,lha_lz5_init"], timeout=300,
         bounds="all 4096 ring indices (symbolic index) vs closed formula"),
    dict(name="null.read", src="C03/null.c", unwind=16, units=["lib/null_decoder.c", "lib/lha_decoder.c:lha_decoder_for_name"], timeout=120,
         bounds="symbolic stream of 0..8 bytes, symbolic short reads, two consecutive reads; truncation to the declared length is C14's lha_decoder_read claim",
         stubs=["cb_read"]),
]
