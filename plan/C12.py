from hdr_common import *
CLAIM = ("Headers failing their own integrity data are never returned: for arbitrary header bytes (lengths, checksum, level symbolic) the real "
         "level decoders, the level-1 chain reader, the extended-header walker and the final checks of lha_file_header_read succeed only if the "
         "independently recomputed integrity predicate holds (byte sum, length >= level minimum, all bytes present, name fits, extended-header sizes in "
         "range, common CRC matches, level <= 3, file has a name / directory a path); the basic reader latches end-of-archive after the first failure.")
ASSUMPTIONS = ["decomposed along lha_file_header.c's own functions (level decoders, extended-header walk, post-processing tail)",
               "the property's 'all 255 substitutions at every position' is subsumed: the header bytes are fully symbolic"]
HARNESSES = [l01(40), l01long(timeout=3600, tier="thorough"), l23(2), l23(3), l1ext(13), walk(16), tail(3)] + ext_all() + [
    l01(64, timeout=1800, tier="thorough"), l1ext(17, timeout=2400, tier="thorough"), walk(24, timeout=1800, tier="thorough")]
