from hdr_common import *
CLAIM = ("Headers failing their own integrity data are never returned: for arbitrary header bytes (lengths, checksum, level symbolic) the real "
         "level decoders / extended-header walker / final checks succeed only if the independently recomputed integrity predicate holds.")
ASSUMPTIONS = ["decomposed along lha_file_header.c's own functions (level decoders, extended-header walk, post-processing tail); "
               "the whole-parser composition is exercised in the thorough tier for concrete layouts"]
HARNESSES = [l01(40)]
