from rsm_common import *
from hdr_common import *
CLAIM = ("After lha_reader_free nothing allocated on the reader's behalf is left: real reader + basic reader + header reference counting driven by an "
         "arbitrary bounded operation history over abstract members (incl. re-presented directories and deferred symlinks being current at abandonment), "
         "with a ghost count of live blocks and open handles, with and without one failing allocation; header parser side: rejected headers release "
         "their block and strings, replaced strings are released by the extended-header decoders, extend_raw_data with a moving/failing realloc, lha_decoder_new with failing init, stream constructors/destructor with failing fopen/calloc (handle counter), main() releases reader, stream and file once.")
ASSUMPTIONS = ["decoder objects are counted stubs (lha_decoder_new/free pairing: C14 decoder.new)", "header objects come from a stubbed parser; the parser's own ownership is checked by tail.*/ext.*.leak"]
from C16 import MAIN
HARNESSES = [MAIN, STREAM, extend(3), rsm(2, 4, timeout=600), rsm(2, 5, timeout=900),
             dict(name="decoder.new", src="C14/split.c", entry="harness_new", unwind=4, leak=True, units=["lib/lha_decoder.c:lha_decoder_new,lha_decoder_free"], timeout=120, bounds="method init succeeding or failing; 4-byte private area, 3-byte output buffer"), rsm(2, 3, fail=True, timeout=600), rsm(3, 5, timeout=2400, tier="thorough"), rsm(3, 4, fail=True, timeout=2400, tier="thorough")] + \
    [tail(3)] + [ext(n, d, leak=True) for n, d in [(0x01, 4), (0x02, 4), (0x52, 3), (0x53, 3)]]
