from rsm_common import rsm

CLAIM = ("C10, solver-decidable parts (bounded symbolic execution of the real sources): "
         "(danger) lib/lha_reader.c is_dangerous_symlink <=> target absolute or with a '..' component, all targets up to the bound; "
         "(shape) the ONLY path src/extract.c hands to the arch layer, file_full_path(header, options), equals [w=DIR '/'] + header path without leading '/' + "
         "file name, and - for header strings within the library's C11 guarantee - its part after the w= prefix is relative and has no empty/'.'/'..' component "
         "before its last one; every directory make_parent_directories probes/creates is a prefix of that path cut at a '/', probed before created; "
         "(excl) lib/lha_arch_unix.c lha_arch_fopen = unlink(p); open(p, O_CREAT|O_WRONLY|O_EXCL, owner-only); fchown/fchmod on the descriptor; fdopen; "
         "cleanup close+remove on every failure; lha_arch_symlink = unlink(p); symlink(t, p): an object at the final path component is replaced, never followed; "
         "(readonly) with the real tool code and reader layer, the commands l, v, t, p and x/e/p/t with n reach none of the mutating arch functions; "
         "(defer) dangerous links only produce an owner-only placeholder while members are being read; the deferred list stays sorted longest path first "
         "(inductive insert from an arbitrary sorted list); lha_reader_next_file hands out deferred links only when the basic reader is exhausted and the "
         "directory stack empty (inductive step from an arbitrary state under a stated invariant); over whole runs of <= 2 (thorough: 3) members no other "
         "mutating arch call follows the first dangerous lha_arch_symlink, and those come longest first; "
         "(dirs) chmod/chown/utime are applied only to directories this run created (model filesystem run shared with C06).")
ASSUMPTIONS = [
    "NOT encoded: the kernel's path resolution, unlink/open(O_EXCL)/symlink semantics, umask, races with other processes. The claim about staying inside the "
    "extraction directory rests on: resolving a relative path that has no '..' component in a tree without directory symlinks stays below the start directory; "
    "unlink() and open(O_CREAT|O_EXCL) do not follow a symlink at the final component (POSIX).",
    "header strings satisfy property C11 (file name without '/', path components real names after at most one leading '/'): assumed here, decided by the C11/C05 harnesses",
    "extract_path (w=DIR) is the user's own text and is not restricted; '..' inside it is the user's choice",
    "strings are bounded as stated per harness; the layers below the reader (header parser, decoders) are stubs with arbitrary results",
    "callers extract every entry at most once and always extract re-presented directories / deferred links (what src/extract.c does)",
    "make_parent_directories is not run on an output path that is empty or consists of '/' only (real code forms path-1 there: undefined pointer arithmetic, harmless in practice)",
]
LU = {"print_list_headings.0": 22, "print_list_separators.0": 22, "ro_printf.0": 22, "print_footers.2": 22}
SHAPE_STUBS = ["lha_arch_exists / lha_arch_mkdir: recording stubs, arbitrary results per call", "malloc/strdup/free: typed static buffers (size asked is checked)", "safe_printf/safe_fprintf: no-ops"]
RO_STUBS = ["lha_arch_mkdir/_fopen/_symlink/_chmod/_chown/_utime: CHECK(0) (must be unreachable)", "lha_arch_exists: arbitrary", "lha_basic_reader_*: delivers the arbitrary headers",
            "lha_decoder_*/lha_macbinary_passthrough: arbitrary results, <= 2 non-empty reads, progress callback invoked",
            "fwrite/fstat/localtime/time: arbitrary", "malloc/strdup of the output path: static buffers", "safe_printf: no-op; printf: returns the length of a lone %s argument, else 0, no other effect"]
RUN_STUBS = ["lha_basic_reader_*: serves the M headers then NULL", "decoders: arbitrary success, one read", "lha_arch_*: recording stubs carrying the trace checks, arbitrary results", "fwrite/fclose: stubs",
             "lha_file_header_add_ref/free: reference counting ghost"]
HARNESSES = [
    dict(name="danger.n8", src="C10/danger.c", defines=["N=8"], unwind=11,
         units=["lib/lha_reader.c:is_dangerous_symlink"], timeout=120,
         bounds="all NUL-terminated link targets of <= 8 bytes (all byte values), and target == NULL",
         claim="is_dangerous_symlink <=> target starts with '/' or has a component equal to '..' (independent reference predicate)"),
    dict(name="danger.n12", src="C10/danger.c", defines=["N=12"], unwind=15, tier="thorough",
         units=["lib/lha_reader.c:is_dangerous_symlink"], timeout=900,
         bounds="all NUL-terminated link targets of <= 12 bytes"),
    dict(name="excl.trace", src="C10/excl.c", unwind=12,
         units=["lib/lha_arch_unix.c:lha_arch_fopen,lha_arch_symlink,lha_arch_mkdir,lha_arch_chmod,lha_arch_chown,lha_arch_utime,lha_arch_exists"], timeout=200,
         bounds="arbitrary uid/gid/perms/mode/timestamp; every libc call returns an arbitrary value within its contract (0/-1, fd >= -1, stream or NULL)",
         stubs=["unlink/open/fchown/fchmod/fdopen/close/remove/symlink/mkdir/chown/chmod/utime/stat: recording stubs with arbitrary results",
                "fopen/creat/rename/lchown/truncate/link/rmdir/openat: recorded as forbidden"]),
    dict(name="shape.s3", src="C10/shape.c", defines=["SL=3"], unwind=13,
         units=["src/extract.c:file_full_path,make_parent_directories,check_parent_directory"], timeout=300,
         bounds="path, filename, extract_path: all strings of <= 3 bytes within the C11 guarantee (extract_path unconstrained), each may be NULL; use_path 0/1; lha_arch_exists/mkdir results arbitrary per call",
         stubs=SHAPE_STUBS),
    dict(name="shape.s4", src="C10/shape.c", defines=["SL=4"], unwind=16, tier="thorough",
         units=["src/extract.c:file_full_path,make_parent_directories,check_parent_directory"], timeout=900,
         bounds="as shape.s3 with strings of <= 4 bytes", stubs=SHAPE_STUBS),
    dict(name="defer.insert", src="C10/defer.c", entry="harness_insert", defines=["SL=2"], unwind=6,
         units=["lib/lha_reader.c:extract_placeholder_symlink,file_header_path_len"], timeout=400,
         bounds="arbitrary sorted deferred list of <= 3 headers + the current header; path and file name each NULL or <= 2 arbitrary bytes; lha_arch_fopen succeeds or fails",
         stubs=["lha_arch_fopen: recording, arbitrary result", "fclose, lha_file_header_add_ref: counting stubs"]),
    dict(name="defer.next", src="C10/defer.c", entry="harness_next", defines=["SL=2"], unwind=5,
         units=["lib/lha_reader.c:lha_reader_next_file,end_of_top_dir,close_decoder"], timeout=200,
         bounds="arbitrary reader state under the stated invariant: any current-file type, <= 2 queued directories, <= 2 deferred links, basic reader with/without current and next member, paths NULL or <= 2 bytes, three directory policies",
         stubs=["lha_basic_reader_next_file/_curr_file: arbitrary, 'exhausted' is absorbing", "lha_file_header_free: recording"]),
    dict(name="defer.run.m2", src="C10/defer_run.c", defines=["M=2"], unwind=8, unwindset={"copy_bytes.0": 30},
         units=["lib/lha_reader.c"], timeout=600, mem_gb=6,
         bounds="2 members (dir / file / symlink), header path <= 2 arbitrary bytes, name NULL or 1 byte, link target <= 3 arbitrary bytes; any extra_flags/timestamp; each member extracted or skipped; every arch call succeeds or fails arbitrarily; 3 directory policies",
         stubs=RUN_STUBS),
    dict(name="defer.run.m3", src="C10/defer_run.c", defines=["M=3"], unwind=11, unwindset={"copy_bytes.0": 42}, tier="thorough",
         units=["lib/lha_reader.c"], timeout=1800, mem_gb=6,
         bounds="as defer.run.m2 with 3 members", stubs=RUN_STUBS),
] + [
    dict(name="readonly.%s" % nm, src="C10/readonly.c", defines=["M=2", "SL=2", "CMD=%d" % c], unwind=uw, unwindset=us,
         units=["src/list.c", "src/extract.c", "src/filter.c", "lib/lha_reader.c"], timeout=300, mem_gb=6, object_bits=12,
         bounds="command %s; 2 members (dir/symlink/compressed/stored; strings <= 2 arbitrary bytes, each may be NULL; all numeric fields arbitrary), dry-run flag, quiet 0..2, verbose, i, w=, no wildcards, three dir policies, decoder results arbitrary" % nm,
         stubs=RO_STUBS)
    for nm, c, uw, us in [("l", 0, 14, LU), ("v", 1, 14, LU), ("t", 2, 7, {}), ("p", 3, 7, {}), ("xn", 4, 7, {})]
] + [
    dict(name="dirs.cat%d" % c, src="C06/dirs.c", defines=["M=3", "CAT=%d" % c], unwind=9,
         units=["lib/lha_reader.c:extract_directory,set_directory_metadata,lha_reader_next_file,lha_reader_extract"], timeout=400, mem_gb=6,
         bounds="catalogue entry %d (%s) of the C06 model-filesystem run; directories may exist before the run with arbitrary mode/time" % (c, d),
         claim="directory metadata (chmod/chown/utime) is applied only to directories this run created; a pre-existing directory is left as it was",
         stubs=["lha_arch_*: model filesystem", "lha_basic_reader_*: serves the 3 headers", "decoder: payload decodes, one read"])
    for c, d in [(1, "a/ a/f c/"), (4, "a/ a/b/ a/g")]
] + [
    rsm(2, 4, timeout=600),
]
