SETUP_CMD = "true"
HOOKS = dict(guard="LHASA_VERIF", enable="harnesses are compiled by goto-cc with -DLHASA_VERIF from a scratch copy of /repo/lib and /repo/src",
             baseline_off_cmd="make -C /repo check", source_commits=[], add_only=True)
ENGINES = [dict(name="cbmc", path="/verif/bin/check", serves_properties=[],
                kind_free_text="python driver: copies /repo sources, goto-cc + cbmc 6.11 per harness, replays counterexamples natively (gcc+ASan/UBSan)")]
NOTES = "See DESIGN.md. All verdicts are bounded (unwinding assertions on); bounds are listed per harness in the evidence files."
NOT_APPLICABLE = {}
