SETUP_CMD = "true"
HOOKS = dict(guard="LHASA_VERIF", enable="harnesses are compiled by goto-cc with -DLHASA_VERIF from a scratch copy of /repo/lib and /repo/src",
             baseline_off_cmd="make -C /repo check", source_commits=["136a89f60784139c9867484ef2cdc9ac67acc2e9", "8d62620462c06f1bf766b8060b02de181d084656"], add_only=True)
ENGINES = [dict(name="cbmc", path="/verif/bin/check", serves_properties=[],
                kind_free_text="python driver: copies /repo sources, goto-cc + cbmc 6.11 per harness, replays counterexamples natively (gcc+ASan/UBSan)")]
NOTES = "See DESIGN.md. All verdicts are bounded (unwinding assertions on); bounds are listed per harness in the evidence files."
NOT_APPLICABLE = {}

# properties whose checks are registered in MANIFEST.json (quick tier passes on the unchanged tree, calibrated with margin)
CLAIMED = ["C01", "C02", "C03", "C04", "C05", "C06", "C07", "C08", "C09", "C10", "C11", "C12", "C13", "C14", "C15", "C16", "C17", "C18", "C19", "C20"]
UNDER_CONSTRUCTION = "solver-based check under construction in this session (harnesses not yet calibrated); not claimed until its quick tier passes reliably"
