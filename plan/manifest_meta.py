SETUP_CMD = "true"
HOOKS = dict(guard="LHASA_VERIF", enable="harnesses are compiled by goto-cc with -DLHASA_VERIF from a scratch copy of /repo/lib and /repo/src",
             baseline_off_cmd="make -C /repo check", source_commits=["136a89f60784139c9867484ef2cdc9ac67acc2e9", "8d62620462c06f1bf766b8060b02de181d084656", "8019cf9747f46a7ae89ebdae9b13010e24dc8164"], add_only=True)
ENGINES = [dict(name="cbmc", path="/verif/bin/check", serves_properties=["C%02d" % i for i in range(1, 21)],
                kind_free_text="python driver: copies /repo sources, goto-cc + cbmc 6.11 per harness, replays counterexamples natively (gcc+ASan/UBSan)")]
NOTES = ("See DESIGN.md (section 9 describes the machinery as built). Every verdict is a CBMC result over the real sources re-encoded from /repo on each run, within the bounds listed per "
         "harness in the evidence files (unwinding assertions on); counterexamples are replayed natively before a VIOLATION line is printed. known-findings.txt holds only fixed: entries. "
         "seeded/ holds independently written breaking changes with their demonstrations and which check catches each (notes/seeded_table.txt).")
NOT_APPLICABLE = {}

# properties whose checks are registered in MANIFEST.json (quick tier passes on the unchanged tree, calibrated with margin)
CLAIMED = ["C01", "C02", "C03", "C04", "C05", "C06", "C07", "C08", "C09", "C10", "C11", "C12", "C13", "C14", "C15", "C16", "C17", "C18", "C19", "C20"]
UNDER_CONSTRUCTION = "solver-based check under construction in this session (harnesses not yet calibrated); not claimed until its quick tier passes reliably"
