CLAIM = ('lha_crc16_buf == CRC-16/ARC: the one-byte step for all 2^24 (state, byte) pairs in one query (complete for the step, hence the table entry by entry); buffers of symbolic length <= 4 (8 thorough) with a symbolic split point: whole == piecewise == bitwise reference; an empty piece given as (NULL, 0) leaves every state unchanged; the buffer is read only inside [0, len) (exact-size object, pointer checks); and CONCRETE paths through the real routine for what the quantified harnesses cannot reach: every length 0..160 at four start alignments against one-byte steps, and single calls of 32768 and 65537 bytes against split calls.')
ASSUMPTIONS = ['buffers longer than 8 bytes: induction on the verified step (argument) + the concrete sweeps (not quantified over contents: zero data, start value 0x1234)']
U = ["lib/crc16.c"]
HARNESSES = [
    dict(name="crc.exact.safe", src="C17/crc.c", entry="harness_exact", defines=["MAXLEN=4"], mode="safety", unwind=9, units=U, timeout=300,
         bounds="buffers of length 0..4 in an object of exactly that size, all initial states, CBMC pointer checks on"),
    dict(name="crc.big32768", src="C17/crc.c", entry="harness_big", defines=["BIG=32768", "CUTB=1000"], unwind=32775, units=U, timeout=900, mem_gb=8, object_bits=8,
         bounds="CONCRETE path: 32768 zero bytes in one call vs two calls (31768 + 1000 bytes)"),
    dict(name="crc.big65536", src="C17/crc.c", entry="harness_big", defines=["BIG=65536", "CUTB=1000"], unwind=65540, units=U, timeout=1800, mem_gb=8, object_bits=8, tier="thorough",
         bounds="CONCRETE path: 65536 zero bytes in one call vs two calls"),
    dict(name="crc.sweep160", src="C17/crc.c", entry="harness_sweep", defines=["SWEEP=160"], unwind=170, units=U, timeout=900, mem_gb=8,
         bounds="CONCRETE paths: every length 0..160 at start alignments 0..3, zero data, start value 0x1234, against one-byte steps"),
    dict(name="crc.sweep520", src="C17/crc.c", entry="harness_sweep", defines=["SWEEP=520"], unwind=530, units=U, timeout=3000, mem_gb=8, tier="thorough",
         bounds="CONCRETE paths: every length 0..520 at start alignments 0..3"),
    dict(name="crc.null", src="C17/crc.c", entry="harness_null", unwind=9, units=U, timeout=120, bounds="all states, empty piece given as (NULL, 0) between two 1-byte pieces"),
    dict(name="crc.big", src="C17/crc.c", entry="harness_big", unwind=65540, units=U, timeout=900, mem_gb=8, object_bits=8, 
         bounds="CONCRETE path: 65537 zero bytes, start value 0x1234, one call vs two calls (65000 + 537 bytes)",
         claim="per-call lengths above 16 bits are handled (concrete path, complements the quantified harnesses)"),
    dict(name="crc.step", src="C17/crc.c", entry="harness_step", unwind=9, units=U, timeout=120,
         bounds="all 16-bit states x all bytes; loop unwind 9", claim="step == bitwise definition; len 0 is identity"),
    dict(name="crc.split4", src="C17/crc.c", entry="harness_split", defines=["MAXLEN=4"], unwind=9, units=U,
         timeout=200, bounds="buffers of length 0..4, all split points, all initial states",
         claim="whole == two pieces == reference (covers the 2-byte / 2^32 case of the property text)"),
    dict(name="crc.split8", src="C17/crc.c", entry="harness_split", defines=["MAXLEN=8"], unwind=9, units=U,
         tier="thorough", timeout=900, bounds="buffers of length 0..8, all split points, all initial states",
         claim="as split4 at length 8"),
]
