CLAIM = ("Verdict of check/extract <=> (decoded length == recorded length AND CRC-16 == recorded CRC [AND all writes complete]) "
         "with a scripted nondeterministic decoder under the real reader/basic-reader/decoder/CRC code; burst-error detection of the "
         "real CRC routine for bursts <= 16 bits; the exit status, stated on main(): real main/do_command with the real test/extract command loops over 0..260 members with arbitrary per-member verdicts - the low 8 bits of main's return value are 0 exactly when no selected member failed (exit.many.*; independent of the return conventions between the functions); a preceding operation on the same member does not lend its result.")
ASSUMPTIONS = ["arch layer, stdio and header parser are stubs (arbitrary results)", "MacBinary members are excluded from verdict.* (os_type != 'm')"]
R = ["lib/lha_reader.c", "lib/lha_basic_reader.c", "lib/lha_decoder.c", "lib/crc16.c"]
X = ["lib/lha_basic_reader.c", "lib/lha_decoder.c", "lib/crc16.c"]
from C16 import MAIN
HARNESSES = [MAIN,
    dict(name="verdict.c2", src="C07/verdict.c", defines=["CH=2", "MAXCH=2", "calloc=verif_calloc", "fwrite=verif_fwrite", "fclose=verif_fclose", "memcpy=verif_memcpy"],
         rename_defs={"lib/lha_decoder.c": ["lha_decoder_for_name"]}, extra_srcs=X, unwind=5, unwindset={"do_decode.0": 4, "lha_decoder_read.0": 5, "verif_memcpy.0": 7, "check_progress_callback.0": 4, "ref_crc16_step.0": 9, "lha_crc16_buf.0": 5}, units=R, timeout=600, mem_gb=6,
         bounds="member of <= 2 chunks x <= 2 bytes, any recorded length (32 bit) and CRC, check and extract, fopen failure, short writes, unsupported method",
         stubs=["lha_file_header_read: installs one arbitrary header", "lha_decoder_for_name: scripted decoder or NULL", "lha_arch_*: arbitrary success/failure",
                "fwrite: arbitrary short write", "calloc: typed static arena"]),
    dict(name="verdict.pre", src="C07/verdict.c", defines=["CH=2", "MAXCH=1", "PRE_OP", "calloc=verif_calloc", "fwrite=verif_fwrite", "fclose=verif_fclose", "memcpy=verif_memcpy"],
         rename_defs={"lib/lha_decoder.c": ["lha_decoder_for_name"]}, extra_srcs=X, unwind=5, unwindset={"do_decode.0": 4, "lha_decoder_read.0": 5, "verif_memcpy.0": 7, "check_progress_callback.0": 4, "ref_crc16_step.0": 9, "lha_crc16_buf.0": 5}, units=R, timeout=600, mem_gb=6,
         bounds="as verdict.c2 with 2 chunks x 1 byte, preceded by another operation (check or 1-byte read) on the same member",
         stubs=["as verdict.c2; the scripted decoder restarts when a new decoder is opened"]),
    dict(name="burst.n4", src="C07/burst.c", defines=["N=4"], unwind=17, unwindset={"lha_crc16_buf.0": 5}, units=["lib/crc16.c"], timeout=300,
         bounds="buffers of 1..4 bytes, every burst pattern of <= 16 bits at every bit offset inside the buffer"),
    dict(name="burst.n8", src="C07/burst.c", defines=["N=8"], unwind=17, unwindset={"lha_crc16_buf.0": 9}, units=["lib/crc16.c"], timeout=1800, tier="thorough",
         bounds="buffers of 1..8 bytes, every burst of <= 16 bits"),
    dict(name="exit.m3", src="C07/exitcode.c", defines=["M=3"], unwind=5, unwindset={"make_parent_directories.0": 3, "make_parent_directories.1": 3, "make_parent_directories.2": 3, "strlen.0": 3, "strcat.0":3, "strcat.1":3, "strchr.0": 3},
         units=["src/extract.c:test_file_crc,extract_archive,test_archived_file_crc,extract_archived_file"], timeout=300,
         bounds="<= 3 members with arbitrary per-member verdicts, test and extract commands, quiet 0..2",
         stubs=["lha_filter_next_file, lha_reader_check/_extract: arbitrary verdict per member", "arch layer: nothing exists, mkdir succeeds", "printing: no-ops"]),
] + [
    dict(name="exit.many.%s" % w, src="C07/exitmany.c", defines=["NM=260", 'CMDWORD="%s"' % w, "printf=verif_printf_noop"],
         rename_defs={"src/extract.c": ["test_archived_file_crc", "extract_archived_file"]},
         unwind=8, unwindset={"test_file_crc.0": 263, "extract_archive.0": 263}, timeout=300, mem_gb=4,
         units=["src/main.c:main,do_command,parse_command_line,parse_options", "src/extract.c:test_file_crc,extract_archive"],
         bounds="command '%s', 0..260 members, arbitrary verdict per member (so every failure count 0..260, 256 included)" % w,
         stubs=["test_archived_file_crc / extract_archived_file: arbitrary verdict (their own harnesses: exit.m3, verdict.*)", "lha_filter_next_file: serves n members",
                "reader / stream constructors, fopen/fclose, list commands, printing: no-op stubs"])
    for w in ("t", "x")
] + [
    dict(name="exit.real.%s" % w.replace("q2", "Q"), src="C07/exitmany.c", defines=["NM=3", "REAL_MEMBERS", 'CMDWORD="%s"' % w, "printf=verif_printf_noop"],
         unwind=8, unwindset={"test_file_crc.0": 5, "extract_archive.0": 5, "make_parent_directories.0": 3, "make_parent_directories.1": 3, "make_parent_directories.2": 3, "strlen.0": 3, "strcat.0": 3, "strcat.1": 3, "strchr.0": 3},
         timeout=300, mem_gb=4, optional_witnesses=True,
         units=["src/main.c:main,do_command,parse_command_line,parse_options", "src/extract.c:test_file_crc,extract_archive,test_archived_file_crc,extract_archived_file"],
         bounds="command word '%s', 0..3 members, the reader's verdict per member arbitrary, progress callback invoked or not" % w,
         stubs=["lha_reader_check / lha_reader_extract: arbitrary verdict, callback invoked or not", "lha_filter_next_file: serves n members", "arch layer: nothing exists, mkdir succeeds",
                "reader / stream constructors, fopen/fclose, list commands, printing: no-op stubs"])
    for w in ("t", "tq2", "x", "xq2")
]
