from hdr_common import *
from rsm_common import *
CLAIM = ("Memory safety above the decoders, by CBMC's own instrumentation (bounds, pointer validity incl. use-after-free and NULL, pointer primitives, "
         "division, shifts) on the real sources with symbolic archive bytes: every extended-header decoder on data objects of exactly the declared size; "
         "the extended-header walk over a raw header object of exactly its length; level-0/1/2/3 base decoders and the level-1 chain; extend_raw_data with a "
         "moving realloc; the post-processing tail (symlink split, collapse, frees); the reader/basic-reader state machine over arbitrary operation histories "
         "(use-after-free / double free of shared headers and decoders).")
ASSUMPTIONS = ["raw header / string lengths are small (bounds per harness); length FIELDS are fully symbolic, so arithmetic on large declared lengths is covered",
               "CLI printing paths: see C18 harnesses; decoders: C09",
               "ext.parents.all.safe: the pointer ORDER test `p >= path` of make_parent_directories is evaluated on a flat address space (signed offsets) - CBMC orders the one-before-the-start pointer the other way round (harness/common/verif_ptr.h); forming that pointer is not a memory access"]
from C16 import it, rd
HARNESSES = [it("safety", len0=l, ret=r, timeout=120) for l, r in [(0, 24), (12, 12), (7, 17), (0, 13), (0, 1), (0, 11), (5, 3)]] + [rd(l, b, "safety") for l, b in [(24, 22), (13, 22), (5, 3)]] + ext_all(mode="safety") + [walk(16, mode="safety"), extend(3), extend(6, timeout=1800, tier="thorough"), l23(2, 36, mode="safety"), l23(3, 44, mode="safety"), l1ext(9, mode="safety"),
             l01(40, mode="safety", timeout=600), l01(36, mode="safety", timeout=900, rawend=True), l01(40, mode="safety", timeout=3600, rawend=True, tier="thorough"), tail(2, mode="safety"), rsm(2, 3, mode="safety", timeout=600),
             walk(24, mode="safety", timeout=1800, tier="thorough"), rsm(3, 4, mode="safety", timeout=2400, tier="thorough")]

# CLI printing / extraction paths under the memory instrumentation: the C18 harnesses (real src/list.c, src/extract.c, src/safe.c on a member with
# arbitrary strings) re-run in safety mode; their C18-tagged output assertions are not this property's verdict, CBMC's pointer/bounds checks are.
import C18 as _C18
HARNESSES += [dict(h, name=h["name"] + ".safe", mode="safety", timeout=600, mem_gb=6, optional_witnesses=True)
              for h in _C18.HARNESSES if h["name"] in ("list.l", "list.vv", "list.name", "ext.msg", "ext.dryrun", "ext.extract", "safe.output")]
# make_parent_directories on EVERY short path, including the empty and the all-'/' ones (seeded changes C08b3, C08a5: path[len-1] with len == 0)
HARNESSES += [dict(h, name="ext.parents.all.safe", defines=h["defines"] + ["ALLOW_EMPTY_PATH"], mode="safety", timeout=600, mem_gb=6, optional_witnesses=True,
                   text_rewrites={"src/extract.c": [["while (p >= path && *p == '/')", "while (VERIF_PTR_GE(p, path) && *p == '/')"]]},
                   stubs=h.get("stubs", []) + ["pointer order `p >= path` in make_parent_directories evaluated on a flat address space (signed offset; harness/common/verif_ptr.h)"],
                   bounds="make_parent_directories on ANY path string of <= 5 bytes over 0x00..0xFF, the empty and all-'/' paths included")
              for h in _C18.HARNESSES if h["name"] == "ext.parents"]
