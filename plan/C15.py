from rsm_common import *
CLAIM = ("Presentation order and independence of members: the real reader + basic reader run an arbitrary bounded operation history "
         "(next/read/check/extract/extract-as/is-fake, one decode and one extract per entry) over abstract members; every lha_reader_next_file result is "
         "compared with a reference model of the documented order (re-presented directory at the first later entry outside it / at end of input per policy, "
         "never under the plain policy; deferred symlinks last, longest path first, once each; NULL forever after the end), whatever the caller did with "
         "other members and whatever the decoder and arch layer returned (general histories over <= 2 members, and a directed family of 3 directory members incl. sibling sub-directories with 6 next/extract operations); basic-reader position accounting (skip of exactly the unread remainder).")
ASSUMPTIONS = ["thread interleavings: decided by the solver only on the decode path at the smallest bound (threads.decode2: two threads, one member of one byte each, all interleavings); beyond that the claim for concurrent readers rests on the absence of shared mutable library state (argument)",
               "members are abstract headers served by a stubbed parser; decoders are stubs with arbitrary results"]
from C13 import HARNESSES as _C13H
HARNESSES = [THREADS, pos(3)] + [h for h in _C13H if h["name"] == "skip.fallback"] + [rsm(2, 4, timeout=600), rsm(2, 5, timeout=900), rsm(3, 6, timeout=900, dirs=True), rsm(3, 5, timeout=2400, tier="thorough")]

# which header follows a skipped member must not depend on whether the member was read or skipped: skipping goes
# straight to the source, so no member byte may still sit in the stream's lead-in buffer once a header has been read
from C16 import HARNESSES as _C16H
HARNESSES += [h for h in _C16H if h["name"] == "read.drained"]
