from hdr_common import *
CLAIM = ("Well-formed headers come back with exactly their fields: level-0/1 base header (incl. level-0 Unix/OS-9 areas, DOS time handed to mktime), "
         "level-2/3 base headers, the level-1 extended-header chain, the extended-header walk, each of the ten extended-header decoders, and the "
         "post-processing of lha_file_header_read (separator/all-caps normalisation, OS-9 permission mapping, -lk7-, symlink split), each run on "
         "symbolic bytes against an independent statement of the format; member data follows the header (stream position).")
ASSUMPTIONS = ["decomposition along the parser's own functions; composition by the call structure of lha_file_header_read (callee stubs carry the contract the callee's harness proves)",
               "mktime/TZ trusted (argument and result of the call are checked)", "C locale (ASCII) for islower/tolower",
               "string allocations are fixed-size objects in functional harnesses (exact sizes in C08's *.safe variants)"]
HARNESSES = [l01(40), l01long(timeout=3600, tier="thorough"), l23(2), l23(3), l1ext(13), walk(16), tail(3)] + ext_all() + [
    l01(64, timeout=1800, tier="thorough"), l01(96, timeout=3600, tier="thorough"), l1ext(17, timeout=2400, tier="thorough"), walk(24, timeout=1800, tier="thorough"), walk(30, timeout=3600, tier="thorough"), tail(4, timeout=1800, tier="thorough"), tail(5, timeout=3600, tier="thorough")]
