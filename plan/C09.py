CLAIM = ("Per decoder an inductive memory-safety step: arbitrary decoder state satisfying an explicit invariant, arbitrary callback "
         "(bytes, short reads, EOF anywhere), output buffer of exactly max_read bytes, one read(): CBMC bounds/pointer/shift checks hold, "
         "result <= max_read, invariant re-established; init establishes the invariant.  Covers streams of any length.  Every index into an array member of a decoder struct is additionally asserted to lie inside that member (driver-inserted guards: CBMC checks p->member[i] only against the whole object); lha_decoder_read into a caller buffer of exactly the requested size.")
ASSUMPTIONS = ["callback contract: stores at most buf_len bytes and returns that count",
               "lh_new table readers and tree builder are checked on scaled template parameters / scaled tree sizes (same source text)",
               "lh1 tree maintenance checked at scaled NUM_CODES (hook), copy/offset paths at real constants"]
BITS = {"lib/bit_stream_reader.c": ["peek_bits", "read_bits", "read_bit"]}
BITSTUB = "peek_bits/read_bits/read_bit: arbitrary value of the requested width or failure per call, asserting n <= 31 (justified by bits.safe)"


def rn(extra):
    d = dict(BITS)
    d.update(extra)
    return d


HARNESSES = [
    dict(name="bits.safe", src="C01/bits.c", defines=["NMAX=31"], mode="safety", unwind=6, unwindset={"ref_bits.0": 34, "cb_read.0": 5, "harness.0": 7, "harness.1": 5},
         units=["lib/bit_stream_reader.c"], timeout=600, mem_gb=4,
         bounds="arbitrary reader state (bits <= 32), any request 0..31 bits, arbitrary short reads / end of data", stubs=["cb_read"]),
    dict(name="lzs.read", src="C09/lzs.c", entry="harness_read", defines=["READ_HARNESS", "BITS_ANY"], rename_defs=rn({"lib/lzs_decoder.c": ["output_byte"]}), mode="safety",
         unwind=18, flags=["--slice-formula"], units=["lib/lzs_decoder.c:lha_lzs_read,output_block"], timeout=300, bounds="arbitrary ring/pos; one command",
         stubs=[BITSTUB, "output_byte: contract stub (justified by lzs.outbyte)"]),
    dict(name="lzs.outbyte", src="C09/lzs.c", entry="harness_outbyte", mode="safety", unwind=3, unwindset={"memset.0": 2050},
         units=["lib/lzs_decoder.c:output_byte,lha_lzs_init"], timeout=120, bounds="arbitrary ring/pos, any output fill < max_read"),
    dict(name="lz5.read", src="C09/lz5.c", entry="harness_read", defines=["READ_HARNESS"], rename_defs={"lib/lz5_decoder.c": ["output_byte", "output_block"]}, mode="safety",
         unwind=19, unwindset={"any_cb.0": 3, "lha_lz5_read.0": 9, "acb_setup.0": 21, "acb_setup.1": 21},
         units=["lib/lz5_decoder.c:lha_lz5_read"], timeout=300, bounds="arbitrary pos; one run of 8 commands",
         stubs=["any_cb", "output_byte/output_block: contract stubs (justified by lz5.outbyte)"]),
    dict(name="lz5.outbyte", src="C09/lz5.c", entry="harness_outbyte", mode="safety", unwind=19, flags=["--arrays-uf-always"],
         units=["lib/lz5_decoder.c:output_byte,output_block"], timeout=300, bounds="arbitrary ring/pos, any output fill, any copy within the asserted contract"),
    dict(name="lz5.init", src="C09/lz5.c", entry="harness_init", mode="safety", unwind=19,
         unwindset={"fill_initial.0": 14, "fill_initial.1": 257, "fill_initial.2": 257, "fill_initial.3": 257, "fill_initial.4": 129, "fill_initial.5": 111, "fill_initial.6": 19},
         units=["lib/lz5_decoder.c:lha_lz5_init,fill_initial"], timeout=300, bounds="concrete: every write of the initial fill pattern is inside the 4 KiB ring"),
    dict(name="null.step", src="C09/null.c", entry="harness_null", mode="safety", unwind=21, unwindset={"acb_setup.0": 21, "acb_setup.1": 5}, units=["lib/null_decoder.c"], timeout=120,
         bounds="one read", stubs=["any_cb"]),
    dict(name="pm2.read", src="C09/pm2.c", entry="harness_read", defines=["READ_HARNESS", "BITS_ANY"], mode="safety",
         rename_defs=rn({"lib/pm2_decoder.c": ["output_byte", "rebuild_tree"]}), unwind=8,
         unwindset={"tree_ok.0": 66, "harness_read.0": 66, "harness_read.1": 18, "setup.0": 66, "setup.1": 18, "havoc_trees.0": 66, "havoc_trees.1": 18,
                    "copy_from_history.0": 258, "read_from_tree.0": 66, "find_in_history_list.0": 130, "find_in_history_list.1": 130},
         units=["lib/pm2_decoder.c:lha_pm2_decoder_read,read_single_byte,copy_from_history,history_get_count,history_get_offset", "lib/pma_common.c", "lib/tree_decode.c:read_from_tree"],
         timeout=900, mem_gb=8, bounds="arbitrary INV state (full-size trees 65/17), one read, up to 256-byte copy",
         stubs=[BITSTUB, "output_byte: contract stub (asserts room, advances)", "rebuild_tree: contract stub (justified by pm2.rebuild)"]),
    dict(name="pm2.outbyte", src="C09/pm2.c", entry="harness_outbyte", defines=["OUTB_HARNESS", "BITS_ANY"], mode="safety",
         rename_defs=rn({"lib/pm2_decoder.c": ["rebuild_tree"]}), unwind=9,
         unwindset={"tree_ok.0": 66, "setup.0": 66, "setup.1": 18, "harness_outbyte.0": 66, "harness_outbyte.1": 18, "havoc_trees.0": 66, "havoc_trees.1": 18},
         units=["lib/pm2_decoder.c:output_byte", "lib/pma_common.c:update_history_list"],
         timeout=300, mem_gb=6, bounds="arbitrary INV state and history list, any output fill < max_read", stubs=["rebuild_tree: contract stub (justified by pm2.rebuild)"]),
    dict(name="pm2.rebuild", src="C09/pm2.c", entry="harness_rebuild", defines=["REBUILD_HARNESS", "BITS_ANY"], mode="safety",
         rename_defs=rn({"lib/tree_decode.c": ["build_tree"]}), unwind=9,
         unwindset={"tree_ok.0": 66, "setup.0": 66, "setup.1": 18, "harness_rebuild.0": 66, "harness_rebuild.1": 18, "build_tree.0": 66, "build_tree.1": 18,
                    "read_code_tree.0": 33, "read_offset_tree.0": 9, "init_tree.0": 66, "init_history_list.0": 257, "memset.0": 8200},
         units=["lib/pm2_decoder.c:rebuild_tree,read_code_tree,read_offset_tree,lha_pm2_decoder_init"],
         timeout=300, mem_gb=6, bounds="arbitrary INV state, arbitrary table bits; every rebuild stage",
         stubs=[BITSTUB, "build_tree: contract stub (array sizes asserted, tree havocked within T; justified by tree.expand.pm2*/tree.add.pm2*)"]),
    dict(name="pm1.read", src="C09/pm1.c", entry="harness_read", defines=["READ_HARNESS", "BITS_ANY"], mode="safety",
         rename_defs=rn({"lib/pm1_decoder.c": ["read_byte", "outputted_byte"]}), unwind=6,
         unwindset={"inv.0": 33, "read_byte_block.0": 218, "read_copy_command.0": 246},
         units=["lib/pm1_decoder.c:lha_pm1_read,read_byte_block,read_copy_command,read_copy_type_range,read_copy_byte_count,read_byte_block_count,read_start_header", "lib/pma_common.c:decode_variable_length"],
         timeout=600, mem_gb=8, bounds="arbitrary INV state incl. arbitrary output position (all distance-range thresholds), one read: byte block up to 216 + copy up to 244",
         stubs=[BITSTUB, "read_byte: arbitrary byte or failure (justified by pm1.byte)", "outputted_byte: contract stub (justified by pm1.outb)"]),
    dict(name="pm1.byte", src="C09/pm1.c", entry="harness_byte", defines=["BITS_ANY"], mode="safety", rename_defs=BITS, unwind=7,
         unwindset={"inv.0": 33, "find_in_history_list.0": 130, "find_in_history_list.1": 130},
         units=["lib/pm1_decoder.c:read_byte,read_byte_decode_index", "lib/pma_common.c:find_in_history_list,decode_variable_length"],
         timeout=600, mem_gb=8, bounds="all 32 start-header trees, arbitrary history list, arbitrary bits", stubs=[BITSTUB]),
    dict(name="pm1.outb", src="C09/pm1.c", entry="harness_outb", defines=["BITS_ANY"], mode="safety", rename_defs=BITS, unwind=6,
         unwindset={"any_cb.0": 5, "acb_setup.0": 17, "acb_setup.1": 13, "inv.0": 33, "memset.0": 17000, "init_history_list.0": 257},
         units=["lib/pm1_decoder.c:outputted_byte,read_callback_wrapper,lha_pm1_init", "lib/pma_common.c:update_history_list,init_history_list"],
         timeout=600, mem_gb=8, bounds="arbitrary INV state and history list", stubs=["any_cb"]),
] + [
    dict(name="tree.%s.%s" % (k, tag), src="C09/tree.c", entry="harness_" + k, defines=d, mode="safety", rename_defs=BITS, unwind=tl + 2,
         unwindset={"add_codes_with_length.0": nc + 1, "expand_queue.0": tl // 2 + 2, "read_from_tree.0": tl + 1},
         units=["lib/tree_decode.c:" + {"expand": "expand_queue", "add": "add_codes_with_length,read_next_entry", "walk": "read_from_tree,init_tree,set_tree_single"}[k]],
         timeout=600, mem_gb=6, tier=tier, stubs=[BITSTUB] if k == "walk" else [],
         bounds="arbitrary tree of %d %s entries satisfying T, arbitrary build state satisfying B, %d arbitrary code lengths" % (tl, "8-bit" if "ELEM8" in d else "16-bit", nc))
    for tag, d, tl, nc, tier in [
        ("pm2code", ["ELEM8", "TL=65", "NC=31"], 65, 31, "both"),
        ("pm2off", ["ELEM8", "TL=17", "NC=8"], 17, 8, "both"),
        ("lhtemp", ["TL=62", "NC=31"], 62, 31, "both"),
        ("mid16", ["TL=33", "NC=15"], 33, 15, "both"),
        ("lhoff6", ["TL=126", "NC=63"], 126, 63, "thorough"),
    ] for k in ("expand", "add", "walk")
    # add_codes_with_length at 31 symbolic code lengths needs > 10 min on a loaded machine: full sizes of that function in the thorough tier only
    if not (k == "add" and tag in ("pm2code", "lhtemp") and tier == "both")
] + [
    dict(name="tree.add.%s" % tag, src="C09/tree.c", entry="harness_add", defines=d, mode="safety", rename_defs=BITS, unwind=tl + 2,
         unwindset={"add_codes_with_length.0": nc + 1}, units=["lib/tree_decode.c:add_codes_with_length,read_next_entry"], timeout=3000, mem_gb=8, tier="thorough",
         bounds="arbitrary tree of %d entries satisfying T, arbitrary build state satisfying B, %d arbitrary code lengths (real size)" % (tl, nc))
    for tag, d, tl, nc in [("pm2code", ["ELEM8", "TL=65", "NC=31"], 65, 31), ("lhtemp", ["TL=62", "NC=31"], 62, 31)]
]

HARNESSES += [
    dict(name="decread.b%d" % b, src="C09/decread.c", defines=["BUFLEN=%d" % b], mode="safety", unwind=8, unwindset={"lha_decoder_read.0": b + 3, "lha_crc16_buf.0": b + 2, "verif_memcpy.0": 5},
         extra_srcs=["lib/crc16.c"], optional_witnesses=True, units=["lib/lha_decoder.c:lha_decoder_read"], timeout=300, mem_gb=4,
         bounds="arbitrary bookkeeping state satisfying Inv (max_read 3), caller buffer object of exactly %d bytes, method read() returning any count <= max_read per call" % b,
         stubs=["method read(): arbitrary count <= max_read (per-decoder harnesses prove that contract)", "memcpy: byte loop"])
    for b in (0, 1, 4, 6)]

# parts built separately (lh1: plan/C09_lh1.py, lh_new family: plan/C09_lhnew.py)
try:
    from C09_lh1 import HARNESSES_LH1
    HARNESSES += HARNESSES_LH1
except ImportError:
    pass
try:
    from C09_lhnew import HARNESSES_LHNEW
    HARNESSES += HARNESSES_LHNEW
except ImportError:
    pass

# dropped after calibration of the thorough tier on a loaded machine (inconclusive: solver memory / no verdict within the budget); what they
# would add is stated as outside the claim: tree builder step at 31 / 63 symbolic code lengths, fully symbolic lh_new read at HISTORY_BITS 9 / 10
_DROP = {"tree.add.lhtemp", "tree.add.pm2code", "tree.add.lhoff6", "lhnew.read.hb9", "lhnew.read.lk.hb10"}
HARNESSES = [h for h in HARNESSES if h["name"] not in _DROP]

# CBMC 6.11 checks an access p->member[i] only against the size of the whole object (no lower bound, no per-member bound):
# the driver wraps every member-array index of the decoder sources in an explicit guard (harness/common/verif_idx.h)
for _h in HARNESSES:
    if _h.get("mode") == "safety":
        _h["member_bounds"] = True
