CLAIM = "wip"
ASSUMPTIONS = []
LIST_UNITS = ["src/list.c", "src/safe.c"]
OM = {"out_vformat.4": 90, "out_vformat.0": 3, "out_vformat.1": 4, "out_vformat.2": 4, "out_vformat.3": 3, "out_strlen.0": 41, "out_pad.0": 12, "out_str.0": 42, "out_str.1": 41, "out_hex.0": 9, "out_hex.1": 9, "out_hex.2": 9}
LISTL = {"sym_header_fill.0": 4, "sym_header_fill.1": 6, "unix_permissions_print.0": 10, "os9_permissions_print.0": 8, "safe_output.0": 12,
         "last_column.0": 11, "print_list_headings.0": 22, "print_list_headings.1": 11, "print_list_separators.0": 22, "print_list_separators.1": 11,
         "print_columns.0": 11, "print_footers.0": 11, "print_footers.1": 11, "print_footers.2": 12, "print_footers.3": 11, "list_file_contents.0": 4,
         "do_c19_ranges.0": 6, "ref_text.0": 90, "ref_blanks.0": 20, "ref_shown.0": 6, "ref_perm.0": 11, "ref_perm.1": 11, "ref_method_crc.0": 6, "ref_method_crc.1": 6}
def U(**kw):
    d = dict(OM); d.update(LISTL); d.update(kw); return d
COLS = [(1, "perm"), (2, "owner"), (3, "sizes"), (4, "ratio"), (5, "method"), (6, "stamp"), (7, "fullstamp"), (8, "name"), (9, "wname"), (10, "level"), (11, "totals"), (12, "footstamp")]
HARNESSES = [
    dict(name="col."+n, src="C19/cols.c", defines=["WHICH=%d" % w, "SL=3", "OUT_TOKENS=48", "OUT_MAXSTR=16"], unwindset=U(**{"c19_compare.0": 49}), units=LIST_UNITS, timeout=180, mem_gb=3)
    for w, n in COLS
]
