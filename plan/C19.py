CLAIM = "wip"
ASSUMPTIONS = []
LIST_UNITS = ["src/list.c", "src/safe.c"]
OM = {"out_vformat.4": 90, "out_vformat.0": 8, "out_vformat.1": 8, "out_vformat.2": 8, "out_vformat.3": 8, "out_strlen.0": 41, "out_pad.0": 12, "out_str.0": 42, "out_str.1": 41, "out_hex.0": 17, "out_hex.1": 24, "out_hex.2": 17, "lha_arch_vasprintf.0": 65}
LISTL = {"sym_header_fill.0": 4, "sym_header_fill.1": 6, "unix_permissions_print.0": 10, "os9_permissions_print.0": 8, "safe_output.0": 12,
         "last_column.0": 11, "print_list_headings.0": 22, "print_list_headings.1": 11, "print_list_separators.0": 22, "print_list_separators.1": 11,
         "print_columns.0": 11, "print_footers.0": 11, "print_footers.1": 11, "print_footers.2": 12, "print_footers.3": 11, "list_file_contents.0": 4,
         "ref_text.0": 90, "ref_blanks.0": 20, "ref_shown.0": 6, "ref_perm.0": 11, "ref_perm.1": 11, "ref_method_crc.0": 6}
def U(**kw):
    d = dict(OM); d.update(LISTL); d.update(kw); return d
COLS = [(1, "perm"), (2, "owner"), (3, "sizes"), (4, "ratio"), (5, "method"), (6, "stamp"), (7, "fullstamp"), (8, "name"), (9, "wname"), (10, "level"), (11, "totals"), (12, "footstamp")]
HARNESSES = [
    dict(name="col."+n, src="C19/cols.c", defines=["WHICH=%d" % w, "SL=%d" % (2 if n in ("name", "wname") else 3), "OUT_TOKENS=%d" % (16 if n in ("name", "wname") else 32), "OUT_MAXSTR=%d" % (12 if n in ("perm", "method") else 8), "VAS_MAX=16"] + (["SYM_METHOD_ANY=1"] if n == "method" else []), unwindset=U(**{"c19_compare.0": 33, "harness.0": 9, "lha_arch_vasprintf.0": 17}), units=LIST_UNITS, timeout=180, mem_gb=3,
         backend=("cvc5" if n in ("ratio", "totals") else "default"))
    for w, n in COLS
]


CMDS = ["l", "lv", "v", "vv"]
RU = {"c19_compare.0": 97, "lha_arch_vasprintf.0": 17}
HARNESSES += [
    dict(name="head."+n, src="C19/heads.c", defines=["WHICH=2", "CMD=%d" % c, "SL=2", "OUT_TOKENS=96", "OUT_MAXSTR=12", "VAS_MAX=16"], unwindset=U(**RU), units=LIST_UNITS, timeout=180, mem_gb=3)
    for c, n in enumerate(CMDS)
]
STUBBED = ["permission_column_print", "unix_uid_gid_column_print", "packed_column_print", "size_column_print", "ratio_column_print", "method_crc_column_print",
           "timestamp_column_print", "full_timestamp_column_print", "name_column_print", "whole_line_name_column_print", "header_level_column_print",
           "permission_column_footer", "unix_uid_gid_column_footer", "packed_column_footer", "size_column_footer", "ratio_column_footer",
           "timestamp_column_footer", "full_timestamp_column_footer", "print_list_headings", "print_list_separators"]
HARNESSES += [
    dict(name="comp."+n, src="C19/comp.c", defines=["CMD=%d" % c, "NHDR=3", "SL=1", "OUT_TOKENS=128", "OUT_MAXSTR=12", "VAS_MAX=16"], rename_defs={"src/list.c": STUBBED},
         unwindset=U(**{"c19_compare.0": 129, "harness.0": 4, "harness.1": 5, "harness.2": 4, "ref_listing.0": 4, "list_file_contents.0": 5}), units=LIST_UNITS, timeout=300, mem_gb=4, object_bits=14, flags=["--max-field-sensitivity-array-size", "128"])
    for c, n in enumerate(CMDS)
]
HARNESSES += [
    dict(name="e2e."+n+v, src="C19/e2e.c", defines=["CMD=%d" % c, "E2E_QUIET=2", "NHDR=2", "SL=1", "OUT_TOKENS=160", "OUT_MAXSTR=12", "VAS_MAX=16"] + (["E2E_OS9=1"] if v else []),
         unwindset=U(**{"c19_compare.0": 161, "ref_listing.0": 3, "e2e_method.0": 7}), units=LIST_UNITS, timeout=400, mem_gb=4, object_bits=14,
         flags=["--max-field-sensitivity-array-size", "160"])
    for c, n in enumerate(CMDS) for v in (["", ".os9"] if c in (0, 3) else [""])
] + [
    dict(name="e2e."+n+".full", src="C19/e2e.c", defines=["CMD=%d" % c, "E2E_QUIET=0", "NHDR=2", "SL=1", "OUT_TOKENS=512", "OUT_MAXSTR=12", "VAS_MAX=16"],
         unwindset=U(**{"c19_compare.0": 513, "ref_listing.0": 3, "e2e_method.0": 7}), units=LIST_UNITS, timeout=1800, tier="thorough", mem_gb=6, object_bits=14,
         flags=["--max-field-sensitivity-array-size", "512"])
    for c, n in enumerate(CMDS)
]
FL = {"match_glob.0": 5, "match_glob.1": 5, "match_glob": 5, "matches_filter.0": 3, "lha_filter_next_file.0": 4, "strlen.0": 5, "strcat.0": 5, "strcat.1": 5,
      "ref_glob.0": 5, "ref_glob.1": 5, "ref_glob.2": 5, "ref_glob.3": 5, "ref_glob.4": 5, "ref_glob.5": 5, "ref_glob.6": 5, "ref_len.0": 6,
      "harness.0": 5, "harness.1": 5, "harness.2": 4, "harness.3": 4, "harness.4": 3, "harness.5": 3, "harness.6": 3, "harness.7": 4}
HARNESSES += [
    dict(name="filter.sel", src="C19/filter.c", defines=["WHICH=1", "NM=2", "PATL=3", "NAML=3"], units=["src/filter.c: lha_filter_init, lha_filter_next_file, matches_filter"], timeout=300, mem_gb=4,
         rename_defs={"src/filter.c": ["match_glob"]}, unwindset=FL,
         bounds="2 members (path absent or 1 arbitrary byte, file name <= 2 arbitrary bytes), 0..2 wildcard arguments of <= 3 arbitrary bytes each",
         stubs=["lha_reader_next_file: serves the members in order", "malloc/free: one 8-byte buffer", "match_glob: verdict of the reference matcher; checks it is given (argument, joined path+filename); justified by glob.match"],
         claim="lha_filter_next_file returns exactly the members whose path+filename matches a wildcard argument, in archive order; all members when there are no arguments"),
    dict(name="glob.match", src="C19/filter.c", defines=["WHICH=2", "NM=1", "PATL=3", "NAML=2"], units=["src/filter.c: match_glob"], timeout=300, mem_gb=4, unwindset=FL,
         bounds="every pattern of <= 3 bytes against every name of <= 3 bytes (bytes 0x01..0xFF)",
         stubs=[], claim="the real recursive match_glob agrees with an independent iterative matcher (* any run incl. empty, ? one character, literal otherwise, whole-name match)"),
]
