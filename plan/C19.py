CLAIM = ("The output of src/list.c (l, lv, v, vv) equals, token for token, the rendering of an independently written reference "
         "(harness/C19/ref_list.h: written from the Unix-LHA column description and the recorded listings, validated natively against all "
         "720 listings under /repo/test/output by harness/C19/validate/run.sh). Token stream = every literal / %s / %c / padding / hex-digit "
         "byte, and for every decimal or %f conversion one token (kind, justification, zero flag, width, precision, value passed); decimal and "
         "floating-point rendering is left to libc. Decomposition: col.* compare every real column handler and footer with the reference "
         "field for a fully symbolic header (all sizes 0..2^32-1, every OS type, Unix and OS-9 permission words, uid/gid 0..65535, stamps "
         "0..2^32-1 against a symbolic `now` with an arbitrary valid struct tm from localtime, header levels 0..255, names with arbitrary "
         "bytes); head.* compare heading and separator lines; comp.* compare the ASSEMBLY done by the real list_file_basic/verbose -> "
         "list_file_contents -> print_columns / print_footers (order of rows and fields, blanks, line ends, blank fill, count, 32-bit totals, "
         "quiet levels, 0..3 members) with the handlers replaced by field markers on both sides; e2e.* cross-check the decomposition on the "
         "whole real code for two members; filter.sel + glob.match cover member selection by wildcard arguments (src/filter.c).")
ASSUMPTIONS = [
    "libc renders %d/%i/%u/%lu/%5.1f conversions correctly (only the conversion specification and the value passed are compared); TZ database outside",
    "localtime() returns an arbitrary VALID struct tm (mon 0..11, mday 1..31, hour 0..23, min 0..59, sec 0..60, year -1900..1000000) and never NULL; time() returns an arbitrary value < 2^40; fstat succeeds",
    "'six months' = 180 days = 15552000 s, strict (stamp + 15552000 > now shows the time of day); footer totals are 32-bit quantities (sums modulo 2^32), as the property's quantifier says ('32-bit sizes and totals')",
    "bytes of names / link targets / method outside 0x20..0x7E are rendered as '?' (property C18)",
    "names of <= 2-3 bytes; uid/gid <= 65535 and sizes < 2^32 as in the property's quantifier",
]
LIST_UNITS = ["src/list.c", "src/safe.c"]
OM = {"out_vformat.4": 90, "out_vformat.0": 8, "out_vformat.1": 8, "out_vformat.2": 8, "out_vformat.3": 8, "out_strlen.0": 41, "out_pad.0": 12, "out_str.0": 42,
      "out_str.1": 41, "out_hex.0": 17, "out_hex.1": 24, "out_hex.2": 17, "lha_arch_vasprintf.0": 65}
LISTL = {"sym_header_fill.0": 4, "sym_header_fill.1": 6, "unix_permissions_print.0": 14, "os9_permissions_print.0": 12, "safe_output.0": 12,
         "last_column.0": 11, "print_list_headings.0": 22, "print_list_headings.1": 11, "print_list_separators.0": 22, "print_list_separators.1": 11,
         "print_columns.0": 11, "print_footers.0": 11, "print_footers.1": 11, "print_footers.2": 12, "print_footers.3": 11, "list_file_contents.0": 4,
         "ref_text.0": 90, "ref_blanks.0": 20, "ref_shown.0": 6, "ref_perm.0": 11, "ref_perm.1": 11, "ref_method_crc.0": 6}
def U(**kw):
    d = dict(OM); d.update(LISTL); d.update(kw); return d

S_OUT = "printf/fprintf/...: recording output model (harness/common/out_model.h); C18 assertion switched off"
S_VAS = "lha_arch_vasprintf: the same format interpreter rendering into a static buffer (%s %c %x)"
S_TIME = "localtime: ONE arbitrary valid struct tm (its argument is recorded and compared with the stamp the reference asks for); time: arbitrary; fstat: arbitrary mtime"
S_REF = "reference renderer harness/C19/ref_list.h (independent; natively validated against /repo/test/output)"

COLS = [
    (1, "perm", "permission_column_print: OS-9 permission string, Unix permission string (d / l / -), or OS name padded to 10; extra_flags, perms, OS type, method, link target arbitrary"),
    (2, "owner", "unix_uid_gid_column_print: %5i/%-5i or 11 blanks"),
    (3, "sizes", "packed_column_print, size_column_print: %7lu of the header's sizes"),
    (4, "ratio", "ratio_column_print: ****** for -lhd-, else the single-precision value packed*100/original (100.0 when original is 0) passed to %5.1f, then '%'"),
    (5, "method", "method_crc_column_print: 5 method bytes (0x00..0xFF, shown like names, blank-filled) + blank + CRC as four hex digits"),
    (6, "stamp", "timestamp_column_print: blank / 'Mon dd hh:mm' / 'Mon dd  yyyy' by the six-month rule against a symbolic now; tm fields appear in the tokens"),
    (7, "fullstamp", "full_timestamp_column_print: blank / yyyy-mm-dd hh:mm:ss"),
    (8, "name", "name_column_print: path, file name, ' -> ' target; all 8 presence patterns, one compared segment each"),
    (9, "wname", "whole_line_name_column_print: path, file name, '|' target, newline; all 8 presence patterns"),
    (10, "level", "header_level_column_print: [n]"),
    (11, "totals", "permission/uid_gid/packed/size/ratio column footers: ' Total    ', count with file/files, totals, ratio of totals or ******"),
    (12, "footstamp", "timestamp_column_footer and full_timestamp_column_footer for an arbitrary archive stamp"),
]
HARNESSES = [
    dict(name="col." + n, src="C19/cols.c",
         defines=["WHICH=%d" % w, "SL=%d" % (2 if n in ("name", "wname") else 3), "OUT_TOKENS=%d" % (16 if n in ("name", "wname") else 32),
                  "OUT_MAXSTR=%d" % (12 if n in ("perm", "method") else 8), "VAS_MAX=16"] + (["SYM_METHOD_ANY=1"] if n == "method" else []),
         unwindset=U(**{"c19_compare.0": 33, "harness.0": 9, "lha_arch_vasprintf.0": 17}), units=LIST_UNITS, timeout=(400 if n in ("name", "wname") else 240), mem_gb=3,
         backend=("cvc5" if n in ("ratio", "totals") else "default"),
         bounds="fully symbolic header (strings <= %d bytes), symbolic struct tm and now, arbitrary totals" % (2 if n in ("name", "wname") else 3),
         stubs=[S_OUT, S_VAS, S_TIME, S_REF], claim=cl + " - token stream equals the reference field")
    for w, n, cl in COLS
]

CMDS = ["l", "lv", "v", "vv"]
HARNESSES += [
    dict(name="head." + n, src="C19/heads.c", defines=["WHICH=2", "CMD=%d" % c, "SL=2", "OUT_TOKENS=96", "OUT_MAXSTR=12", "VAS_MAX=16"],
         unwindset=U(**{"c19_compare.0": 97, "lha_arch_vasprintf.0": 17}), units=LIST_UNITS, timeout=240, mem_gb=3,
         bounds="column set of lha %s" % n, stubs=[S_OUT, S_REF],
         claim="print_list_headings and print_list_separators write the heading and separator line of the Unix-LHA layout byte for byte")
    for c, n in enumerate(CMDS)
]
STUBBED = ["permission_column_print", "unix_uid_gid_column_print", "packed_column_print", "size_column_print", "ratio_column_print", "method_crc_column_print",
           "timestamp_column_print", "full_timestamp_column_print", "name_column_print", "whole_line_name_column_print", "header_level_column_print",
           "permission_column_footer", "unix_uid_gid_column_footer", "packed_column_footer", "size_column_footer", "ratio_column_footer",
           "timestamp_column_footer", "full_timestamp_column_footer", "print_list_headings", "print_list_separators"]
HARNESSES += [
    dict(name="comp." + n, src="C19/comp.c", defines=["CMD=%d" % c, "NHDR=3", "SL=1", "OUT_TOKENS=128", "OUT_MAXSTR=12", "VAS_MAX=16"], rename_defs={"src/list.c": STUBBED},
         unwindset=U(**{"c19_compare.0": 129, "harness.0": 4, "harness.1": 5, "harness.2": 4, "ref_listing.0": 4, "list_file_contents.0": 5}), units=LIST_UNITS,
         timeout=400, mem_gb=4, object_bits=14, flags=["--max-field-sensitivity-array-size", "128"],
         bounds="lha %s: quiet 0, 1, 2 x 0..3 members with arbitrary 32-bit packed/original sizes, arbitrary archive stamp" % n,
         stubs=[S_OUT, S_REF + " in marker mode", "the 11 column handlers, 7 column footers, print_list_headings, print_list_separators: ONE marker token each (field id + member index / footer value); "
                "their real output is compared by col.* and head.*", "lha_filter_next_file: serves the members in order", "fstat: arbitrary mtime"],
         claim="list_file_basic/verbose, list_file_contents, print_columns, print_footers assemble rows, separators, line ends, blank fill, file count and 32-bit totals as the reference does; "
               "the right column set is used; quiet >= 2 prints rows only")
    for c, n in enumerate(CMDS)
]
HARNESSES += [
    dict(name="e2e." + n + v, src="C19/e2e.c", defines=["CMD=%d" % c, "E2E_QUIET=2", "NHDR=2", "SL=1", "OUT_TOKENS=160", "OUT_MAXSTR=12", "VAS_MAX=16"] + (["E2E_OS9=1"] if v else []),
         unwindset=U(**{"c19_compare.0": 161, "ref_listing.0": 3, "e2e_method.0": 7}), units=LIST_UNITS, timeout=300, mem_gb=4, object_bits=14,
         flags=["--max-field-sensitivity-array-size", "160"],
         bounds="lha %sq2, two members with concrete names/sizes/CRCs/stamps/now/month (so that token positions are concrete); permission bits, uid, gid, header levels, OS-9 bits, "
                "mday/hour/min/sec/year arbitrary" % n,
         stubs=[S_OUT, S_VAS, S_TIME, S_REF, "lha_filter_next_file: serves the two members"],
         claim="nothing stubbed inside src/list.c / src/safe.c: the rows of the real command equal the reference rendering")
    for c, n in enumerate(CMDS) for v in (["", ".os9"] if c in (0, 3) else [""])
] + [
    dict(name="e2e." + n + ".full", src="C19/e2e.c", defines=["CMD=%d" % c, "E2E_QUIET=0", "NHDR=2", "SL=1", "OUT_TOKENS=512", "OUT_MAXSTR=12", "VAS_MAX=16"],
         unwindset=U(**{"c19_compare.0": 513, "ref_listing.0": 3, "e2e_method.0": 7}), units=LIST_UNITS, timeout=1800, tier="thorough", mem_gb=6, object_bits=14,
         flags=["--max-field-sensitivity-array-size", "512"],
         bounds="as e2e.%s at quiet 0: headings, separators, two rows, footer" % n, stubs=[S_OUT, S_VAS, S_TIME, S_REF], claim="the complete real listing equals the reference rendering")
    for c, n in enumerate(CMDS)
] + [
    dict(name="col.%s.s3" % n, src="C19/cols.c", defines=["WHICH=%d" % w, "SL=3", "OUT_TOKENS=16", "OUT_MAXSTR=8", "VAS_MAX=16"],
         unwindset=U(**{"c19_compare.0": 33, "harness.0": 9, "lha_arch_vasprintf.0": 17}), units=LIST_UNITS, timeout=1800, tier="thorough", mem_gb=4,
         bounds="as col.%s with strings <= 3 bytes" % n, stubs=[S_OUT, S_VAS, S_REF], claim="as col.%s" % n)
    for w, n in [(8, "name"), (9, "wname")]
]
FL = {"match_glob.0": 5, "match_glob.1": 5, "match_glob": 5, "matches_filter.0": 3, "lha_filter_next_file.0": 4, "strlen.0": 5, "strcat.0": 5, "strcat.1": 5,
      "ref_glob.0": 5, "ref_glob.1": 5, "ref_glob.2": 5, "ref_glob.3": 5, "ref_glob.4": 5, "ref_glob.5": 5, "ref_glob.6": 5, "ref_len.0": 6,
      "harness.0": 5, "harness.1": 5, "harness.2": 4, "harness.3": 4, "harness.4": 3, "harness.5": 3, "harness.6": 3, "harness.7": 4}
HARNESSES += [
    dict(name="filter.sel", src="C19/filter.c", defines=["WHICH=1", "NM=2", "PATL=3", "NAML=3"], units=["src/filter.c: lha_filter_init, lha_filter_next_file, matches_filter"], timeout=300, mem_gb=4,
         rename_defs={"src/filter.c": ["match_glob"]}, unwindset=FL,
         bounds="2 members (path absent or 1 arbitrary byte, file name <= 2 arbitrary bytes), 0..2 wildcard arguments of <= 3 arbitrary bytes each",
         stubs=["lha_reader_next_file: serves the members in order", "malloc/free: one 8-byte buffer",
                "match_glob: verdict of the reference matcher; checks it is given (argument, joined path+filename); justified by glob.match"],
         claim="lha_filter_next_file returns exactly the members whose path+filename matches a wildcard argument, in archive order; all members when there are no arguments"),
    dict(name="glob.match", src="C19/filter.c", defines=["WHICH=2", "NM=1", "PATL=3", "NAML=2"], units=["src/filter.c: match_glob"], timeout=300, mem_gb=4, unwindset=FL,
         bounds="every pattern of <= 3 bytes against every name of <= 3 bytes (bytes 0x01..0xFF)",
         stubs=[], claim="the real recursive match_glob agrees with an independent iterative matcher (* any run incl. empty, ? one character, literal otherwise, whole-name match)"),
]

# command-line option parsing (quiet levels, verbose modifier) belongs to C19's statement too: reuse C06's harness (its assertions are tagged C06/C19)
import C06 as _C06
HARNESSES += [h for h in _C06.HARNESSES if h["name"] == "options.n5"]
