CLAIM = ("Static-Huffman family (-lh4/5/6/7/x-, -lk7-), compositional: bit-reader refinement (inductive), canonical-tree construction "
         "vs arithmetic codewords, table readers vs a reference parser of the format, one command of LZ77 from an arbitrary window, "
         "block accounting, template parameters of the six instantiations.")
ASSUMPTIONS = ["composition of the parts follows the code's own call structure (argument in DESIGN.md 4.1)",
               "table readers and command decoding are run on the real template text, instantiated by the harness at small NUM_CODES / HISTORY_BITS where stated"]
HARNESSES = [
    dict(name="bits.refine", src="C01/bits.c", defines=["NMAX=25"], unwind=6, unwindset={"ref_bits.0": 34, "cb_read.0": 5, "harness.0": 7, "harness.1": 5},
         units=["lib/bit_stream_reader.c"], timeout=600, mem_gb=4,
         bounds="arbitrary reader state over an 6-byte symbolic stream, any bit position, any request 0..25 bits, arbitrary short reads",
         stubs=["cb_read: symbolic stream with short reads"]),
]
