CLAIM = ("Static-Huffman family (-lh4/5/6/7/x-, -lk7-), compositional: bit-reader refinement (inductive); canonical-tree construction + walk "
         "vs arithmetically computed canonical codewords; table readers vs a reference parser of the block-header format (same symbolic bits, "
         "build_tree captured); distance / LHARK length decoding at the real parameters; one LZ77 command from an arbitrary window "
         "(closed-form oracle for short copies, byte-at-a-time oracle for the whole length range); block accounting; parameters of the six "
         "instantiations and the name table; init + read glue on serialised streams for -lh5-.")
ASSUMPTIONS = ["composition of the parts follows the code's own call structure (argument in DESIGN.md 4.1): a stream is blocks; a block is a count, three tables, commands; "
               "a command is one code-tree symbol plus, for copies, one offset-tree symbol and extra bits",
               "table readers and command decoding run on the real template text lib/lh_new_decoder.c, instantiated by the harness at small NUM_CODES / HISTORY_BITS where stated in 'bounds'",
               "cmd.step.*: byte-at-a-time LZ77 definition (each copy step appends the byte d+1 behind the current head); after every step the window contents are re-chosen "
               "arbitrarily (over-approximation), the frame condition of output_byte is cmd.outbyte.*",
               "tables.code*: the bit string is modelled as a sequence of fields (k-th read returns the k-th arbitrary field, widths compared with the reference's)",
               "e2e.lh5.*: the post-init state with ARBITRARY window contents; e2e.init.lh5 shows the real init makes every window cell a space"]
BITS = {"lib/bit_stream_reader.c": ["peek_bits", "read_bits", "read_bit"]}
SPECSTUB = "peek_bits/read_bits/read_bit: the next n bits of a symbolic bit string, MSB first, -1 when fewer remain (refinement proved by bits.refine for n <= 25; the stub asserts n <= 25)"


def rn(extra):
    d = dict(BITS)
    for k, v in extra.items():
        d[k] = d.get(k, []) + v
    return d


def tree_h(tag, ns, ml, elem8=False, comb=False, tier="both", timeout=300):
    defs = ["NS=%d" % ns, "ML=%d" % ml] + (["ELEM8"] if elem8 else []) + ([comb if isinstance(comb, str) else "COMB"] if comb else [])
    return dict(name="tree.%s" % tag, src="C01/tree.c", defines=defs, rename_defs=BITS, unwind=max(2 * ns, ml) + 2,
                units=["lib/tree_decode.c:build_tree,expand_queue,add_codes_with_length,read_next_entry,read_from_tree,init_tree"],
                timeout=timeout, tier=tier, mem_gb=4, stubs=[SPECSTUB],
                bounds="%s: %d symbols, lengths 0..%d, Kraft-complete%s, arbitrary symbol s; TreeElement %s; tree array 2*%d entries"
                       % (("comb 1..%d,%d at any rotation/reflection of the symbol order" % (ml, ml) if comb == "COMBROT" else "comb (any permutation of 1..%d,%d)" % (ml, ml)) if comb else "all length arrays", ns, ml,
                          "", "uint8_t (pm2)" if elem8 else "uint16_t (lh_new)", ns))


RFT = {"lib/tree_decode.c": ["read_from_tree"]}
RFTSTUB = "read_from_tree: yields the harness' arbitrary command code (< NUM_CODES) for the code tree and an arbitrary offset symbol for the offset tree, consuming no bits (tree walk vs canonical codewords: tree.*)"


OUTB = {"lib/lh_new_decoder.c": ["output_byte", "start_new_block"]}
SNB = {"lib/lh_new_decoder.c": ["start_new_block"]}


def cmd_h(tag, defs, maxlen, flags=(), tier="both", timeout=300, mem_gb=4, bounds="", backend="cadical", step=False, entry="harness"):
    lk = "LK" in defs or "REAL_LK7" in defs
    return dict(name="cmd." + tag, src="C01/cmd.c", entry=entry, defines=defs + (["STEPWISE"] if step else []),
                rename_defs=rn(dict(RFT, **OUTB)) if step else rn(dict(RFT, **SNB)),
                unwindset={"copy_from_history.0": maxlen + 1, "bs_ref.0": 21, "harness.0": 5, "harness.1": 65, "harness_codes.0": 5, "harness_outbyte.0": 515, "havoc_window.0": 65},
                flags=list(flags), backend=backend, tier=tier, timeout=timeout, mem_gb=mem_gb, bounds=bounds,
                stubs=[SPECSTUB, RFTSTUB, "start_new_block: asserted unreachable (block_remaining >= 1)"] + (["output_byte: monitor wrapper that checks the byte-at-a-time LZ77 step and calls the real output_byte"] if step else []),
                units=["lib/lh_new_decoder.c:lha_lh_new_read,read_code,copy_from_history,read_offset_code,output_byte"
                       + (",lhark_decode_copy_count,lhark_read_offset_code" if lk else "")])


def tab_h(tag, hdef, entry, defs, renames, unwindset, bounds, units="", extra_stubs=(), tier="both", timeout=300):
    uw = {"bs_ref.0": 18, "setup_stream.0": 20, "build_tree.0": 70}
    uw.update(unwindset)
    return dict(name="tables." + tag, src="C01/tables.c", entry=entry, defines=[hdef] + defs, rename_defs=rn(renames), unwindset=uw,
                tier=tier, timeout=timeout, mem_gb=4, bounds=bounds, backend="cadical",
                stubs=[SPECSTUB] + (["build_tree: capture stub recording (tree, tree_len, code_lengths[0..n), n) (tree construction itself: tree.*)"] if hdef != "H_LEN" else []) + list(extra_stubs),
                units=["lib/lh_new_decoder.c:" + units])


HARNESSES = [
    dict(name="bits.refine", src="C01/bits.c", defines=["NMAX=25"], unwind=6, unwindset={"ref_bits.0": 34, "cb_read.0": 5, "harness.0": 7, "harness.1": 5},
         units=["lib/bit_stream_reader.c"], timeout=600, mem_gb=4,
         bounds="arbitrary reader state over an 6-byte symbolic stream, any bit position, any request 0..25 bits, arbitrary short reads",
         stubs=["cb_read: symbolic stream with short reads"]),
    # ---- H01.tree
    tree_h("4x4.u16", 4, 4),
    tree_h("4x4.u8", 4, 4, elem8=True),
    tree_h("6x5.u16", 6, 5),
    tree_h("6x5.u8", 6, 5, elem8=True),
    tree_h("8x6.u16", 8, 6, tier="thorough", timeout=1800),
    tree_h("8x6.u8", 8, 6, elem8=True, tier="thorough", timeout=1800),
    tree_h("comb17.u16", 17, 16, comb="COMBROT", tier="thorough", timeout=1800),
    tree_h("comb8.u16", 8, 7, comb=True, tier="thorough", timeout=1800),
    tree_h("comb8.u8", 8, 7, elem8=True, comb=True, tier="thorough", timeout=1800),
    dict(name="tree.single.u16", src="C01/tree.c", entry="harness_single", defines=["NS=510"], rename_defs=BITS, unwind=2, unwindset={"init_tree.0": 1022, "harness_single.0": 5},
         units=["lib/tree_decode.c:set_tree_single,read_from_tree,init_tree"], timeout=120, stubs=[SPECSTUB],
         bounds="any symbol < 2^15, tree of 1020 entries"),
    dict(name="tree.single.u8", src="C01/tree.c", entry="harness_single", defines=["NS=32", "ELEM8"], rename_defs=BITS, unwind=2, unwindset={"init_tree.0": 66, "harness_single.0": 5},
         units=["lib/tree_decode.c:set_tree_single,read_from_tree,init_tree"], timeout=120, stubs=[SPECSTUB],
         bounds="any symbol < 128, tree of 64 entries"),
    # ---- H01.cmd  (closed-form oracle for short copies; byte-at-a-time oracle for the whole length range)
    cmd_h("closed.hb4", ["HB=4", "OB=3", "LENMAX=16"], 16, timeout=300,
          bounds="closed-form oracle; template at HISTORY_BITS 4 (16-byte ring): window, position, offset symbol 0..4 + extra bits symbolic, literal or copy length 3..16"),
    cmd_h("closed.hb4.l32", ["HB=4", "OB=3", "LENMAX=32"], 32, timeout=900, tier="thorough",
          bounds="closed-form oracle; template at HISTORY_BITS 4: as closed.hb4 with copy length 3..32 (ring wraps twice)"),
    cmd_h("closed.lk.hb4", ["HB=4", "OB=4", "LK", "LENMAX=20"], 20, timeout=300,
          bounds="closed-form oracle; LHARK template at HISTORY_BITS 4: length codes 256..268 (lengths 3..20, first extra-bit classes), distance codes 0..7"),
    cmd_h("closed.lk.hb4.l32", ["HB=4", "OB=4", "LK", "LENMAX=32"], 32, timeout=900, tier="thorough",
          bounds="closed-form oracle; LHARK template at HISTORY_BITS 4: lengths 3..32, distance codes 0..7"),
    cmd_h("closed.hb6", ["HB=6", "OB=3", "LENMAX=16"], 16, timeout=900, tier="thorough",
          bounds="closed-form oracle; template at HISTORY_BITS 6 (64-byte ring): everything symbolic, copy length 3..16"),
    cmd_h("closed.lh5", ["REAL_LH5", "LENMAX=8"], 8, flags=["--arrays-uf-always"], timeout=400, mem_gb=6,
          bounds="closed-form oracle; real lib/lh5_decoder.c (16 KiB ring): arbitrary ring, symbolic position, offset symbol 0..14 with symbolic extra bits, literal or copy of length 3..8"),
    cmd_h("closed.lh5.l16", ["REAL_LH5", "LENMAX=16"], 16, flags=["--arrays-uf-always"], timeout=1800, mem_gb=6, tier="thorough",
          bounds="closed-form oracle; real lib/lh5_decoder.c (16 KiB ring): as closed.lh5 with copy length 3..16"),
    cmd_h("closed.lk7", ["REAL_LK7", "LENMAX=16"], 16, flags=["--arrays-uf-always"], tier="thorough", timeout=1800, mem_gb=6,
          bounds="closed-form oracle; real lib/lk7_decoder.c (64 KiB ring): arbitrary ring, symbolic position, distance codes 0..31, copy length 3..16"),
    cmd_h("closed.lh6", ["REAL_LH6", "LENMAX=16"], 16, flags=["--arrays-uf-always"], tier="thorough", timeout=1800, mem_gb=6,
          bounds="closed-form oracle; real lib/lh6_decoder.c (64 KiB ring): arbitrary ring, symbolic position, offset symbol 0..16, copy length 3..16"),
    cmd_h("step.hb4", ["HB=4", "OB=3", "LENMAX=128"], 128, step=True, timeout=300,
          bounds="byte-at-a-time oracle; template at HISTORY_BITS 4: window, position, code (literal / every length 3..128), offset symbol 0..4, extra bits all symbolic; ring wraps up to 8 times"),
    cmd_h("step.hb4.full", ["HB=4", "OB=3"], 256, step=True, timeout=1200, tier="thorough",
          bounds="byte-at-a-time oracle; template at HISTORY_BITS 4: as step.hb4 with every length 3..256; ring wraps up to 16 times"),
    cmd_h("step.hb6.full", ["HB=6", "OB=3"], 256, step=True, timeout=1800, tier="thorough",
          bounds="byte-at-a-time oracle; template at HISTORY_BITS 6: everything symbolic, every length 3..256, offset symbols 0..6"),
    cmd_h("step.lk.hb4.full", ["HB=4", "OB=4", "LK"], 514, step=True, timeout=1800, tier="thorough",
          bounds="byte-at-a-time oracle; LHARK template at HISTORY_BITS 4, NUM_CODES 289: every length class 3..514, distance codes 0..7"),
    cmd_h("step.lk.hb6.full", ["HB=6", "OB=4", "LK"], 514, step=True, timeout=1800, tier="thorough",
          bounds="byte-at-a-time oracle; LHARK template at HISTORY_BITS 6: every length class 3..514, distance codes 0..11"),
    cmd_h("codes.lh5", ["REAL_LH5"], 1, entry="harness_codes", timeout=120, bounds="real lib/lh5_decoder.c: every offset symbol 0..14, all extra bits, any bit alignment"),
    cmd_h("codes.lh6", ["REAL_LH6"], 1, entry="harness_codes", timeout=300, tier="thorough", bounds="real lib/lh6_decoder.c: every offset symbol 0..16, all extra bits, any bit alignment"),
    cmd_h("codes.lh7", ["REAL_LH7"], 1, entry="harness_codes", timeout=300, tier="thorough", bounds="real lib/lh7_decoder.c: every offset symbol 0..17, all extra bits, any bit alignment"),
    cmd_h("codes.lhx", ["REAL_LHX"], 1, entry="harness_codes", timeout=300, bounds="real lib/lhx_decoder.c: every offset symbol 0..20, all extra bits, any bit alignment"),
    cmd_h("codes.lk7", ["REAL_LK7"], 1, entry="harness_codes", timeout=120, bounds="real lib/lk7_decoder.c: every distance code 0..31 and every length code 256..288, all extra bits, any bit alignment"),
    cmd_h("outbyte.hb4", ["HB=4", "OB=3"], 256, step=True, entry="harness_outbyte", timeout=120,
          bounds="real output_byte from an arbitrary 16-byte ring / position / buffer fill"),
    cmd_h("outbyte.lh5", ["REAL_LH5"], 256, step=True, entry="harness_outbyte", timeout=120, flags=["--arrays-uf-always"],
          bounds="real output_byte of lib/lh5_decoder.c from an arbitrary 16 KiB ring / position / buffer fill"),
    # ---- H01.tables
    tab_h("len", "H_LEN", "harness_len", ["BS_N=6"], {}, {"read_length_value.0": 47, "ref_length.0": 47},
          "read_length_value from any position of an arbitrary 48-bit string of any length (unary extensions up to 45)", units="read_length_value"),
    tab_h("temp", "H_TEMP", "harness_temp", ["BS_N=4", "LENSTUB"], {"lib/tree_decode.c": ["build_tree"], "lib/lh_new_decoder.c": ["read_length_value"]},
          {"read_temp_table.0": 5, "read_temp_table.1": 33, "harness_temp.0": 37, "harness_temp.1": 34, "harness_temp.2": 5, "harness_temp.3": 33, "read_from_tree.0": 2},
          "read_temp_table: every n 0..31, every skip field, arbitrary length values 0..255, any bit alignment, truncation anywhere", units="read_temp_table",
          extra_stubs=["read_length_value: arbitrary pre-drawn value per call, no bits consumed, call positions logged (real function vs format: tables.len)"]),
    tab_h("temp.real", "H_TEMP", "harness_temp", ["BS_N=4", "NMAXT=4"], {"lib/tree_decode.c": ["build_tree"]},
          {"read_length_value.0": 31, "ref_length.0": 31, "read_temp_table.0": 5, "read_temp_table.1": 6, "harness_temp.0": 37, "harness_temp.1": 5, "harness_temp.2": 6, "read_from_tree.0": 2},
          "read_temp_table with the real read_length_value on an arbitrary <= 32-bit string, tables of n <= 4 entries (skip field included), unary extensions of any length", units="read_temp_table,read_length_value", tier="thorough", timeout=1800),
    tab_h("code", "H_CODE", "harness_code", ["NC=24", "KMAX=3"], {"lib/tree_decode.c": ["build_tree", "read_from_tree"]},
          {"read_code_table.0": 27, "read_code_table.1": 5, "harness_code.0": 34, "harness_code.1": 27, "harness_code.2": 27, "harness_code.3": 27, "harness_code.4": 5, "real_read_from_tree.0": 2},
          "read_code_table with NUM_CODES = 24 (template instantiated small): arbitrary n <= 24, arbitrary temp-symbol sequence 0..30 of at most 3 symbols, arbitrary bit fields (field-sequence model of the bit string), input ending after any field: all three zero-run classes incl. runs clipped at the table end",
          units="read_code_table,read_skip_count", extra_stubs=["read_from_tree(temp tree): arbitrary pre-drawn symbol sequence 0..30, consumed identically by the reference", "bit reader: field-sequence model (k-th read returns the low n bits of the k-th arbitrary field; widths logged and compared)"], tier="both", timeout=400),
    tab_h("code.k4", "H_CODE", "harness_code", ["NC=24", "KMAX=4"], {"lib/tree_decode.c": ["build_tree", "read_from_tree"]},
          {"read_code_table.0": 27, "read_code_table.1": 6, "harness_code.0": 34, "harness_code.1": 27, "harness_code.2": 27, "harness_code.3": 27, "harness_code.4": 6, "real_read_from_tree.0": 2},
          "read_code_table with NUM_CODES = 24 (template instantiated small): arbitrary n <= 24, arbitrary temp-symbol sequence 0..30 of at most 4 symbols, arbitrary bit fields (field-sequence model of the bit string), input ending after any field: all three zero-run classes incl. runs clipped at the table end",
          units="read_code_table,read_skip_count", extra_stubs=["read_from_tree(temp tree): arbitrary pre-drawn symbol sequence 0..30, consumed identically by the reference", "bit reader: field-sequence model (k-th read returns the low n bits of the k-th arbitrary field; widths logged and compared)"], tier="thorough", timeout=1200),
    tab_h("code.k6", "H_CODE", "harness_code", ["NC=24", "KMAX=6"], {"lib/tree_decode.c": ["build_tree", "read_from_tree"]},
          {"read_code_table.0": 27, "read_code_table.1": 8, "harness_code.0": 34, "harness_code.1": 27, "harness_code.2": 27, "harness_code.3": 27, "harness_code.4": 8, "real_read_from_tree.0": 2},
          "read_code_table with NUM_CODES = 24 (template instantiated small): arbitrary n <= 24, arbitrary temp-symbol sequence 0..30 of at most 6 symbols, arbitrary bit fields (field-sequence model of the bit string), input ending after any field: all three zero-run classes incl. runs clipped at the table end",
          units="read_code_table,read_skip_count", extra_stubs=["read_from_tree(temp tree): arbitrary pre-drawn symbol sequence 0..30, consumed identically by the reference", "bit reader: field-sequence model (k-th read returns the low n bits of the k-th arbitrary field; widths logged and compared)"], tier="thorough", timeout=1800),
    tab_h("off4", "H_OFF", "harness_off", ["BS_N=4", "OB=4", "LENSTUB"], {"lib/tree_decode.c": ["build_tree"], "lib/lh_new_decoder.c": ["read_length_value"]},
          {"read_offset_table.0": 18, "harness_off.0": 18, "harness_off.1": 66, "harness_off.2": 18, "read_from_tree.0": 2},
          "read_offset_table with OFFSET_BITS 4 (-lh4/5-): every n 0..15, arbitrary length values, any alignment, truncation", units="read_offset_table", extra_stubs=["read_length_value: arbitrary pre-drawn value per call, no bits consumed, call positions logged (real function vs format: tables.len)"]),
    tab_h("off5", "H_OFF", "harness_off", ["BS_N=4", "OB=5", "LENSTUB"], {"lib/tree_decode.c": ["build_tree"], "lib/lh_new_decoder.c": ["read_length_value"]},
          {"read_offset_table.0": 34, "harness_off.0": 34, "harness_off.1": 66, "harness_off.2": 34, "read_from_tree.0": 2},
          "read_offset_table with OFFSET_BITS 5 (-lh6/7/x-): every n 0..31, arbitrary length values", units="read_offset_table", extra_stubs=["read_length_value: arbitrary pre-drawn value per call, no bits consumed, call positions logged (real function vs format: tables.len)"]),
    tab_h("off6", "H_OFF", "harness_off", ["BS_N=4", "OB=6", "LENSTUB"], {"lib/tree_decode.c": ["build_tree"], "lib/lh_new_decoder.c": ["read_length_value"]},
          {"read_offset_table.0": 66, "harness_off.0": 66, "harness_off.1": 66, "harness_off.2": 66, "read_from_tree.0": 2},
          "read_offset_table with OFFSET_BITS 6 (-lk7-): every n 0..63, arbitrary length values", units="read_offset_table", extra_stubs=["read_length_value: arbitrary pre-drawn value per call, no bits consumed, call positions logged (real function vs format: tables.len)"]),
    tab_h("off.real", "H_OFF", "harness_off", ["BS_N=4", "OB=4", "NMAXO=3"], {"lib/tree_decode.c": ["build_tree"]},
          {"read_length_value.0": 31, "ref_length.0": 31, "read_offset_table.0": 5, "harness_off.0": 18, "harness_off.1": 5, "read_from_tree.0": 2},
          "read_offset_table with the real read_length_value on an arbitrary <= 32-bit string, n <= 3", units="read_offset_table,read_length_value", tier="thorough", timeout=900),
    tab_h("blockhdr", "H_BLOCKHDR", "harness_blockhdr", ["BS_N=4"], {"lib/tree_decode.c": ["build_tree"], "lib/lh_new_decoder.c": ["read_temp_table", "read_code_table", "read_offset_table"]},
          {}, "start_new_block on an arbitrary <= 32-bit string; the three table readers replaced by recording stubs with arbitrary results", units="start_new_block",
          extra_stubs=["read_temp_table/read_code_table/read_offset_table: record call order, return arbitrary success/failure (each verified by its own tables.* harness)"]),
    # ---- H01.block
    dict(name="block.account", src="C01/block.c", rename_defs=rn({"lib/tree_decode.c": ["read_from_tree"], "lib/lh_new_decoder.c": ["start_new_block"]}),
         unwindset={"lha_lh_new_read.0": 6, "copy_from_history.0": 258, "bs_ref.0": 6, "harness.0": 6, "harness.1": 6, "harness.2": 18, "harness.3": 6},
         units=["lib/lh_new_decoder.c:lha_lh_new_read"], timeout=300, mem_gb=4, backend="cadical",
         bounds="template at HISTORY_BITS 4; arbitrary block_remaining, up to 4 consecutive block headers (arbitrary counts incl. 0, arbitrary failure), arbitrary command",
         stubs=[SPECSTUB, RFTSTUB, "start_new_block: arbitrary header sequence (count / failure), asserts it is entered only with block_remaining == 0 (real function: tables.blockhdr)"]),
    # ---- H01.params
] + [
    dict(name="params." + m, src="C01/params.c", defines=["M_" + m.upper()], units=["lib/%s_decoder.c" % m, "lib/lh_new_decoder.c (parameters)"], timeout=300,
         bounds="compile-time parameters and decoder type record of the real instantiation", unwind=2)
    for m in ("lh5", "lh6", "lh7", "lhx", "lk7")
] + [
    dict(name="params.names", src="C01/params.c", entry="harness_names", defines=["M_NAMES"],
         extra_srcs=["lib/lh1_decoder.c", "lib/lh5_decoder.c", "lib/lh6_decoder.c", "lib/lh7_decoder.c", "lib/lhx_decoder.c", "lib/lk7_decoder.c",
                     "lib/lz5_decoder.c", "lib/lzs_decoder.c", "lib/null_decoder.c", "lib/pm1_decoder.c", "lib/pm2_decoder.c", "lib/crc16.c"],
         unwindset={"lha_decoder_for_name.0": 16, "strcmp.0": 8, "strcpy.0": 8}, units=["lib/lha_decoder.c:decoders[],lha_decoder_for_name"], timeout=300,
         bounds="the six method names through the real lha_decoder_for_name, all decoder objects linked"),
    # ---- H01.e2e
    dict(name="e2e.init.lh5", src="C01/e2e.c", entry="harness_init", unwindset={"memset.0": 16386, "init_tree.0": 1022}, timeout=300, mem_gb=6,
         units=["lib/lh_new_decoder.c:lha_lh_new_init,init_ring_buffer", "lib/tree_decode.c:init_tree", "lib/bit_stream_reader.c:bit_stream_reader_init"],
         bounds="real -lh5- init, real memset; any window cell / tree cell"),
] + [
    dict(name="e2e.lh5." + tag, src="C01/e2e.c", defines=["SPLIT_INIT"] + defs, flags=["--arrays-uf-always", "--max-field-sensitivity-array-size", "1100"], backend="cadical",
         unwindset={"put.0": 18, "harness.0": 42, "harness.1": 10, "harness.2": 10, "harness.3": 260, "harness.4": 10, "harness.5": 10, "harness.6": 260, "harness.7": 10,
                    "init_tree.0": 1022, "peek_bits.0": 6, "peek_bits.1": 6, "cb_read.0": 6, "lha_lh_new_read.0": 3,
                    "copy_from_history.0": 260, "read_from_tree.0": 1, "read_length_value.0": 1, "read_temp_table.0": 1, "read_temp_table.1": 1,
                    "read_code_table.0": 1, "read_code_table.1": 1, "read_offset_table.0": 1, "build_tree.0": 1, "add_codes_with_length.0": 1, "expand_queue.0": 1},
         units=["lib/lh5_decoder.c (whole read path): lha_lh_new_read, start_new_block, table readers (n=0 forms), set_tree_single, read_from_tree, read_offset_code, copy_from_history, output_byte, bit reader"],
         timeout=600, mem_gb=6, tier=tier,
         bounds="real -lh5- read path from the post-init state, no stubs: concrete 13-byte prefix of two blocks with single-symbol tables (%s), then 2 copies whose extra bits (distances) are symbolic" % what,
         stubs=["cb_read: stream delivered one byte per call",
                "init: the post-init state is built directly (window all spaces, position 0, no block open, empty bit buffer, tree contents arbitrary); the real lha_lh_new_init is shown to establish it by e2e.init.lh5"])
    for tag, defs, what, tier in [
        ("p14", ["LENMAX=8", "C2V=261", "P2V=14"], "2 literals 'A'; copy length 8, offset symbol 14: distances 8192..16383", "both"),
        ("p3", ["LENMAX=8", "C2V=261", "P2V=3"], "2 literals 'A'; copy length 8, offset symbol 3: distances 4..7 (overlapping copies)", "both"),
        ("p1", ["LENMAX=8", "C2V=258", "P2V=1", "C1V=0"], "2 literals 0x00; copy length 5, offset symbol 1: distance 1", "thorough"),
        ("p0", ["LENMAX=8", "C2V=256", "P2V=0", "C1V=255"], "2 literals 0xff; copy length 3, offset symbol 0: distance 0", "thorough"),
        ("p13.l16", ["LENMAX=16", "C2V=269", "P2V=13"], "2 literals 'A'; copy length 16, offset symbol 13: distances 4096..8191", "thorough"),
    ]
]
