CLAIM = "wip"
ASSUMPTIONS = []
BITS = {"lib/bit_stream_reader.c": ["peek_bits", "read_bits", "read_bit"]}
HARNESSES = [
    dict(name="mtf.init", src="C04/mtf.c", entry="harness_init", unwind=257, units=["lib/pma_common.c:init_history_list"], timeout=120, bounds="concrete, all 256 ranks"),
    dict(name="mtf.update", src="C04/mtf.c", entry="harness_update", unwind=9, units=["lib/pma_common.c:update_history_list"], timeout=100, bounds="256"),
    dict(name="mtf.walk", src="C04/mtf.c", entry="harness_walk", unwind=9, units=["lib/pma_common.c:find_in_history_list"], timeout=100, bounds="256"),
    dict(name="mtf.find", src="C04/mtf.c", entry="harness_find", unwind=257, unwindset={"find_in_history_list.0": 129, "find_in_history_list.1": 130, "harness_find.1": 12}, units=["lib/pma_common.c:find_in_history_list"], timeout=100, bounds="256"),
]
