CLAIM = ("PMarc -pm1-/-pm2-: every decoding step of the real sources equals the format written out independently in "
         "harness/C04/pma_ref.h (explicit prefix-code tables and arithmetic, validated natively against the repository's "
         "test corpus by harness/C04/validate/run.sh).  Move-to-front history: init order (real size, concrete), the "
         "update as an inductive step over arbitrary list contents at real size, lookups by bounded walks over arbitrary "
         "contents plus full-length walks on concrete lists.  -pm2-: table parsers vs a reference parser, the table "
         "(re)transmission schedule as an inductive invariant over the number of bytes output (any stream length), one "
         "command from an arbitrary window/position/alignment/countdown (byte commands, copies 2..16 at symbolic "
         "position, copies 17..256 at concrete positions, every length/distance field value).  -pm1-: every field "
         "decoder at an arbitrary output position (all thresholds), all 32 start-header codes, one copy command over "
         "an arbitrary 16 KiB window, the command structure of one read (header, block, copy decoded after the block), "
         "the 216 rule, and the zero-bit continuation past the end of data through the real bit reader.  The steps "
         "compose by their explicit state invariants/contracts; whole-stream runs are not encoded.")
ASSUMPTIONS = [
    "bit reader replaced by the BITS_SPEC model (bits of a symbolic byte string, MSB first) in all harnesses except pm1.eof.bits; its refinement by lib/bit_stream_reader.c is C01's bits.* claim",
    "build_tree / read_from_tree (canonical code construction and tree walk) are C01/C09's tree.* claims; here they are capture/choice stubs",
    "reference format = harness/C04/pma_ref.h, derived from the source comments (UNPMA description), DESIGN 4.4 and the property text; validated on all 41 pm1/pm2 payloads of the repository (output == real library == header CRC)",
    "callee contracts used by the command harnesses are each discharged by another harness of this plan (named in stubs)",
    "input callback contract: stores at most buf_len bytes and returns that count, 0 = end of data",
]
BITS = {"lib/bit_stream_reader.c": ["peek_bits", "read_bits", "read_bit"]}
SPEC = "bit reader: BITS_SPEC model over a symbolic byte string (refinement: C01 bits.*)"
CMD2 = dict(BITS, **{"lib/tree_decode.c": ["read_from_tree"], "lib/pm2_decoder.c": ["rebuild_tree"], "lib/pma_common.c": ["find_in_history_list", "update_history_list"]})
CMD2_STUBS = [SPEC, "read_from_tree: yields the harness-chosen code symbol / offset class, consumes nothing, records when the offset tree is consulted (tree walk: tree.walk.*; table contents: pm2.tables.*)",
              "find_in_history_list: returns ghost value-at-rank, records the rank (justified by mtf.walk/mtf.find)",
              "update_history_list: records the bytes in order (justified by mtf.update)",
              "rebuild_tree: counts calls and resets the countdown (what is read when: pm2.sched.*)"]
TABS = dict(BITS, **{"lib/tree_decode.c": ["build_tree"]})
SCHED = dict(BITS, **{"lib/pm2_decoder.c": ["read_code_tree", "read_offset_tree"]})
PM1U = {"bs_ref.0": 19, "pma_ref_rows.0": 8, "pm1_ref_copy_type.0": 18, "pm1_ref_dist_bits.0": 10, "pm1_ref_class.0": 7, "read_byte_decode_index.0": 6}
LONG_UNITS = ["lib/pm2_decoder.c:lha_pm2_decoder_read,copy_from_history,history_get_count,history_get_offset,output_byte", "lib/pma_common.c:decode_variable_length"]

HARNESSES = [
    # ---- H04.mtf
    dict(name="mtf.init", src="C04/mtf.c", entry="harness_init", unwind=257, units=["lib/pma_common.c:init_history_list"], timeout=200,
         bounds="real size (256 values), concrete: whole prev chain and every next link vs the fixed start order"),
    dict(name="mtf.update", src="C04/mtf.c", entry="harness_update", unwind=9, backend="cadical", units=["lib/pma_common.c:update_history_list"], timeout=300,
         bounds="real size; arbitrary list contents; b at arbitrary rank k; result inspected at arbitrary rank r; pre-state constrained only at the 8 ranks the update can touch or the probe reads (weaker than full consistency)"),
    dict(name="mtf.walk", src="C04/mtf.c", entry="harness_walk", unwind=9, backend="cvc5", units=["lib/pma_common.c:find_in_history_list"], timeout=200,
         bounds="arbitrary list contents, walks of <= 6 links in either direction (c <= 6 or c >= 250); longer walks over arbitrary contents are not decided (solver does not scale: 16 links no verdict in 120 s)"),
    dict(name="mtf.find", src="C04/mtf.c", entry="harness_find", unwind=257, unwindset={"find_in_history_list.0": 129, "find_in_history_list.1": 130},
         units=["lib/pma_common.c:find_in_history_list,update_history_list,init_history_list"], timeout=400,
         bounds="real size, concrete lists: init order and the lists after 8 real updates; all 256 ranks after the last update (full-length walks both directions, switch at 128), samples before"),
    # ---- H04.pm2.tables
    dict(name="pm2.tables.code", src="C04/pm2_tables.c", entry="harness_code", backend="cadical", rename_defs=TABS,
         unwind=3, unwindset={"bs_ref.0": 8, "read_code_tree.0": 33, "load_bits.0": 37, "harness_code.0": 66, "pm2_ref_code_table.0": 33, "build_tree.0": 34, "read_from_tree.0": 3},
         units=["lib/pm2_decoder.c:read_code_tree", "lib/tree_decode.c:set_tree_single,read_from_tree"], timeout=500,
         bounds="every code table: n 0..31, m 0..7, w 0..7, all length fields symbolic (36 symbolic bytes), cursor at bit 0",
         stubs=[SPEC, "build_tree: capture stub (tree, size, length array, count); construction from lengths is tree.*"]),
    dict(name="pm2.tables.offset", src="C04/pm2_tables.c", entry="harness_offset", rename_defs=TABS,
         unwind=3, unwindset={"bs_ref.0": 8, "read_offset_tree.0": 10, "load_bits.0": 37, "harness_offset.0": 18, "pm2_ref_offset_table.0": 10, "build_tree.0": 34, "read_from_tree.0": 3},
         units=["lib/pm2_decoder.c:read_offset_tree", "lib/tree_decode.c:set_tree_single,read_from_tree"], timeout=200,
         bounds="every offset table with 5..8 classes, need flag 0/1, arbitrary alignment", stubs=[SPEC, "build_tree: capture stub"]),
    # ---- capacity of the decoder's own tree arrays (real build_tree, real sizes)
] + [
    dict(name="pm2.tree.cap%d" % n, src="C04/pm2_cap.c", entry="harness_code", defines=["CAPN=%d" % n], rename_defs=BITS, unwind=34, unwindset={"bs_ref.0": 8},
         units=["lib/pm2_decoder.c:LHAPM2Decoder.code_tree (size)", "lib/tree_decode.c:build_tree,expand_queue,add_codes_with_length,read_next_entry,read_from_tree"], timeout=300, mem_gb=4,
         bounds="complete balanced code over %d symbols at any rotation of the symbol order, any symbol; CONCRETE tree shape" % n, stubs=[SPEC])
    for n in (29, 31)
] + [
    dict(name="pm2.tree.cap.offset", src="C04/pm2_cap.c", entry="harness_offset", rename_defs=BITS, unwind=34, unwindset={"bs_ref.0": 8},
         units=["lib/pm2_decoder.c:LHAPM2Decoder.offset_tree (size)", "lib/tree_decode.c:build_tree,read_from_tree"], timeout=300, mem_gb=4,
         bounds="complete balanced code over the 8 offset classes at any rotation, any symbol", stubs=[SPEC]),
    # ---- H04.pm2.sched
    dict(name="pm2.sched.step", src="C04/pm2_sched.c", entry="harness_step", defines=["STEP_HARNESS"], rename_defs=SCHED, unwind=3,
         units=["lib/pm2_decoder.c:output_byte,rebuild_tree", "lib/pma_common.c:update_history_list"], timeout=300,
         bounds="inductive step: arbitrary T < 2^30 bytes output, arbitrary state satisfying INV(T), arbitrary window/position/history/fill/alignment; one output_byte",
         stubs=[SPEC, "read_code_tree/read_offset_tree: logging stubs consuming nothing (their parsing: pm2.tables.*)"]),
    dict(name="pm2.sched.start", src="C04/pm2_sched.c", entry="harness_start", defines=["START_HARNESS"], rename_defs=SCHED, unwind=3,
         unwindset={"memset.0": 8200, "init_history_list.0": 257, "init_tree.0": 66, "find_in_history_list.0": 9, "find_in_history_list.1": 2, "bs_ref.0": 4},
         units=["lib/pm2_decoder.c:lha_pm2_decoder_init,lha_pm2_decoder_read,rebuild_tree,read_single_byte,output_byte"], timeout=200,
         bounds="init + first read, symbolic first bits", stubs=[SPEC, "read_code_tree/read_offset_tree: logging stubs"]),
    # ---- H04.pm2.cmd
    dict(name="pm2.cmd.byte", src="C04/pm2_cmd.c", entry="harness_byte", defines=["BYTE_HARNESS"], rename_defs=CMD2, unwind=5, unwindset={"bs_ref.0": 8}, flags=["--arrays-uf-always"],
         units=["lib/pm2_decoder.c:lha_pm2_decoder_read,read_single_byte,output_byte", "lib/pma_common.c:decode_variable_length"], timeout=200, stubs=CMD2_STUBS,
         bounds="code symbols 0..7, all extra bits, arbitrary 8 KiB window / position / alignment / countdown 1..4096 / stage"),
    dict(name="pm2.cmd.copy", src="C04/pm2_cmd.c", entry="harness_copy", defines=["COPY_HARNESS", "COPY_LEN_MAX=8"], rename_defs=CMD2, unwind=5, unwindset={"bs_ref.0": 14, "copy_from_history.0": 11},
         flags=["--arrays-uf-always"], units=LONG_UNITS, timeout=300, mem_gb=4, stubs=CMD2_STUBS, tier="quick",
         bounds="copy lengths 2..8 (code symbols 8..14), any offset class 0..7 and distance bits (distance 1..8192), symbolic window position, arbitrary window, alignment, countdown"),
    dict(name="pm2.cmd.copy16", src="C04/pm2_cmd.c", entry="harness_copy", defines=["COPY_HARNESS", "COPY_LEN_MAX=16"], rename_defs=CMD2, unwind=5, unwindset={"bs_ref.0": 14, "copy_from_history.0": 19},
         flags=["--arrays-uf-always"], units=LONG_UNITS, timeout=1200, mem_gb=4, stubs=CMD2_STUBS, tier="thorough",
         bounds="as pm2.cmd.copy with lengths 2..16 (all copy codes without length bits); ~110 s unloaded"),
    dict(name="pm2.cmd.fields", src="C04/pm2_cmd.c", entry="harness_fields", defines=["FIELDS_HARNESS"], rename_defs=CMD2, unwind=5, unwindset={"bs_ref.0": 14},
         units=["lib/pm2_decoder.c:history_get_count,history_get_offset", "lib/pma_common.c:decode_variable_length"], timeout=200, stubs=CMD2_STUBS,
         bounds="every copy code 0..22 (21, 22: not commands), every value of the length and distance fields, every offset class, any alignment"),
] + [
    dict(name="pm2.cmd.long.c%d.%d" % (c, ln), src="C04/pm2_cmd.c", entry="harness_long", defines=["LONG_HARNESS", "LC=%d" % c, "LX=%d" % lx, "LPOS=%d" % pos, "LT=%d" % t, "LV=%d" % v], rename_defs=CMD2,
         unwind=5, unwindset={"bs_ref.0": 14, "copy_from_history.0": 258, "harness_long.0": 266, "put_bits.0": 14},
         units=LONG_UNITS, timeout=300, mem_gb=4, stubs=CMD2_STUBS, tier=tier,
         bounds="copy code %d, length %d, window position %d, distance %d: concrete command, arbitrary window content and countdown (rebuild may fall inside the copy)" % (c, ln, pos, (v if t == 0 else (1 << (t + 5)) + v) + 1 if c != 20 else 1))
    for c, lx, ln, pos, t, v, tier in [(15, 0, 17, 0, 0, 0, "both"), (16, 7, 32, 8190, 7, 4095, "both"), (17, 20, 53, 100, 3, 44, "thorough"), (18, 63, 128, 5, 1, 0, "both"),
                                       (19, 0, 129, 8000, 5, 17, "thorough"), (19, 127, 256, 8100, 0, 2, "both"), (20, 0, 256, 4096, 0, 0, "both")]
] + [
    # ---- H04.pm1.cmd
    dict(name="pm1.cmd.fields", src="C04/pm1_cmd.c", entry="harness_fields", defines=["FIELDS_HARNESS", "BS_N=11"], backend="cadical", rename_defs=dict(BITS, **{"lib/pma_common.c": ["find_in_history_list"]}),
         unwind=3, unwindset=dict(PM1U, **{"load_bits.0": 12}),
         units=["lib/pm1_decoder.c:read_copy_type_range,read_bit_after_threshold,read_copy_byte_count,read_byte_block_count,read_byte_decode_index,read_byte", "lib/pma_common.c:decode_variable_length"], timeout=400,
         stubs=[SPEC, "find_in_history_list: ghost value-at-rank array, records the rank (mtf.walk/mtf.find)"],
         bounds="arbitrary output position < 2^31, any of the 32 start headers, any alignment, all codewords (copy length 3..244, block length 1..216, copy class 0..5, rank 0..255)"),
    dict(name="pm1.cmd.copy", src="C04/pm1_cmd.c", entry="harness_copy", defines=["COPY_HARNESS", "BS_N=9", "ALIGN0"], backend="cadical", rename_defs=dict(BITS, **{"lib/pma_common.c": ["update_history_list"]}),
         unwind=3, unwindset=dict(PM1U, **{"load_bits.0": 10, "read_copy_command.0": 11}), flags=["--arrays-uf-always"],
         units=["lib/pm1_decoder.c:read_copy_command,read_copy_type_range,read_copy_byte_count,outputted_byte", "lib/pma_common.c:decode_variable_length"], timeout=400, mem_gb=4,
         stubs=[SPEC, "update_history_list: records the bytes in order (mtf.update)"],
         bounds="arbitrary output position (all 12 thresholds symbolic), arbitrary 16 KiB window and window position, copy class 0..5, length <= 8, every distance incl. invalid ones (>= output position); cursor at bit 0"),
    dict(name="pm1.cmd.outb", src="C04/pm1_cmd.c", entry="harness_outb", defines=["OUTB_HARNESS"], rename_defs=dict(BITS, **{"lib/pma_common.c": ["update_history_list"]}),
         unwind=3, flags=["--arrays-uf-always"], units=["lib/pm1_decoder.c:outputted_byte"], timeout=120, stubs=["update_history_list: records (mtf.update)"],
         bounds="arbitrary window, window position, output position, byte"),
    dict(name="pm1.cmd.read", src="C04/pm1_cmd.c", entry="harness_read", defines=["READ_HARNESS", "BS_N=12"], backend="cadical",
         rename_defs=dict(BITS, **{"lib/pm1_decoder.c": ["read_byte", "outputted_byte", "read_copy_command"]}),
         unwind=3, unwindset=dict(PM1U, **{"load_bits.0": 13, "read_byte_block.0": 5, "harness_read.0": 5, "harness_read.1": 5}),
         units=["lib/pm1_decoder.c:lha_pm1_read,read_start_header,read_byte_block,read_byte_block_count"], timeout=300,
         stubs=[SPEC, "read_byte: contract from pm1.cmd.fields (consumes one coded rank under the stream's start header, returns an arbitrary byte)",
                "outputted_byte: contract from pm1.cmd.outb", "read_copy_command: contract from pm1.cmd.copy (records the state it is entered with, reports a harness-chosen length)"],
         bounds="one lha_pm1_read: with or without the 5-bit start header, copy command or byte block of <= 4 symbolic bytes followed by its copy; arbitrary positions and alignment"),
    dict(name="pm1.cmd.block", src="C04/pm1_cmd.c", entry="harness_block", defines=["BLOCK_HARNESS", "BS_N=6"], backend="cadical", rename_defs=dict(BITS, **{"lib/pm1_decoder.c": ["read_byte", "outputted_byte", "read_copy_command"]}),
         unwind=3, unwindset=dict(PM1U, **{"load_bits.0": 7, "read_byte_block.0": 218}),
         units=["lib/pm1_decoder.c:read_byte_block,read_byte_block_count"], timeout=300,
         stubs=[SPEC, "read_byte / outputted_byte / read_copy_command: counting stubs"],
         bounds="every block length 1..216: number of bytes read, copy follows unless the length is 216, result length"),
    # ---- H04.pm1.eof
    dict(name="pm1.eof.wrapper", src="C04/pm1_eof.c", entry="harness_wrapper", defines=["WRAPPER_HARNESS"], unwind=9, unwindset={"memset.0": 10},
         units=["lib/pm1_decoder.c:read_callback_wrapper"], timeout=120, stubs=["input callback: arbitrary count <= request, arbitrary bytes"],
         bounds="requests of 0..8 bytes, any callback result"),
    dict(name="pm1.eof.bits", src="C04/pm1_eof.c", entry="harness_bits", defines=["BITS_HARNESS"], unwind=6,
         unwindset={"memset.0": 17000, "init_history_list.0": 257, "harness_bits.0": 11, "harness_bits.1": 7, "ref_bits.0": 14, "cb_read.0": 5, "peek_bits.0": 6, "peek_bits.1": 5},
         units=["lib/pm1_decoder.c:read_callback_wrapper,lha_pm1_init", "lib/bit_stream_reader.c:peek_bits,read_bits,bit_stream_reader_init"], timeout=500,
         stubs=["cb_read: symbolic stream of 0..3 bytes with symbolic short reads, then end of data"],
         bounds="real bit reader behind the wrapper; stream of 0..3 symbolic bytes; three reads of 1..13 bits each"),
]
