CLAIM = "wip"
ASSUMPTIONS = []
BITS = {"lib/bit_stream_reader.c": ["peek_bits", "read_bits", "read_bit"]}
CMD2 = dict(BITS, **{"lib/tree_decode.c": ["read_from_tree"], "lib/pm2_decoder.c": ["rebuild_tree"], "lib/pma_common.c": ["find_in_history_list", "update_history_list"]})
PM1U = {"bs_ref.0": 19, "pma_ref_rows.0": 8, "pm1_ref_copy_type.0": 18, "pm1_ref_dist_bits.0": 10, "pm1_ref_class.0": 7, "read_byte_decode_index.0": 6}
HARNESSES = [
    dict(name="mtf.init", src="C04/mtf.c", entry="harness_init", unwind=257, units=["lib/pma_common.c:init_history_list"], timeout=120, bounds="concrete, all 256 ranks"),
    dict(name="mtf.update", src="C04/mtf.c", entry="harness_update", unwind=9, backend="cadical", units=["lib/pma_common.c:update_history_list"], timeout=200, bounds="256"),
    dict(name="mtf.walk", src="C04/mtf.c", entry="harness_walk", unwind=9, backend="cvc5", units=["lib/pma_common.c:find_in_history_list"], timeout=100, bounds="256"),
    dict(name="mtf.find", src="C04/mtf.c", entry="harness_find", unwind=257, unwindset={"find_in_history_list.0": 129, "find_in_history_list.1": 130}, units=["lib/pma_common.c:find_in_history_list"], timeout=100, bounds="256"),
    dict(name="pm2.tables.code", src="C04/pm2_tables.c", entry="harness_code", backend="cadical", rename_defs=dict(BITS, **{"lib/tree_decode.c": ["build_tree"]}),
         unwind=3, unwindset={"bs_ref.0": 8, "read_code_tree.0": 33, "load_bits.0": 37, "harness_code.0": 66, "pm2_ref_code_table.0": 33, "build_tree.0": 34, "read_from_tree.0": 3},
         units=["lib/pm2_decoder.c:read_code_tree"], timeout=200, bounds="x"),
    dict(name="pm2.tables.offset", src="C04/pm2_tables.c", entry="harness_offset", rename_defs=dict(BITS, **{"lib/tree_decode.c": ["build_tree"]}),
         unwind=3, unwindset={"bs_ref.0": 8, "read_offset_tree.0": 10, "load_bits.0": 37, "harness_offset.0": 18, "pm2_ref_offset_table.0": 10, "build_tree.0": 34, "read_from_tree.0": 3},
         units=["lib/pm2_decoder.c:read_offset_tree"], timeout=200, bounds="x"),
    dict(name="pm2.sched.step", src="C04/pm2_sched.c", entry="harness_step", defines=["STEP_HARNESS"],
         rename_defs=dict(BITS, **{"lib/pm2_decoder.c": ["read_code_tree", "read_offset_tree"]}), unwind=3,
         units=["lib/pm2_decoder.c:output_byte,rebuild_tree"], timeout=200, bounds="x"),
    dict(name="pm2.sched.start", src="C04/pm2_sched.c", entry="harness_start", defines=["START_HARNESS"],
         rename_defs=dict(BITS, **{"lib/pm2_decoder.c": ["read_code_tree", "read_offset_tree"]}), unwind=3,
         unwindset={"memset.0": 8200, "init_history_list.0": 257, "init_tree.0": 66, "find_in_history_list.0": 9, "find_in_history_list.1": 2, "bs_ref.0": 4},
         units=["lib/pm2_decoder.c:lha_pm2_decoder_init,lha_pm2_decoder_read,rebuild_tree"], timeout=200, bounds="x"),
    dict(name="pm2.cmd.byte", src="C04/pm2_cmd.c", entry="harness_byte", defines=["BYTE_HARNESS"], rename_defs=CMD2, unwind=5, unwindset={"bs_ref.0": 8}, flags=["--arrays-uf-always"],
         units=["lib/pm2_decoder.c:lha_pm2_decoder_read,read_single_byte,output_byte"], timeout=200, bounds="x"),
    dict(name="pm2.cmd.copy", src="C04/pm2_cmd.c", entry="harness_copy", defines=["COPY_HARNESS", "ALIGN0"], rename_defs=CMD2, unwind=5, unwindset={"bs_ref.0": 14, "copy_from_history.0": 17},
         flags=["--arrays-uf-always"], units=["lib/pm2_decoder.c:lha_pm2_decoder_read,copy_from_history,history_get_count,history_get_offset,output_byte"], timeout=300, mem_gb=4, bounds="x"),
    dict(name="pm2.cmd.fields", src="C04/pm2_cmd.c", entry="harness_fields", defines=["FIELDS_HARNESS"], rename_defs=CMD2, unwind=5, unwindset={"bs_ref.0": 14},
         units=["lib/pm2_decoder.c:history_get_count,history_get_offset", "lib/pma_common.c:decode_variable_length"], timeout=200, bounds="x"),
] + [
    dict(name="pm2.cmd.long.c%d.%d" % (c, ln), src="C04/pm2_cmd.c", entry="harness_long", defines=["LONG_HARNESS", "LC=%d" % c, "LX=%d" % lx, "LPOS=%d" % pos, "LT=%d" % t, "LV=%d" % v], rename_defs=CMD2,
         unwind=5, unwindset={"bs_ref.0": 14, "copy_from_history.0": 258, "harness_long.0": 266, "put_bits.0": 14},
         units=["lib/pm2_decoder.c:lha_pm2_decoder_read,copy_from_history,history_get_count,history_get_offset,output_byte"], timeout=300, mem_gb=4, bounds="x")
    for c, lx, ln, pos, t, v in [(15, 0, 17, 0, 0, 0), (16, 7, 32, 8190, 7, 4095), (17, 20, 53, 100, 3, 44), (18, 63, 128, 5, 1, 0), (19, 0, 129, 8000, 5, 17), (19, 127, 256, 8100, 0, 2), (20, 0, 256, 4096, 0, 0)]
] + [
    dict(name="pm1.cmd.fields", src="C04/pm1_cmd.c", entry="harness_fields", defines=["FIELDS_HARNESS", "BS_N=11"], backend="cadical", rename_defs=dict(BITS, **{"lib/pma_common.c": ["find_in_history_list"]}),
         unwind=3, unwindset=dict(PM1U, **{"load_bits.0": 12}),
         units=["lib/pm1_decoder.c:read_copy_type_range,read_copy_byte_count,read_byte_block_count,read_byte_decode_index,read_byte"], timeout=300, bounds="x"),
    dict(name="pm1.cmd.copy", src="C04/pm1_cmd.c", entry="harness_copy", defines=["COPY_HARNESS", "BS_N=9", "ALIGN0"], backend="cadical", rename_defs=dict(BITS, **{"lib/pma_common.c": ["update_history_list"]}),
         unwind=3, unwindset=dict(PM1U, **{"load_bits.0": 10, "read_copy_command.0": 9}), flags=["--arrays-uf-always"],
         units=["lib/pm1_decoder.c:read_copy_command,outputted_byte"], timeout=300, mem_gb=4, bounds="x"),
    dict(name="pm1.cmd.outb", src="C04/pm1_cmd.c", entry="harness_outb", defines=["OUTB_HARNESS"], rename_defs=dict(BITS, **{"lib/pma_common.c": ["update_history_list"]}),
         unwind=3, flags=["--arrays-uf-always"], units=["lib/pm1_decoder.c:outputted_byte"], timeout=120, bounds="x"),
    dict(name="pm1.cmd.read", src="C04/pm1_cmd.c", entry="harness_read", defines=["READ_HARNESS", "BS_N=12"], backend="cadical",
         rename_defs=dict(BITS, **{"lib/pm1_decoder.c": ["read_byte", "outputted_byte", "read_copy_command"]}),
         unwind=3, unwindset=dict(PM1U, **{"load_bits.0": 13, "read_byte_block.0": 5, "harness_read.0": 5, "harness_read.1": 5}),
         units=["lib/pm1_decoder.c:lha_pm1_read,read_start_header,read_byte_block,read_byte_block_count"], timeout=300, bounds="x"),
    dict(name="pm1.cmd.block", src="C04/pm1_cmd.c", entry="harness_block", defines=["BLOCK_HARNESS", "BS_N=6"], backend="cadical", rename_defs=dict(BITS, **{"lib/pm1_decoder.c": ["read_byte", "outputted_byte", "read_copy_command"]}),
         unwind=3, unwindset=dict(PM1U, **{"load_bits.0": 7, "read_byte_block.0": 218}),
         units=["lib/pm1_decoder.c:read_byte_block,read_byte_block_count"], timeout=300, bounds="x"),
    dict(name="pm1.eof.wrapper", src="C04/pm1_eof.c", entry="harness_wrapper", defines=["WRAPPER_HARNESS"], unwind=9, unwindset={"memset.0": 10},
         units=["lib/pm1_decoder.c:read_callback_wrapper"], timeout=120, bounds="x"),
    dict(name="pm1.eof.bits", src="C04/pm1_eof.c", entry="harness_bits", defines=["BITS_HARNESS"], unwind=6,
         unwindset={"memset.0": 17000, "init_history_list.0": 257, "harness_bits.0": 11, "harness_bits.1": 7, "ref_bits.0": 14, "cb_read.0": 5, "peek_bits.0": 6, "peek_bits.1": 5},
         units=["lib/pm1_decoder.c:read_callback_wrapper,lha_pm1_init", "lib/bit_stream_reader.c"], timeout=300, bounds="x"),
]
